"""Registry of checks: for every property, the jobs (harness + anchored /repo
sources + flags + arguments) of the quick and thorough tiers.  DESIGN.md §4."""

CHECKS = {}


def tree_job(kind, name, n, iters=0, tear=0, inv=1, san='', unpacked=False, deadline=None, uchar=False, pack2=False, cc=None, pack4=False):
    defs = ['-DTREE_%s' % kind.upper()]
    bn = '%s%s%s%s%s%s' % (kind, '-asan' if san else '', '-unpacked' if unpacked else '', '-uchar' if uchar else '', '-pack2' if pack2 else '-pack4' if pack4 else '', '-' + cc if cc else '')
    if pack4:
        defs.append('-DTREE_PACK4')  # nodes at addresses that are 4 modulo 8 (the AVL node promises 4-byte alignment only)
    if pack2:
        defs.append('-DTREE_PACK2')  # nodes at addresses that are 2 modulo 4 (the red-black node promises 2-byte alignment only)
    if unpacked:
        defs.append('-DA_SIZE_POINTER=1')
    if uchar:
        defs.append('-funsigned-char')  # plain char unsigned (ARM / PowerPC / RISC-V ABIs)
    args = ['--n', n, '--iters', iters, '--tear', tear, '--inv', inv]
    if deadline:
        args += ['--deadline', deadline]
    j = {'name': name, 'build_name': bn, 'harness': ['harness/tree.cpp'], 'repo_srcs': ['src/%s.c' % kind], 'defs': defs, 'san': san, 'args': args}
    if cc:
        j['cc'] = cc  # a second compiler: A_ASSUME, A_LIKELY and the other hint macros expand differently (clang does not evaluate an assumption)
    return j


def with_clang(job, name):
    """the same job built with the second compiler (clang): the hint macros (A_ASSUME, A_LIKELY, A_PREREQ_GNUC paths) expand differently"""
    j = dict(job)
    j['name'] = name
    j['build_name'] = job['build_name'] + '-clang'
    j['cc'] = 'clang'
    return j


def c01_jobs(tier):
    if tier == 'quick':
        return [tree_job('avl', 'avl-packed-n18', 18, deadline=100),
                tree_job('avl', 'avl-packed-asan-n13', 13, san='asan', deadline=100),
                tree_job('avl', 'avl-unpacked-n14', 14, unpacked=True, deadline=100),
                tree_job('avl', 'avl-unpacked-uchar-n12', 12, unpacked=True, uchar=True, deadline=100),
                tree_job('avl', 'avl-pack4-n12', 12, pack4=True, deadline=100),
                tree_job('avl', 'avl-packed-clang-n14', 14, cc='clang', deadline=100)]
    return [tree_job('avl', 'avl-packed-n27', 27, deadline=2400),
            tree_job('avl', 'avl-packed-asan-n20', 20, san='asan', deadline=2400),
            tree_job('avl', 'avl-unpacked-n25', 25, unpacked=True, deadline=2400),
            tree_job('avl', 'avl-unpacked-asan-n18', 18, unpacked=True, san='asan', deadline=2400),
            tree_job('avl', 'avl-unpacked-uchar-n20', 20, unpacked=True, uchar=True, deadline=2400),
            tree_job('avl', 'avl-pack4-n20', 20, pack4=True, deadline=2400),
            tree_job('avl', 'avl-packed-clang-n22', 22, cc='clang', deadline=2400)]


def c02_jobs(tier):
    if tier == 'quick':
        return [tree_job('rbt', 'rbt-packed-n15', 15, deadline=100),
                tree_job('rbt', 'rbt-packed-asan-n11', 11, san='asan', deadline=100),
                tree_job('rbt', 'rbt-unpacked-n12', 12, unpacked=True, deadline=100),
                tree_job('rbt', 'rbt-unpacked-uchar-n10', 10, unpacked=True, uchar=True, deadline=100),
                tree_job('rbt', 'rbt-pack2-n12', 12, pack2=True, deadline=100),
                tree_job('rbt', 'rbt-packed-clang-n12', 12, cc='clang', deadline=100)]
    return [tree_job('rbt', 'rbt-packed-n24', 24, deadline=2400),
            tree_job('rbt', 'rbt-packed-asan-n17', 17, san='asan', deadline=2400),
            tree_job('rbt', 'rbt-unpacked-n22', 22, unpacked=True, deadline=2400),
            tree_job('rbt', 'rbt-unpacked-asan-n16', 16, unpacked=True, san='asan', deadline=2400),
            tree_job('rbt', 'rbt-unpacked-uchar-n18', 18, unpacked=True, uchar=True, deadline=2400),
            tree_job('rbt', 'rbt-pack2-n18', 18, pack2=True, deadline=2400),
            tree_job('rbt', 'rbt-packed-clang-n18', 18, cc='clang', deadline=2400)]


def c03_jobs(tier):
    if tier == 'quick':
        return [tree_job('avl', 'avl-iter-tear-n14', 14, 1, 1, 0, deadline=100),
                tree_job('rbt', 'rbt-iter-tear-n12', 12, 1, 1, 0, deadline=100),
                tree_job('avl', 'avl-iter-tear-asan-n11', 11, 1, 1, 0, san='asan', deadline=100),
                tree_job('rbt', 'rbt-iter-tear-asan-n10', 10, 1, 1, 0, san='asan', deadline=100),
                tree_job('avl', 'avl-unpacked-iter-tear-n11', 11, 1, 1, 0, unpacked=True, deadline=100),
                tree_job('rbt', 'rbt-unpacked-iter-tear-n10', 10, 1, 1, 0, unpacked=True, deadline=100),
                tree_job('rbt', 'rbt-pack2-iter-tear-n10', 10, 1, 1, 0, pack2=True, deadline=100),
                tree_job('avl', 'avl-pack4-iter-tear-n10', 10, 1, 1, 0, pack4=True, deadline=100),
                tree_job('rbt', 'rbt-clang-iter-tear-n10', 10, 1, 1, 0, cc='clang', deadline=100)]
    return [tree_job('avl', 'avl-iter-tear-n23', 23, 1, 1, 0, deadline=2400),
            tree_job('rbt', 'rbt-iter-tear-n20', 20, 1, 1, 0, deadline=2400),
            tree_job('avl', 'avl-iter-tear-asan-n17', 17, 1, 1, 0, san='asan', deadline=2400),
            tree_job('rbt', 'rbt-iter-tear-asan-n15', 15, 1, 1, 0, san='asan', deadline=2400),
            tree_job('avl', 'avl-unpacked-iter-tear-n19', 19, 1, 1, 0, unpacked=True, deadline=2400),
            tree_job('rbt', 'rbt-unpacked-iter-tear-n17', 17, 1, 1, 0, unpacked=True, deadline=2400),
            tree_job('rbt', 'rbt-pack2-iter-tear-n15', 15, 1, 1, 0, pack2=True, deadline=2400)]


TREE_RULE = ('explicit-state BFS to a fixpoint over the real %s: a state is the tree shape with the stored balance/colour bits '
             '(keys are implicit: only their order is visible to the code); from EVERY reachable state EVERY enabled operation is executed on a fresh '
             'real object: insert into each gap (while fewer than N live keys), remove each rank, duplicate-insert each rank, lookup of each present key '
             'and each gap%s. distinct_nontrivial = distinct reachable states; evaluations = transitions executed. '
             'Every new state is also rebuilt from the empty tree through insert/remove calls only and must encode identically (traces_validated_against_impl).')

CHECKS['C01'] = {
    'title': 'AVL invariants under any history', 'level': 'model_checking', 'jobs': c01_jobs,
    'rule': TREE_RULE % ('src/avl.c', ''),
    'assumptions': ['the comparison callback is a strict weak order and the only way the code looks at keys (so order-isomorphic key sets are equivalent)',
                    'bound: at most N live keys (N per job in coverage.jobs); histories are of unbounded length (fixpoint)',
                    'x86-64 host; packed layout = default, unpacked layout compiled with -DA_SIZE_POINTER=1'],
}
CHECKS['C02'] = {
    'title': 'red-black invariants under any history', 'level': 'model_checking', 'jobs': c02_jobs,
    'rule': TREE_RULE % ('src/rbt.c', ''),
    'assumptions': CHECKS['C01']['assumptions'],
}
CHECKS['C03'] = {
    'title': 'tree iterators and tear-down on every reachable shape', 'level': 'model_checking', 'jobs': c03_jobs,
    'rule': TREE_RULE % ('src/avl.c and src/rbt.c', '; in every state additionally the 12 foreach loop forms, the 6 step functions from every node, head/tail/post_head/post_tail, '
                         'and tear-down interrupted after every k in 0..n (continued with the saved cursor, and restarted with a null cursor - before the restart every iterator form and step function runs on the remaining tree; likewise after 1, 2 and n/2 steps of the tear-down from every explicit starting node), every handed-out node being poisoned at once'),
    'assumptions': ['state set = reachable set of the C01/C02 explorations at the stated bound, regenerated by the same BFS',
                    'reads of a handed-out node are detected by ASan poisoning (asan jobs) and by wild-pointer poisoning (plain jobs: a followed pointer faults, a compared pointer changes the sequence)'],
}


def seq_job(kind, name, n, siz, siz2=0, mem0=4, memcap=12, keys=3, san='', faults=0, deadline=100):
    args = ['--n', n, '--siz', siz, '--siz2', siz2, '--mem0', mem0, '--memcap', memcap, '--keys', keys, '--faults', faults, '--deadline', deadline]
    return {'name': name, 'build_name': '%s%s' % (kind, '-asan' if san else ''), 'harness': ['harness/seq.cpp'],
            'repo_srcs': ['src/%s.c' % kind, 'src/a.c'], 'defs': ['-DSEQ_%s' % kind.upper()], 'san': san, 'args': args}


def c04_jobs(tier):
    if tier == 'quick':
        return [seq_job('vec', 'vec-n5-siz1-3', 5, 1, 3),
                seq_job('vec', 'vec-n4-siz8-12', 4, 8, 12),
                seq_job('vec', 'vec-n4-siz0', 4, 0),
                seq_job('vec', 'vec-n3-siz1-12', 3, 1, 12),  # 8 one-byte slots become 0 twelve-byte slots: capacity 0 with live storage
                seq_job('vec', 'vec-n9-siz3-2keys', 9, 3, keys=2, memcap=16),
                seq_job('vec', 'vec-asan-n3-siz1-3', 3, 1, 3, san='asan'),
                seq_job('vec', 'vec-asan-n3-siz12', 3, 12, san='asan'),
                seq_job('buf', 'buf-n4-siz1-3', 4, 1, 3, mem0=4, memcap=6),
                seq_job('buf', 'buf-n4-siz8-12', 4, 8, 12, mem0=5, memcap=6),
                seq_job('buf', 'buf-n3-siz0', 3, 0, mem0=3, memcap=4),
                seq_job('buf', 'buf-n8-siz2-2keys', 8, 2, mem0=8, memcap=9, keys=2),
                seq_job('buf', 'buf-asan-n3-siz1-3', 3, 1, 3, mem0=3, memcap=4, san='asan'),
                seq_job('buf', 'buf-asan-n3-siz12', 3, 12, mem0=3, memcap=4, san='asan')]
    D = 2400
    return [seq_job('vec', 'vec-n7-siz1-3', 7, 1, 3, deadline=D),
            seq_job('vec', 'vec-n6-siz8-12', 6, 8, 12, deadline=D),
            seq_job('vec', 'vec-n6-siz0', 6, 0, deadline=D),
            seq_job('vec', 'vec-n10-siz3-2keys', 10, 3, keys=2, memcap=16, deadline=D),
            seq_job('vec', 'vec-n9-siz12-2keys', 9, 12, keys=2, memcap=16, deadline=D),
            seq_job('vec', 'vec-asan-n5-siz1-3', 5, 1, 3, san='asan', deadline=D),
            seq_job('vec', 'vec-asan-n9-siz3-2keys', 9, 3, keys=2, memcap=16, san='asan', deadline=D),
            seq_job('buf', 'buf-n6-siz1-3', 6, 1, 3, mem0=6, memcap=8, deadline=D),
            seq_job('buf', 'buf-n6-siz8-12', 6, 8, 12, mem0=6, memcap=8, deadline=D),
            seq_job('buf', 'buf-n5-siz0', 5, 0, mem0=5, memcap=6, deadline=D),
            seq_job('buf', 'buf-n9-siz2-2keys', 9, 2, mem0=9, memcap=10, keys=2, deadline=D),
            seq_job('buf', 'buf-asan-n5-siz1-3', 5, 1, 3, mem0=5, memcap=6, san='asan', deadline=D),
            seq_job('buf', 'buf-asan-n8-siz2-2keys', 8, 2, mem0=8, memcap=9, keys=2, san='asan', deadline=D)]


CHECKS['C04'] = {
    'title': 'vector and fixed buffer as an indexable sequence', 'level': 'model_checking', 'jobs': c04_jobs,
    'rule': ('explicit-state BFS to a fixpoint over the real src/vec.c / src/buf.c: a state is (element size, capacity, key sequence); from EVERY reachable state EVERY '
             'operation of the menu is executed on a fresh real object in lock-step with an abstract sequence: push_back/push_fore/push_sort of each key, insert at every index '
             '0..num+1 and SIZE_MAX, pull_back/pull_fore, remove at every index 0..num and SIZE_MAX, store of blocks of 0/1/2 elements at {0,num/2,num,SIZE_MAX} with and without copy callback, '
             'erase(idx,cnt) for idx in 0..num+1,SIZE_MAX and cnt in {0,1,2,num,SIZE_MAX} with and without destructor, setn, setm, setz (element-size change), sort, sort_fore, sort_back, search, swap, '
             'and all accessors for every index -num-1..mem+1. Contents are compared byte for byte, returned pointers must lie in owned storage, allocator ledger/canaries checked after every call. '
             'distinct_nontrivial = distinct reachable states; every new state is rebuilt through constructor + public calls only and must encode identically.'),
    'assumptions': ['the comparison callback looks at the key nibble only; elements with equal keys are distinguishable by the harness but equivalent to the code',
                    'bound: at most N elements (per job), 3-key alphabet (2 keys in the larger jobs), capacity growth via setm offered below memcap',
                    'store is driven with counts that match the supplied block (0,1,2); a count larger than the block is a client error, not explored'],
    'design_ref': '§4.C04', 'technique': 'explicit-state BFS to a fixpoint over the real vec.c/buf.c against an abstract sequence model, canary allocator + ASan, API-replay conformance of every state',
    'level_text': 'Every operation of the sequence API, with every index and count class of the statement (in range, boundary, beyond the end, SIZE_MAX) and both capacity states, is executed from every reachable state with at most N elements (5-9 quick, 6-10 thorough; element sizes 0,1,3,8,12 with size changes) and compared byte for byte with an abstract sequence; fixpoint, so histories of any length.',
    'level_note': 'Trusted: gcc/clang+ASan, the canary allocator shim installed through a_alloc, host qsort/bsearch. Not covered: more than N elements, element sizes other than those listed.',
}


def lists_job(kind, name, n, siz=4, siz2=0, keys=2, san='', faults=0, deadline=100):
    args = ['--kind', kind, '--n', n, '--siz', siz, '--siz2', siz2, '--keys', keys, '--faults', faults, '--deadline', deadline]
    return {'name': name, 'build_name': 'lists%s' % ('-asan' if san else ''), 'harness': ['harness/lists.cpp'],
            'repo_srcs': ['src/que.c', 'src/a.c'], 'san': san, 'args': args}


def c05_jobs(tier):
    if tier == 'quick':
        return [lists_job('list', 'list-n7', 7), lists_job('list', 'list-asan-n6', 6, san='asan'),
                lists_job('slist', 'slist-n7', 7), lists_job('slist', 'slist-asan-n6', 6, san='asan'),
                lists_job('que', 'que-n6-siz4-9', 6, 4, 9, 2), lists_job('que', 'que-n5-siz1-3-3keys', 5, 1, 3, 3),
                lists_job('que', 'que-n18-siz8-pool-growth', 18, 8, 0, 1),  # 17+ nodes: the pool table reaches its third size step
                lists_job('que', 'que-asan-n5-siz4-9', 5, 4, 9, 2, san='asan'), lists_job('que', 'que-asan-n10-pool-growth', 10, 3, 0, 1, san='asan')]
    D = 2400
    return [lists_job('list', 'list-n9', 9, deadline=D), lists_job('list', 'list-asan-n8', 8, san='asan', deadline=D),
            lists_job('slist', 'slist-n10', 10, deadline=D), lists_job('slist', 'slist-asan-n9', 9, san='asan', deadline=D),
            lists_job('que', 'que-n8-siz4-9', 8, 4, 9, 2, deadline=D), lists_job('que', 'que-n6-siz1-3-3keys', 6, 1, 3, 3, deadline=D),
            lists_job('que', 'que-n18-siz8-pool-growth', 18, 8, 16, 1, deadline=D), lists_job('que', 'que-n10-siz2-2keys-pool-growth', 10, 2, 0, 2, deadline=D),
            lists_job('que', 'que-asan-n7-siz4-9', 7, 4, 9, 2, san='asan', deadline=D), lists_job('que', 'que-asan-n10-2keys-pool-growth', 10, 3, 0, 2, san='asan', deadline=D)]


CHECKS['C05'] = {
    'title': 'linked lists and the queue keep sequence and ring integrity', 'level': 'model_checking', 'jobs': c05_jobs,
    'rule': ('explicit-state BFS to a fixpoint over the real inline list primitives (include/a/list.h, slist.h) and src/que.c. Intrusive lists: nodes are anonymous, so a state is the pair of '
             'ring/list lengths; from every state EVERY primitive is applied at EVERY position (add_next/prev at head and every node, del_node/next/prev, rot, set_node, mov_next/prev of the other ring + re-init, '
             'swap_node of every non-adjacent pair and of a node with itself within and across rings, swap_/set_/del_/add_ of every section pair) and the forward walk, the backward walk and link symmetry are compared '
             'with an abstract sequence of node identities. Queue: a state is (element size, value sequence, pool cursor, pool capacity); every push/pull/insert/remove index class (0..num, SIZE_MAX), push_sort, sort_fore/back, '
             'element swap of every non-adjacent pair, whole-queue swap with an empty and a non-empty queue, drop, setz up and down, at() for every index -num-1..num, fore/back, all four loop macros; contents, addresses of '
             'enqueued elements, freshness of handed-out nodes, pool distinctness and the allocator ledger are checked after every call. Adjacent swaps are excluded by the statement itself.'),
    'assumptions': ['nodes of the intrusive lists are interchangeable (the primitives use addresses only for identity)', 'bounds per job: N nodes / elements; two rings, two singly linked lists, one queue plus a second one for whole-queue swap',
                    'mov_next/mov_prev are driven with a non-empty source ring followed by the documented re-initialisation of the emptied head'],
    'design_ref': '§4.C05', 'technique': 'explicit-state BFS to a fixpoint over the real list primitives and que.c against abstract sequences, canary allocator + ASan, API-replay conformance of every state',
    'level_text': 'Every list primitive at every position of rings with up to N nodes (7 quick, 9 thorough) and every queue operation with every index class from every reachable queue state (up to 6-11 elements quick, 8-18 thorough, crossing the 8->16 pool growth) is executed on the real code and compared with abstract sequences, including link symmetry, address stability and recycled-node freshness; fixpoint, so histories of any length.',
    'level_note': 'Trusted: gcc/clang+ASan, the allocator shim. Not covered: more than N nodes; adjacent swaps (excluded by the property).',
}


def str_job(mode, name, n, letters=4, san='', faults=0, deadline=100, uchar=False):
    args = ['--mode', mode, '--n', n, '--letters', letters, '--faults', faults, '--deadline', deadline]
    # uchar: plain char unsigned, as on the ARM / PowerPC / RISC-V ABIs
    return {'name': name, 'build_name': 'str%s%s' % ('-asan' if san else '', '-uchar' if uchar else ''), 'harness': ['harness/str.cpp'],
            'repo_srcs': ['src/str.c', 'src/utf.c', 'src/a.c'], 'san': san, 'args': args, 'defs': ['-funsigned-char'] if uchar else []}


def c06_jobs(tier):
    if tier == 'quick':
        return [str_job('rich', 'str-rich-n6-4letters', 6), str_job('rich', 'str-rich-n9-2letters', 9, 2), str_job('length', 'str-length-n40', 40),
                str_job('cmp', 'str-cmp-len4', 4), str_job('rich', 'str-rich-asan-n4', 4, san='asan'), str_job('rich', 'str-rich-asan-n9-2letters', 9, 2, san='asan'),
                str_job('length', 'str-length-asan-n40', 40, san='asan'),
                str_job('rich', 'str-rich-uchar-n6-4letters', 6, uchar=True), str_job('cmp', 'str-cmp-uchar-len4', 4, uchar=True)]
    D = 2400
    return [str_job('rich', 'str-rich-n8-4letters', 8, deadline=D), str_job('rich', 'str-rich-n10-3letters', 10, 3, deadline=D), str_job('rich', 'str-rich-n13-2letters', 13, 2, deadline=D),
            str_job('length', 'str-length-n72', 72, deadline=D), str_job('cmp', 'str-cmp-len5', 5, deadline=D),
            str_job('rich', 'str-rich-asan-n6', 6, san='asan', deadline=D), str_job('rich', 'str-rich-asan-n10-2letters', 10, 2, san='asan', deadline=D),
            str_job('length', 'str-length-asan-n72', 72, san='asan', deadline=D),
            str_job('rich', 'str-rich-uchar-n8-4letters', 8, uchar=True, deadline=D), str_job('cmp', 'str-cmp-uchar-len5', 5, uchar=True, deadline=D)]


CHECKS['C06'] = {
    'title': 'dynamic string equals an abstract byte string and stays NUL-terminated', 'level': 'model_checking', 'jobs': c06_jobs,
    'rule': ('explicit-state BFS to a fixpoint over the real src/str.c: a state is (capacity, terminated?, content bytes). Two explorations: content-rich (bytes from {a, space, NUL, 0xE9}, '
             'length <= N) with catc/catc_ of every letter, catn/catn_/cats/cats_/cat/cat_ of every block of length 0..2, getc/getc_, getn/getn_ for k in {0,1,2,num,num+1} with and without buffer, '
             'rtrim/ltrim/trim and raw forms with four trim sets (isspace default, "a", " \\0", "\\xE9a"), setn for every k in 0..mem+1, setn_, setm, exit (ownership hand-over), swap, a_utf_catc at every '
             'UTF-8 length boundary, a_utf_len, catf with six formats; and length-focused (single letter, length <= N) with appends of every length 0..17 and catf("%s") of every argument length 0..17 so that the '
             'formatted text under-fills, exactly fills and over-fills the spare room at every fill level (one-pass and two-pass vsnprintf paths). Content, length<=capacity, NUL placement of the terminating '
             'variants, return values and the allocator ledger are checked after every call; comparison functions are checked on all ordered pairs of strings of length <= 4 (5 thorough); a sweep over all 256 byte values takes each through the one-byte and the block appends / pops of both variants, "%s" formatting, one-byte trim sets, white-space trimming and comparison; comparison of operands whose lengths differ by 2^31-1 .. 2^33 (the long one an untouched 8 GiB anonymous mapping starting with the short one); the NUL after the content survives setm / setm_. '
             'Operations whose result leaves the alphabet (code points, formatted numbers) are executed and checked from every state but their successors are not expanded.'),
    'assumptions': ['host vsnprintf is the definition of what the C formatter produces', 'the raw setters a_str_setn_/a_str_setm_ are driven within their documented preconditions (k <= capacity); a_str_setm_ below the length is a capacity operation the statement does not list',
                    'isspace is evaluated in the "C" locale'],
    'design_ref': '§4.C06', 'technique': 'explicit-state BFS to a fixpoint over the real str.c against an abstract byte string, canary allocator + ASan for the +1/+2 terminator reservations, API-replay conformance of every state',
    'level_text': 'Every string operation is executed from every reachable (capacity, content) state up to the length bound (6-9 bytes content-rich and 40 bytes length-focused in quick; 8-13 and 72 in thorough), across every 8-byte reallocation boundary, and compared with an abstract byte string including terminator placement and formatted-append return values; all pairs of short strings for the comparison functions.',
    'level_note': 'Trusted: gcc/clang+ASan, the allocator shim, host libc formatter. Not covered: content longer than the bound; formats other than the six listed.',
}


def c07_jobs(tier):
    D = 100 if tier == 'quick' else 2400
    q = tier == 'quick'
    return [seq_job('vec', 'oom-vec-siz1-3', 4 if q else 6, 1, 3, faults=1, deadline=D),
            seq_job('vec', 'oom-vec-siz12', 3 if q else 5, 12, faults=1, deadline=D),
            seq_job('vec', 'oom-vec-siz1-12', 3 if q else 4, 1, 12, faults=1, deadline=D),
            seq_job('vec', 'oom-vec-growth-8-16', 9 if q else 10, 2, keys=1 if q else 2, memcap=16, faults=1, deadline=D),
            seq_job('buf', 'oom-buf-siz1-3', 3 if q else 5, 1, 3, mem0=3 if q else 5, memcap=5 if q else 7, faults=1, deadline=D),
            lists_job('que', 'oom-que-siz4-9', 4 if q else 6, 4, 9, 2, faults=1, deadline=D),
            lists_job('que', 'oom-que-pool-growth', 18, 3, 7, 1, faults=1, deadline=D),
            str_job('rich', 'oom-str-rich', 4 if q else 6, 4, faults=1, deadline=D),
            str_job('length', 'oom-str-length', 40 if q else 72, faults=1, deadline=D),
            seq_job('vec', 'oom-vec-asan', 3 if q else 4, 3, 1, san='asan', faults=1, deadline=D),
            lists_job('que', 'oom-que-asan', 4 if q else 5, 4, 9, 2, san='asan', faults=1, deadline=D),
            str_job('rich', 'oom-str-asan', 3 if q else 5, 4, san='asan', faults=1, deadline=D)] + \
        grid_jobs('oom-default-allocator', 'harness/alloc.cpp', ['src/a.c', 'src/vec.c', 'src/str.c', 'src/utf.c', 'src/que.c', 'src/buf.c'], 'quick', 1)


CHECKS['C07'] = {
    'title': 'allocation failure never corrupts a container or leaks memory', 'level': 'fault_enumeration', 'jobs': c07_jobs, 'engine': 'xs',
    'rule': ('allocator fault enumeration layered on the explicit-state explorations of vector, buffer, queue and string: for EVERY reachable state, EVERY operation of the menu that allocates, '
             'EVERY allocation request index k made by the library during that operation, and both fault modes (request k only; request k and all later ones) the real operation is executed with the fault injected through the public a_alloc seam. The library\'s DEFAULT allocator (a_alloc_), which that seam bypasses, is driven separately with malloc/realloc/free interposed (harness/alloc.cpp): its contract and vector/string/queue/buffer histories with each C-library request in turn failing. '
             'Required: failure reported through the return value (null / A_OMEMORY / ~0 / 0 for catf), container still holds exactly its previous contents and all invariants, the same operation retried with a healthy allocator succeeds and reaches '
             'the fault-free successor, and after destroying the container the ledger is empty with no double free. Because a failed operation must be a self-loop on the state, the single-step check from every reachable state covers histories with any number of faults at any positions. '
             'evaluations = transitions executed (fault-free + faulted); distinct_nontrivial = distinct reachable container states from which faults were injected; fault_runs = faulted executions.'),
    'assumptions': ['a_alloc is the only way the library obtains memory (grep confirms: no direct malloc in src/{vec,buf,que,str}.c)', 'a grow request that succeeds always moves the block (shim policy) so stale pointers are visible',
                    'for a_str_catv the bytes after the content are not required to be preserved by a failed call (the first formatting pass legitimately writes into spare room)'],
    'design_ref': '§4.C07', 'technique': 'exhaustive allocator-fault enumeration (every request position x single/from-here-on) from every reachable state of bounded explicit-state explorations of the real containers',
    'level_text': 'Every allocation request of every allocating operation, from every reachable state of the bounded explorations of vector, buffer, queue and string, is made to fail (singly and from that point on); the failed operation must report failure, be a self-loop on the abstract state, be retryable, and leave an empty ledger after destruction. Inductive over histories: any number of faults at any positions.',
    'level_note': 'Trusted: the allocator shim and its ledger. Not covered: states beyond the size bounds of the underlying explorations.',
}


def grid_jobs(prefix, harness, repo_srcs, tier, nshards=16, defs=None, libs=None, extra=None, san='', build=None, deadline=None, opt=None):
    jobs = []
    for i in range(nshards):
        j = {'name': '%s-%s%d' % (prefix, 's' if nshards > 1 else '', i) if nshards > 1 else prefix, 'build_name': build or prefix, 'harness': [harness], 'repo_srcs': repo_srcs,
             'defs': defs or [], 'san': san, 'args': ['--tier', tier, '--shard', i, '--nshards', nshards] + (extra or []) + (['--deadline', deadline] if deadline else [])}
        if libs:
            j['libs'] = libs
        if opt:
            j['opt'] = opt
        jobs.append(j)
    return jobs


def cxx_jobs(module, src):
    """C++ member wrappers of the anchored headers next to the C functions they name (harness/cxx.cpp), both real widths."""
    # one harness covers every module, so every job links the union of the sources (src is ignored)
    src = ['src/pid.c', 'src/pid_neuro.c', 'src/pid_fuzzy.c', 'src/mf.c', 'src/fuzzy.c', 'src/tf.c', 'src/trajpoly3.c', 'src/trajpoly5.c', 'src/trajpoly7.c', 'src/poly.c',
           'src/trajtrap.c', 'src/trajbell.c', 'src/math.c', 'src/a.c']
    jobs = grid_jobs('cxx-%s-f64' % module, 'harness/cxx.cpp', src, 'quick', 1, extra=['--module', module], build='cxx-f64')
    jobs += grid_jobs('cxx-%s-f32' % module, 'harness/cxx.cpp', src, 'quick', 1, extra=['--module', module], build='cxx-f32', defs=['-DA_SIZE_REAL=4'])
    return jobs


def c19_jobs(tier):
    src = ['src/math.c', 'src/a.c']
    jobs = grid_jobs('bits', 'harness/bits.cpp', src, tier, 16)
    # accessors and reversal in the two other configurations: out-of-line symbols of src/a.c (-DA_HAVE_INLINE=0, callers see only the
    # declarations with their attributes) and UBSan/ASan (typed or misaligned accesses at odd offsets are reported)
    jobs += grid_jobs('bits-outofline', 'harness/bits.cpp', src, 'quick', 1, defs=['-DA_HAVE_INLINE=0'], extra=['--light', 1])
    jobs += grid_jobs('bits-asan', 'harness/bits.cpp', src, 'quick', 1, san='asan', extra=['--light', 1])
    # src/math.c as a compiler without count-leading-zeros builtins compiles it: the digit-by-digit square-root bodies (harness/math_nobsr.c
    # includes the file with the feature tests switched off); the complete sweeps again
    nob = grid_jobs('bits-nobsr', 'harness/bits.cpp', ['src/a.c'], tier, 16, extra=['--mathonly', 1])
    for j in nob:
        j['harness'] = ['harness/bits.cpp', 'harness/math_nobsr.c']
        j['repo_included'] = ['src/math.c']
    jobs += nob
    # the integer routines must not depend on the width of a_real: the same sweeps over src/math.c built with single-precision reals
    jobs += grid_jobs('bits-f32', 'harness/bits.cpp', src, tier, 16, defs=['-DA_SIZE_REAL=4'], extra=['--mathonly', 1])
    # the same sources with the header's inline bodies selected, and one sanitizer shard on a reduced sweep is not needed: the sweeps are pure integer code
    if tier == 'thorough':
        jobs += grid_jobs('bits-inline', 'harness/bits.cpp', src, tier, 16, defs=['-DA_HAVE_INLINE=1'])
    return jobs


CHECKS['C19'] = {
    'title': 'integer square root, gcd/lcm, bit reversal, byte order', 'level': 'exploration', 'engine': 'grid', 'jobs': c19_jobs,
    'rule': ('complete enumeration, sharded over 16 processes, executed against the real functions compiled from /repo (through the out-of-line symbols of src/a.c; thorough additionally with the header inline bodies): '
             'a_u32_sqrt on ALL 2^32 inputs (r^2 <= x < (r+1)^2 in 64-bit arithmetic); a_u64_sqrt on k^2-1, k^2, k^2+1, k^2+k for every k below 2^24 (quick; every k below 2^32 in thorough) plus the top 2^22 k, every m*2^e (m<2^16, e<=48) and 2^64-1-j; '
             'gcd/lcm of both widths on all pairs below 2048 (4096 thorough) against Stein\'s binary gcd, brute-force common divisors below 256, and all pairs of a special set (0, 1, m*2^e, 2^k+-1, primes near 2^16/2^32/2^64, max, operands whose Euclid remainders exceed 2^32, every Fibonacci, Lucas and Pell number: the longest remainder chains, in both argument orders); '
             'bit reversal on all u8, all u16, ALL 2^32 u32 and a u64 lattice (<=2 bits set, complements, m*2^e) against a table reference, with involution; little/big-endian set/get on all u16 x 8 offsets, ALL 2^32 u32 and a u64 lattice x 8 unaligned offsets: '
             'byte layout equals explicit shifts, get(set(x)) == x, cross-order load equals the byte-swapped value, neighbouring bytes untouched. distinct_nontrivial counts inputs other than the trivial ones (0, 1, all-ones, equal operands); all enumerated inputs are distinct by construction.'),
    'assumptions': ['host is x86-64 little-endian; order independence is checked as "layout equals explicit shifts", which does not depend on host order by construction',
                    'only the Newton (bit-scan) variant of the square roots is compiled on this host; the digit-by-digit fallback is not reachable with gcc/clang',
                    '64-bit domains are covered on the stated lattices, not completely'],
    'design_ref': '§4.C19', 'technique': 'complete enumeration of the 32-bit input domains (2^32 inputs per function) and stated 64-bit lattices against exact integer references',
    'level_text': 'The 32-bit square root, 32-bit bit reversal and 32-bit byte-order accessors are decided completely (all 2^32 inputs); the 64-bit functions and gcd/lcm are checked on lattices containing every place where the result can change (perfect squares +-1, k^2+k, powers of two +-1, operands forcing wide remainders, every byte value in every byte position).',
    'level_note': 'Trusted: __int128 arithmetic of the compiler. Not covered: 64-bit inputs off the lattices; hosts with other byte order.',
}


def c17_jobs(tier):
    src = ['src/crc.c', 'src/hash.c', 'src/a.c']
    jobs = grid_jobs('crc', 'harness/crc.cpp', src, tier, 16)
    jobs += grid_jobs('crc-asan', 'harness/crc.cpp', src, 'quick', 4, san='asan')
    jobs += grid_jobs('crc-uchar', 'harness/crc.cpp', src, 'quick', 4, defs=['-funsigned-char'])  # plain char unsigned (ARM / PowerPC / RISC-V ABIs)
    # the same sources as a distribution building for x86-64-v2 compiles them (SSE4.2 / POPCNT available: code under __SSE4_2__ and the
    # like is compiled in); only where this machine can execute that code
    if _cpu_has('sse4_2', 'popcnt', 'ssse3', 'cx16'):
        jobs += grid_jobs('crc-x86-64-v2', 'harness/crc.cpp', src, 'quick', 4, defs=['-march=x86-64-v2'])
    return jobs


def _cpu_has(*flags):
    try:
        for line in open('/proc/cpuinfo'):
            if line.startswith('flags'):
                have = set(line.split(':', 1)[1].split())
                return all(f in have for f in flags)
    except OSError:
        pass
    return False


CHECKS['C17'] = {
    'title': 'CRC and hash routines equal their definitions and compose', 'level': 'exploration', 'engine': 'grid', 'jobs': c17_jobs,
    'rule': ('bounded-exhaustive enumeration against an independent bit-at-a-time polynomial division in both bit orders: for every 8-bit polynomial (256) and for 16/32/64-bit polynomial sets (published ones, single-bit, all-ones, 0, alternating, repeated-byte) '
             'x both bit orders: all 256 table entries; the single update step for every (running value, byte) pair (all 2^16 pairs for CRC-8, all 2^24 for CRC-16 on the main polynomials, GF(2)-basis/complement/m*2^e running values for wider CRCs); '
             'every message of length <=2 over all 256 byte values and of length <=5 (6 thorough) over {00,01,30,7F,80,FF} with 3 initial values (0, all-ones, 0x5A..), each with EVERY split point including the empty pieces; the reflection relation between the two bit orders; one table object per width taken through a 9-step history (bit order switched with the same generator, storage wiped between two identical builds, generator changed and back) with all 256 entries checked after each step; '
             'hash and CRC functions called again with the same pointers after the message and the table were edited in place (straight-line code at -O2). '
             'Hashes: definition val*M+byte, string form vs length-delimited form (strings placed directly before an inaccessible page), null pointer, every split point, on the same message sets with 4 seeds; one chunk of 2^32+5 bytes (untouched address space, four bytes set) against the closed form. The sources are also built with -march=x86-64-v2 where the machine executes it (code under __SSE4_2__ compiled in). distinct_nontrivial counts evaluations on non-empty messages / non-zero entries.'),
    'assumptions': ['polynomials for widths above 8 bits are a stated set, not all 2^N', 'messages longer than 6 bytes are covered only through the composition law (a long message is a concatenation of short pieces)'],
    'design_ref': '§4.C17', 'technique': 'bounded-exhaustive enumeration of polynomials x running values x bytes x short messages x split points against bit-by-bit polynomial division',
    'level_text': 'CRC-8 is decided for every polynomial, running value and byte; wider CRCs for the stated polynomial sets; all short messages with every split point and the reflection law tie the table-driven routines to the bitwise definition; the hashes are checked against their folding definition with string/length agreement.',
    'level_note': 'Trusted: the 15-line bitwise reference. Not covered: polynomials outside the stated sets for widths > 8.',
}


def c18_jobs(tier):
    src = ['src/utf.c', 'src/a.c']
    jobs = grid_jobs('utf', 'harness/utf.cpp', src, tier, 16)
    jobs += grid_jobs('utf-asan', 'harness/utf.cpp', src, 'quick', 8, san='asan')
    # the string-level users of the codec (a_utf_catc, a_utf_len in src/str.c, an anchored file): the content-rich string exploration of C06
    jobs += [str_job('rich', 'str-utf-rich-n6-4letters', 6), str_job('rich', 'str-utf-rich-asan-n4', 4, san='asan')]
    # plain char is unsigned on ARM / PowerPC / RISC-V ABIs: the same enumeration with -funsigned-char
    jobs += grid_jobs('utf-uchar', 'harness/utf.cpp', src, 'quick', 8, defs=['-funsigned-char'])
    return jobs


CHECKS['C18'] = {
    'title': 'UTF-8 codec round-trips every code point and never reads past the buffer', 'level': 'exploration', 'engine': 'grid', 'jobs': c18_jobs,
    'rule': ('complete enumeration against an independent table-driven reference codec. Part A, per code point (thorough: ALL 2^31-1; quick: all below 0x110000, +-256 around every length boundary, every m*2^e and m*2^e-1): '
             'encode length equals the UTF-8 table, bytes equal the reference, null buffer gives the same length, bit 31 is ignored, nothing is written outside the reported bytes; decoding the produced bytes returns the same length and code point; '
             'decoding EVERY proper prefix (stated length 0..len-1) reports failure; with and without an output pointer. Part B, arbitrary bytes: EVERY string of length <=3 over all 256 byte values (2^24) and every string of length 4..5 (7 thorough) over 18 lead/continuation '
             'class representatives, each with EVERY stated length 0..len, the buffer placed so that the byte at the stated length is the first byte of a PROT_NONE page: result <= stated length; a result > 1 requires a lead byte announcing that length and only continuation bytes after it and the payload value; 0xFE/0xFF never accepted; '
             'a_utf_length equals stepping the decoder (count and consumed bytes); a_utf_length_ must not fault. distinct_nontrivial counts multi-byte code points and strings starting with a byte >= 0x80.'),
    'assumptions': ['over-long forms, surrogates and a stray continuation byte taken as a one-byte unit are neither required to be rejected nor to be accepted (the statement does not say)',
                    'a read beyond the stated length is observed as a fault on the guard page (and by ASan in the asan jobs)'],
    'design_ref': '§4.C18', 'technique': 'complete enumeration of the code-point domain (2^31-1 in thorough) and of all byte strings up to length 3 (class representatives beyond) with guard-page placement',
    'level_text': 'The round-trip clause is decided completely in the thorough tier (every code point, every prefix); the arbitrary-input clauses are decided for all byte strings of length <= 3 and for class-representative strings up to 7 bytes with every stated length, reads past the stated length being hardware-detected.',
    'level_note': 'Trusted: the reference codec (30 lines), mprotect. Not covered: arbitrary byte strings longer than 3 beyond the 18-class abstraction.',
}


def c09_jobs(tier):
    src = ['src/linalg.c']
    jobs = grid_jobs('matk-f64', 'harness/matk.cpp', src, tier, 4)
    jobs += grid_jobs('matk-f32', 'harness/matk.cpp', src, tier, 4, defs=['-DA_SIZE_REAL=4'])
    jobs += grid_jobs('matk-f64-asan', 'harness/matk.cpp', src, tier, 4, san='asan')
    jobs += grid_jobs('matk-f32-asan', 'harness/matk.cpp', src, tier, 2, defs=['-DA_SIZE_REAL=4'], san='asan')
    # long double reals, with operands that need more than double precision (a detour through a narrower type is visible only here)
    jobs += grid_jobs('matk-ld', 'harness/matk.cpp', src, tier, 2, defs=['-DA_SIZE_REAL=16'])
    return jobs


CHECKS['C09'] = {
    'title': 'matrix product, transpose and structure kernels match their definitions', 'level': 'exploration', 'engine': 'grid', 'jobs': c09_jobs,
    'rule': ('complete enumeration of shapes against integer references computed from the definitions: the four product variants (mulmm, mulTm, mulmT, mulTT, with the argument order documented in linalg.h) on EVERY (row, inner, col) in 1..20^3 (1..48^3 thorough; blocked implementations meet each of their remainders and panel boundaries at 8, 16, 32), each shape also with BOTH OPERANDS BEING THE SAME ARRAY, '
             'with index-coded operands (X[i][j] = 1+64i+j, Y = distinct primes; all products exact in float and double, a wrong index anywhere changes the result) plus ALL pairs of single-entry 0/1 operands for dimensions <= 3 (bilinearity pins every coefficient); '
             'T1, T2, eye1/2, tri1/2, diag, diag1/2, triL, triL1, triL2, triU, triU1, triU2 on EVERY (m, n) in 1..20^2 (1..64^2 thorough): wide, square and tall, with three operand patterns (index-coded; signed zeros; negative and infinite off-diagonal entries) compared BIT FOR BIT; T2 twice and T1 twice restore the input; diag1 / diag2 additionally on 65537^2, 70001^2, 65540x65537 and 3x(2^31+5) matrices (element indices beyond 32 bits) held in untouched anonymous address space with only the diagonal written. Every output lives between 24 pairwise distinct guard cells on each side and is pre-filled with stale non-zero data; inputs must be unchanged. '
             'Every argument of every call is wrapped in an evaluation counter (one evaluation per parameter). Both real widths plain and under ASan, plus long double reals with operands that need more than 53 bits. distinct_nontrivial counts non-square shapes.'),
    'assumptions': ['matrix contents beyond the index-coded and single-entry families are covered by bilinearity of the product and by the kernels being data-independent (they contain no branch on element values)'],
    'design_ref': '§4.C09', 'technique': 'complete enumeration of all small shapes (square and rectangular) with index-coded and single-entry operands against integer references, guard cells + ASan',
    'level_text': 'Every kernel is executed on every shape up to 20x20x20 / 20x20 (48x48x48 / 64x64 thorough) including inner dimension one and both rectangular orientations; since the kernels do not branch on data, index-coded and unit operands determine every coefficient; writes outside the result array are caught by guard cells and ASan.',
    'level_note': 'Trusted: exact small-integer arithmetic in float/double. Not covered: dimensions above the bound.',
}


def c15_jobs(tier):
    src = ['src/trajpoly3.c', 'src/trajpoly5.c', 'src/trajpoly7.c', 'src/poly.c', 'src/math.c', 'src/a.c']
    libs = ['-lquadmath', '-lm']
    jobs = grid_jobs('tpoly-f64', 'harness/tpoly.cpp', src, tier, 16, libs=libs)
    jobs += grid_jobs('tpoly-f32', 'harness/tpoly.cpp', src, tier, 8, defs=['-DA_SIZE_REAL=4'], libs=libs)
    jobs += grid_jobs('tpoly-f64-inline', 'harness/tpoly.cpp', src, 'quick', 4, defs=['-DA_HAVE_INLINE=1'], libs=libs)
    # long double reals: a constant or an intermediate kept in double precision shows only here
    jobs += grid_jobs('tpoly-ld', 'harness/tpoly.cpp', src, 'quick', 8, defs=['-DA_SIZE_REAL=16'], libs=libs)
    jobs += cxx_jobs('poly', src)
    return jobs


CHECKS['C15'] = {
    'title': 'polynomial trajectories meet all boundary conditions with consistent derivatives', 'level': 'exploration', 'engine': 'grid', 'jobs': c15_jobs,
    'rule': ('bounded-exhaustive enumeration of generator requests against an INDEPENDENT reference: the 4/6/8 linear boundary conditions are solved for the normalised polynomial by Gaussian elimination in __float128 (never the library\'s closed forms). '
             'Requests: every boundary tuple over {-2,0,1,3} (4^4 cubic, 4^6 quintic, septic 3^8 over {-2,0,3} in quick and 4^8 in thorough) plus every unit boundary vector (one non-zero datum, scaled by 1,-1,3,2^20,2^-20: isolates each numeric constant of the closed forms) '
             'x 30 durations (2^-12..2^12, 3, 10, 0.1, 1e-3, 1e3; float: 2^-6..2^6). Per request: position/velocity/acceleration at time zero equal the request exactly (jerk within 4 ulp); every coefficient equals the reference within 2048 eps of the data scale (worst observed 211); '
             'final position/velocity/acceleration/jerk at the end time within a per-degree, per-derivative multiple of eps x data scale / ts^d that is 16x the worst value observed on the unchanged tree (e.g. septic: 2048/16384/81920/400000 against observed 123/1002/4727/20808; the closed forms cancel terms with constants up to 420); vel/acc/jer outputs at ts and ts/2 equal Horner of the derivative polynomials of the stored coefficients within 32 eps (worst 0.9); c1/c2/c3 accessors are the term-by-term derivatives. '
             'Polynomials: EVERY coefficient vector of length 0..7 (8 thorough) over {-2,0,1,3} x 8 abscissae: eval/eval_ and evar/evar_ equal the exact Horner value (exact on this dyadic domain), swap is the reversal and an involution, empty and one-coefficient vectors included; lengths up to 24 (40 thorough) with every vector of one or two non-zero coefficients from {1,-2,3}, the all-ones and the alternating vector. distinct_nontrivial = requests with non-zero derivative data / vectors longer than one.'),
    'assumptions': ['libquadmath arithmetic is the reference; tolerances are 10x above the worst error observed on the unchanged tree and 10 orders of magnitude below the error a wrong constant produces', 'boundary values outside {-2,0,1,3} and the scaled unit vectors are not enumerated (the generators are linear in the boundary data, so unit vectors determine them)'],
    'design_ref': '§4.C15', 'technique': 'bounded-exhaustive enumeration of boundary data x durations against a quad-precision solution of the boundary-value system; exact Horner on a dyadic lattice',
    'level_text': 'The generators are linear in the boundary data, so the complete set of unit boundary vectors together with all tuples over a 4-value set determines every coefficient formula for each of 30 durations spanning 7 orders of magnitude; every request is compared with an independently solved boundary-value problem, and the evaluators with exact Horner values on all short coefficient vectors.',
    'level_note': 'Trusted: libquadmath, Gaussian elimination on 8x8 systems in 113-bit arithmetic. Not covered: durations outside the 30 listed, non-lattice query times other than 0, ts/2, ts.',
}


def c12_jobs(tier):
    src = ['src/pid.c', 'src/pid_neuro.c', 'src/pid_fuzzy.c', 'src/mf.c', 'src/fuzzy.c', 'src/math.c', 'src/a.c']
    jobs = []
    D = 100 if tier == 'quick' else 2400
    for mode, n in (('plain', 4), ('pair', 2), ('neuro', 4), ('fuzzy', 12)):
        jobs += grid_jobs('pid-%s' % mode, 'harness/pid.cpp', src, tier, n if tier == 'quick' else 16, extra=['--mode', mode], build='pid', deadline=D)
    for mode in ('plain', 'neuro', 'fuzzy'):
        jobs += grid_jobs('pid-%s-asan' % mode, 'harness/pid.cpp', src, 'quick', 4, extra=['--mode', mode], build='pid-asan', san='asan', deadline=D)
    # float reals: the same explorations (all quantities stay dyadic, so the plain controller is still exact); layout assumptions that only
    # hold for sizeof(a_real) == 8 show here
    for mode, n in (('plain', 2), ('neuro', 2), ('fuzzy', 8)):
        jobs += grid_jobs('pid-%s-f32' % mode, 'harness/pid.cpp', src, 'quick', n, extra=['--mode', mode], build='pid-f32', defs=['-DA_SIZE_REAL=4'], deadline=D)
    jobs += cxx_jobs('pid', src)
    return jobs


CHECKS['C12'] = {
    'title': 'PID controllers stay within limits and follow their equations for every history', 'level': 'model_checking', 'jobs': c12_jobs,
    'rule': ('explicit-state BFS over the real controllers; the controller struct is the state. Plain PID (src/pid.c): for each parameter set (quick: 12 sets with one per limit relation - wide, integrator clamp at zero on either side, degenerate clamps, pinned output; '
             'thorough: the full product kp,kd in {0,1/2,2} x ki in {0,1/2,1} x 4 integrator-limit pairs x 4 output-limit pairs = 432 sets) from EVERY reachable state EVERY step (mode in {run,pos,inc}) x (set-point, feedback) in {-2,0,1}^2 (thorough {-3,-1,0,2}^2) and zero is executed; '
             'all quantities are dyadic so the arithmetic is exact and the BFS reaches a FIXPOINT (histories of any length). Oracle after every step: output within limits, state finite, integrator never moves further beyond its clamp, inside the clamp it advances by exactly ki*err, beyond the clamp it holds unless the error points inward, exactly on a non-zero clamp it integrates when the error points inward (the documented switch of pid.h), '
             'positional and incremental outputs equal the difference equations exactly, zero restores the initial state. A shadow pair (positional + incremental controller fed the same inputs) must coincide for as long as no limit has been active. '
             'Single-neuron controller: depth-bounded BFS (4 steps quick, 5 thorough) from 4 weight vectors incl. all-zero x 2 output gains; fuzzy controller: depth-bounded BFS (3 / 4 steps) over 9 rule bases (two huge ramps whose rules fire with total strength around 1e-16, 3x3 shoulder triangles with all three tables and with each of the kp, ki, kd tables absent, an unsorted 3x3 table, 5x5 trapezoid shoulders, 3 wide triangles with 3 simultaneously active sets, the 7x7 base of test/pid_fuzzy.h) x ALL SEVEN operators x parameter sets, scratch buffer of exactly A_PID_FUZZY_BFUZZ(active) bytes between canaries: '
             'output within limits, every field and scheduled gain finite, gains within base + [min,max] of the consequents, step equations with the gains scheduled for that step; the rule base replaced in mid-history (every ordered pair of the 3x3 family with all tables / one table absent, every first and second step): the step after a_pid_fuzzy_set_rule is checked like any step of the new base. distinct_nontrivial = distinct reachable controller states.'),
    'assumptions': ['dyadic gains/limits/inputs: every floating-point operation of the plain controller is exact, so == comparisons are sound; the fuzzy step is compared within 16 ulp of the term magnitude because scheduled gains are weighted means',
                    'exactly on a clamp (sum == summax or sum == summin) either holding or integrating is accepted: code comment and header formula differ there', 'the neuron controller is checked for limits, finiteness, cache updates and zeroing, not against the header formula (the statement names the equations of the positional and incremental forms)',
                    'magnitudes small enough that nothing overflows (quantifier of the property)'],
    'design_ref': '§4.C12', 'technique': 'explicit-state BFS over the real controller step functions (fixpoint for the plain PID, depth-bounded for neuron and fuzzy) with an exact reference of the difference equations',
    'level_text': 'For the plain controller the reachable state space under dyadic inputs is finite and explored to a fixpoint for every parameter set, so the limit, anti-windup and equation clauses hold for input histories of unbounded length over the alphabet; the neuron and fuzzy controllers are explored exhaustively to depth 4/3 (5/4 thorough) over all operators and four rule bases.',
    'level_note': 'Trusted: IEEE double arithmetic being exact on dyadic values. Not covered: non-dyadic gains, inputs outside the alphabets, depths beyond the bound for neuron/fuzzy.',
}


def c13_jobs(tier):
    src = ['src/mf.c', 'src/fuzzy.c', 'src/pid_fuzzy.c', 'src/pid.c', 'src/math.c', 'src/a.c']
    jobs = grid_jobs('mfz-f64', 'harness/mfz.cpp', src, tier, 8)
    jobs += grid_jobs('mfz-f32', 'harness/mfz.cpp', src, tier, 4, defs=['-DA_SIZE_REAL=4'])
    jobs += grid_jobs('mfz-f64-asan', 'harness/mfz.cpp', src, 'quick', 4, san='asan')
    # long double reals: sizeof(a_real) is no longer 2*sizeof(unsigned int), which the layout of the scratch buffer must not assume
    jobs += grid_jobs('mfz-ld', 'harness/mfz.cpp', src, 'quick', 2, defs=['-DA_SIZE_REAL=16'])
    return jobs


CHECKS['C13'] = {
    'title': 'membership functions, fuzzy operators and gain scheduling stay within range', 'level': 'exploration', 'engine': 'grid', 'jobs': c13_jobs,
    'rule': ('bounded-exhaustive enumeration against an independent long-double reference of the documented shapes. Membership functions: all 13 kinds; EVERY parameter tuple a<=b<=c<=d from {-2,-1,-1/2,0,1,1.5,3} INCLUDING ties for tri/trap/lins/linz, non-zero widths for the smooth kinds (3 widths x 7 centres, bell exponents 1..3, slopes +-1,+-4), equal slopes and ordered centres for dsig; '
             'x = every break point, one ulp on either side, quarter points between break points, +-7.5, +-1e3. Per evaluation: value in [0,1] and not NaN, equal to the documented piecewise shape (4 ulp piecewise, 64 ulp transcendental; the reference is continuous, so the +-1 ulp points check continuity), exactly 1 on the core (incl. a peak that coincides with a foot), flank monotonicity between neighbouring lattice points, dispatcher == specific function (also for the terminator and out-of-range kinds), s+z == 1 and lins+linz == 1. '
             'Operators: all pairs from {0,1/16,...,1}^2 for the seven operators: range, commutativity, monotone in each argument, cap <= min, cup >= max, the compensatory operator between algebraic product and algebraic sum, boundary cases at 0 and 1, definition, not involutive, selector. '
             'Gain scheduling: 9 rule bases (two huge ramps whose rules fire with total strength around 1e-16; each of the kp, ki, kd tables absent in one of them; one table not sorted by position, so that active sets are not neighbours in table order) (incl. the degenerate shoulder triangles of test/pid_fuzzy.h, 3 simultaneously active sets, gaussian/bell sets) x 7 operators x a 41x41 (81x81 thorough) (e, ec) lattice spanning beyond the universe: corrections equal the weighted mean of the active consequents, lie between their min and max, stay finite when the total firing strength is zero, equal the base gains when no rule is active; scratch buffer of exactly A_PID_FUZZY_BFUZZ(active) bytes between canaries. Real types double, float and long double (-DA_SIZE_REAL=16: sizeof(a_real) != 2*sizeof(unsigned), which the buffer layout must not assume).'),
    'assumptions': ['a set is active when its degree exceeds the real type epsilon (the controller\'s own threshold)', 'the compensatory operator a_fuzzy_equ is neither an intersection nor a union; it is bounded by the algebraic product and sum, not by min/max'],
    'design_ref': '§4.C13', 'technique': 'bounded-exhaustive enumeration of parameter tuples (ties included) x abscissa lattices, operator pair grids and (e, ec) lattices against an independent reference',
    'level_text': 'Every branch constant of the 13 membership functions becomes lattice points at, just below and just above it, for every ordered parameter tuple including all ties; the operators are decided on a 17x17 grid; the scheduled gains are compared with an independent mean-of-centres reference on a dense (e, ec) lattice for every operator and six rule bases.',
    'level_note': 'Trusted: long double libm for the reference shapes. Not covered: parameter values and membership tables outside the enumerated families.',
}


def c16_jobs(tier):
    src = ['src/tf.c', 'src/math.c', 'src/a.c']
    jobs = grid_jobs('filt-f64', 'harness/filt.cpp', src, tier, 16)
    jobs += grid_jobs('filt-f32', 'harness/filt.cpp', src, 'quick', 8, defs=['-DA_SIZE_REAL=4'])
    jobs += grid_jobs('filt-f64-asan', 'harness/filt.cpp', src, 'quick', 8, san='asan')
    jobs += grid_jobs('filt-ld', 'harness/filt.cpp', src, 'quick', 4, defs=['-DA_SIZE_REAL=16'])  # long double reals: samples beyond double precision
    jobs += cxx_jobs('filt', src)
    return jobs


CHECKS['C16'] = {
    'title': 'transfer function and RC filters realise their difference equations exactly', 'level': 'model_checking', 'engine': 'grid', 'jobs': c16_jobs,
    'rule': ('exhaustive enumeration of operation sequences on the real filters against a reference evaluated on the whole recorded history (time-indexed sums, no delay line): transfer function - EVERY numerator and denominator order 0..3 (and, with tap-identifying coefficient vectors and impulse/ramp/sign-pattern words, every order pair up to 11/11 quick, 20/20 thorough), EVERY coefficient vector over {-1,0,1,2} (denominator {-1,0,1} in quick; 3400 filters quick, 7225 thorough), '
             'EVERY input word of length 5 (7 thorough) over {-1,0,1,2}, with a zeroing inserted after 1, 3, .. samples (the suffix must then behave as on a fresh filter); integers, so all comparisons are exact; guard cells around both delay lines, stale contents before init. Linearity (2x, x1+x2) and time invariance (leading zero sample) on ALL pairs of words of length 3 (4 thorough); samples scaled by +-2^e with e near both ends of the range of the real type (5 filters x 3 words): every output is the scaled output bit for bit; one side replaced on a live filter (a_tf_set_den / a_tf_set_num with no taps or two zero taps after 1, 2, 3, 5 samples): the other side keeps its history. '
             'RC filters: alpha in {0,1/8,1/4,1/2,3/4,1} x EVERY word of length 7 (9) over {-2,0,1,3}: low-pass output stays in the range of 0 and the values fed so far and equals the convex combination exactly, high-pass equals alpha*(y + x - x_prev); 400-step settling / decay on constant inputs; extreme-magnitude words (+-REAL_MAX, 1e16) for the range clause; generators on fc, ts in 10^-12..10^12 and on cut-off frequencies at both ends of the normal range of the real type with sample times that keep the product moderate (in [0,1], strictly inside for 1e-12 <= fc*ts <= 1e12, macros and C++ members agree, monotone). '
             'states = distinct delay-line contents reached, transitions = filter steps executed, traces_validated_against_impl = input words executed on the real code.'),
    'assumptions': ['integer / dyadic coefficients and inputs make every filter step exact, so outputs are compared with ==', 'unstable filters make the state space infinite, hence the depth bound; stable and nilpotent coefficient sets are included in the same enumeration'],
    'design_ref': '§4.C16', 'technique': 'exhaustive enumeration of all input words up to a depth (with zeroing at every other position) on the real filter against a history-indexed reference; all word pairs for linearity/time-invariance',
    'level_text': 'All input sequences up to length 5 (7 thorough) over a 4-letter alphabet, for every filter of order up to 3/3 over a small coefficient alphabet, are executed on the real code and compared exactly with the difference equation evaluated on the recorded history; linearity and time invariance are checked on all word pairs; the RC filters on all words of length 7 (9) for six exact coefficients.',
    'level_note': 'Trusted: exact small-integer arithmetic. Not covered: orders above 3 other than through the tap-identifying family, words longer than the depth bound, non-dyadic coefficients (except the settling and extreme-value families).',
}


def c14_jobs(tier):
    src = ['src/trajtrap.c', 'src/trajbell.c', 'src/math.c', 'src/a.c']
    jobs = grid_jobs('traj-f64', 'harness/traj.cpp', src, tier, 16)
    # float: always the quick lattice. The thorough lattice adds extreme limits (jm 100, travel 0.01) for which the float build of the
    # iterative no-cruise solver (absolute-epsilon bisection) is not accurate enough to state a tolerance; see DESIGN.md section 7
    jobs += grid_jobs('traj-f32', 'harness/traj.cpp', src, 'quick', 8, defs=['-DA_SIZE_REAL=4'])
    jobs += cxx_jobs('traj', src)
    return jobs


CHECKS['C14'] = {
    'title': 'velocity-profile trajectories respect kinematic limits and reach their end state', 'level': 'exploration', 'engine': 'grid', 'jobs': c14_jobs,
    'rule': ('bounded-exhaustive enumeration of generator requests; every plan the real generator reports with a positive duration is interrogated on a time lattice. Trapezoid: vm in {1/2,1,2,3} x |ac|,|de| in {1/2,1,2,3} with signs matching the direction of travel x 11 distances 1/8..9 x both directions x 2 start positions x 13^2 boundary velocities (0, +-1/4, +-1/2, +-1, +-2, +-vm, +-1.25 vm: inside, at and beyond the limit -> clamping); every request from position 0 also in units 4096 times smaller and larger (both generators). '
             'Bell (double-S): jm in {1,2,4,8,30} x am in {1/2,1,2,3,10} x vm in {1/2,1,2,3,5} x the same distances, directions, start positions and boundary velocities inside the limit, FILTERED by the textbook double-S feasibility condition (Biagiotti-Melchiorri 3.17-3.19) in the direction of travel; thorough adds non-dyadic and extreme values (trapezoid: 11 vm x 10 accelerations x 22 distances 0.01..100; bell: 12 jm x 10 am x 11 vm). Every request is also issued with the limit(s) given as negative numbers (a limit is a magnitude); contexts are pre-filled with stale plausible data. '
             'Per plan: phase durations non-negative, ordered and summing to the total (bell: 2*taj <= ta, 2*tdj <= td); start at the initial position with the clamped initial velocity; left limit at the end time reaches the final position and the recorded final velocity; queries at -1, -T, 0, T, T+1, 10T hold the boundary state; left/right limits of position and velocity (and acceleration for the bell profile) agree at every phase boundary read from the context; '
             'on a lattice of 33 (trapezoid) / 17 (bell) points per segment |vel| <= vm, bell |acc| <= am and |jer| <= jm, and vel/acc/jer equal central differences of pos/vel/acc. Tolerances are 100x the worst value observed on the unchanged tree (about 1200 eps of the motion scale for the iteratively solved no-cruise bell case). distinct_nontrivial = plans with positive duration.'),
    'assumptions': ['requests outside the lattice and query times between lattice points are not covered; within a segment velocity is at most quadratic and acceleration monotone, so extremes lie on segment boundaries, which are lattice points',
                    'the feasibility filter is the textbook condition; requests it rejects are not planned'],
    'design_ref': '§4.C14', 'technique': 'bounded-exhaustive enumeration of feasible requests x time lattice per phase, with phase boundaries read from the generated plan',
    'level_text': 'About 0.8 million requests per width in quick (2.5 million in thorough) covering every branch of both generators in both directions are planned by the real code and each plan with positive duration is checked for phase structure, boundary states, continuity at every phase boundary, kinematic limits and derivative consistency.',
    'level_note': 'Trusted: central differences with stated truncation bounds. Not covered: limits/distances off the lattice, infeasible requests.',
}


def c08_jobs(tier):
    src = ['src/linalg.c', 'src/linalg_plu.c', 'src/linalg_ldl.c', 'src/linalg_llt.c', 'src/math.c', 'src/a.c']
    libs = ['-lquadmath', '-lm']
    jobs = grid_jobs('fact-f64', 'harness/fact.cpp', src, tier, 16, libs=libs)
    jobs += grid_jobs('fact-f32', 'harness/fact.cpp', src, 'quick', 16, defs=['-DA_SIZE_REAL=4'], libs=libs)
    # long double reals with long double tolerances: a helper that quietly works in double precision shows only here
    jobs += grid_jobs('fact-ld', 'harness/fact.cpp', src, 'quick', 16, defs=['-DA_SIZE_REAL=16'], libs=libs)
    return jobs


CHECKS['C08'] = {
    'title': 'LU, LDL^T and Cholesky factorizations reconstruct, solve and fail correctly', 'level': 'exploration', 'engine': 'grid', 'jobs': c08_jobs,
    'rule': ('bounded-exhaustive enumeration of matrices with an exact integer classification (fraction-free Bareiss minors in __int128) and __float128 reconstruction: LU with partial pivoting on ALL matrices of order 1..3 over {-2..2} (1.95 million of order 3), order 4 over {0,1} (quick) / {-1,0,1} (thorough, 43 million), '
             'and P*L*U families of order 5 (6 in thorough) under EVERY row permutation so that every pivot order occurs; LDL^T and Cholesky on ALL symmetric matrices of order 1..3 over {-2..2} and order 4 over {-1,0,1} ({-2..2} thorough), Cholesky also with the diagonal shifted by 3, plus named non-positive pivots at every position for orders 1..5; '
             'duplicated rows with pivot values 1..100 (values whose reciprocal is inexact); Pascal, Wilkinson growth, second-difference and Vandermonde matrices of order 2..10; every matrix also under row / column (symmetric for LDL/LLT) scalings by 2^+-20 and 2^+-200 (2^+-60 for float) graded scalings (row/column exponents between -0.9 and +1 times 480 (56 for float), so that multipliers are tiny or huge while the products the factorization needs stay representable - this exposed a_real_ldl, fixed in f69d913), and uniform scalings of the whole matrix by 2^+-600 (2^+-100 float: the product of the pivots leaves the range, the log-determinant must stay finite); right-hand sides: unit vectors and all vectors over {-1,0,1}. On success: pivot vector is a permutation whose parity equals the reported sign, |multipliers| <= 1, strictly positive Cholesky diagonal, '
             'P*A - L*U (A - L*D*L^T, A - L*L^T) within the componentwise bound 4n eps (|L||U|), extractors match the packed storage, solve and both inverse variants satisfy the componentwise backward-error bound 16n eps (|L||U|)|x| and agree with each other within it, det within the perturbation bound of the exact determinant, exp(lndet) and sgndet consistent. '
             'On failure: the exact determinant (LU) / a leading principal minor (LDL, LLT) must vanish (be non-positive); conversely zero columns, equal rows and - wherever the arithmetic up to that point is exact (dyadic) - vanishing LDL pivots and non-positive Cholesky pivots must be reported as failure; every exactly nonsingular / regular / positive definite lattice matrix must succeed. Guard cells around every output.'),
    'assumptions': ['when earlier pivots are not dyadic an exactly vanishing later pivot may come out as rounding noise of either sign; failure is then neither required nor forbidden', 'libquadmath products of small integers and powers of two are exact'],
    'design_ref': '§4.C08', 'technique': 'bounded-exhaustive enumeration of complete small-integer matrix lattices (with power-of-two scalings) against exact Bareiss classification and quad-precision reconstruction bounds',
    'level_text': 'Every matrix of the stated integer lattices (millions per class, every sign pattern, every pivot order up to order 4, every row permutation for orders 5/6, badly scaled variants, exactly singular and indefinite inputs) is factorised by the real code; success is checked against the standard componentwise backward-error bounds with exact references, failure against exact singularity.',
    'level_note': 'Trusted: __int128 / __float128 arithmetic. Not covered: orders above 6, non-integer ill-conditioned data.',
}


REAL_SW = ['ASINH', 'ACOSH', 'ATANH', 'EXPM1', 'LOG1P', 'ATAN2', 'HYPOT']
CPLX_SW = ['CSQRT', 'CPOW', 'CEXP', 'CLOG', 'CSIN', 'CCOS', 'CTAN', 'CSINH', 'CCOSH', 'CTANH', 'CASIN', 'CACOS', 'CATAN', 'CASINH', 'CACOSH', 'CATANH']


def config_set(tier, switches):
    """(name, defines) of the build configurations: all on, all off, and in thorough every single flip from each extreme"""
    allsw = REAL_SW + CPLX_SW
    cfgs = [('allon', ['-DA_HAVE_%s=1' % x for x in allsw]), ('alloff', [])]
    if tier == 'thorough':
        for x in switches:
            cfgs.append(('on-but-%s' % x.lower(), ['-DA_HAVE_%s=1' % y for y in allsw if y != x]))
            cfgs.append(('off-but-%s' % x.lower(), ['-DA_HAVE_%s=1' % x]))
    return cfgs


def c10_jobs(tier):
    src = ['src/complex.c', 'src/math.c', 'src/a.c']
    libs = ['-lquadmath', '-lm']
    jobs = []
    for width, wd in (('f64', []), ('f32', ['-DA_SIZE_REAL=4'])):
        for name, defs in config_set(tier, REAL_SW + CPLX_SW):
            n = 16 if name in ('allon', 'alloff') else 4
            jobs += grid_jobs('cplx-%s-%s' % (width, name), 'harness/cplx.cpp', src, tier, n, defs=defs + wd, libs=libs)
    return jobs


CHECKS['C10'] = {
    'title': 'complex arithmetic and functions are correct in every build configuration', 'level': 'exploration', 'engine': 'grid', 'jobs': c10_jobs,
    'rule': ('bounded-exhaustive enumeration of an argument lattice per build configuration against libquadmath (__complex128): real and imaginary parts from {0, +-m*2^e: e in {-60,-30,-10,-3,-1,0,1,3,10,30,60}, m in {1,1.25,1.5,1.9375}}, the bands 16..62 (where exp(-2|y|) drops below the rounding unit) and 80..768 (both sides of where exp(|y|) leaves the float / double range), plus every constant the fallback bodies branch on (1, 1.5, 0.6417, 0.1, 0.5, 2, pi/2, pi, 0.25) one ulp on either side: about 150 values per axis, over 20000 points per function, all four quadrants and both axes. '
             'Functions: 32 unary functions in their two-argument and in-place forms (sqrt, exp, log, log2, log10, six trigonometric, six inverse trigonometric, six hyperbolic, six inverse hyperbolic, inv, neg, conj), abs/abs2/logabs/arg, polar, seven real-argument variants inside their real domain, and on operand pairs of a coarser lattice: add/sub/mul/div with complex, real-scalar and imaginary-scalar second operand, pow, pow_real, logb, and the inverse pairs (z*s)/s, (z*is)/(is), exp(log z), log(exp z), inv(inv z). '
             'Tolerance per point: |lib - ref| <= 32 * (eps*|w| + spread) where spread is the change of the reference under perturbations of 4 eps |z| of the argument, i.e. eps x condition x |w| measured at that point (worst observed on the unchanged tree: 8 for pow, below 3 elsewhere). Points where the reference is discontinuous under those perturbations (branch cuts), not finite (poles, overflow) or under-/overflowing are excluded by that rule (2.8%% of the lattice). '
             'Configurations: quick = {every A_HAVE_* switch on, every switch off} x {double, float}; thorough = additionally each of the 23 switches flipped alone from each extreme (96 configurations). distinct_nontrivial = lattice points actually judged (not excluded).'),
    'assumptions': ['libquadmath is the reference for principal values (ISO C conventions)', 'compiled with gcc -O2 like the repository\'s RelWithDebInfo build; mixed configurations of several switches are not built, each body reaches other functions through their symbols so single flips exercise every body with both versions of each callee',
                    'A_HAVE_CATANH is undefined unconditionally in complex.c, so catanh is always the fallback'],
    'design_ref': '§4.C10', 'technique': 'bounded-exhaustive enumeration of an argument lattice x build configurations against quad-precision references with a measured conditioning term',
    'level_text': 'Every complex entry point is evaluated on a 125x125 argument lattice covering magnitudes 2^-60..2^60, all quadrants, both axes and every branch constant of the fallback code +-1 ulp, in the all-libm and the all-fallback configuration for both real widths (96 configurations in thorough), and compared with quad-precision principal values using a tolerance proportional to the measured conditioning.',
    'level_note': 'Trusted: libquadmath. Not covered: arguments between lattice points; mixed switch configurations; long double.',
}


def c11_jobs(tier):
    src = ['src/math.c', 'src/a.c']
    libs = ['-lquadmath', '-lm']
    jobs = []
    for width, wd in (('f64', []), ('f32', ['-DA_SIZE_REAL=4'])):
        allsw = REAL_SW
        cfgs = [('allon', ['-DA_HAVE_%s=1' % x for x in allsw]), ('alloff', [])]
        if tier == 'thorough':
            for x in allsw:
                cfgs.append(('on-but-%s' % x.lower(), ['-DA_HAVE_%s=1' % y for y in allsw if y != x]))
                cfgs.append(('off-but-%s' % x.lower(), ['-DA_HAVE_%s=1' % x]))
        for name, defs in cfgs:
            full = name in ('allon', 'alloff')
            # the complete float sweep (2^32 patterns x 5 functions, about 9 CPU-minutes per configuration) runs in EVERY configuration of the
            # thorough tier; the double lattice of the single-flip configurations stays the quick one
            t = tier if (full or width == 'f32') else 'quick'
            jobs += grid_jobs('real-%s-%s' % (width, name), 'harness/real.cpp', src, t, 16 if (full or (width == 'f32' and tier == 'thorough')) else 2, defs=defs + wd, libs=libs)
    return jobs


CHECKS['C11'] = {
    'title': 'real special functions and reductions are accurate in every configuration', 'level': 'exploration', 'engine': 'grid', 'jobs': c11_jobs,
    'rule': ('bounded-exhaustive enumeration against libquadmath (double build) / the host double libm (float build, univariate sweep). asinh, acosh, atanh, expm1, log1p: both the library fallback bodies (always compiled, called by symbol) and the names as bound by the build configuration; '
             'float width: ALL 2^32 bit patterns in thorough (a complete decision for that configuration), every pattern with the low 11 mantissa bits zero (2^21) in quick; double width: every (sign, exponent, top 6 / 10 mantissa bits) pattern; plus every branch constant of the fallbacks (sqrt eps, 1/sqrt eps, 2, 1, 1/2, eps) +-2 ulp. '
             'Error budget 8 eps of the exact value (the argument is an exact floating-point number, so no conditioning allowance; worst observed on the unchanged tree 2.1 eps). atan2 (fallback and bound) on all pairs of a 60-value axis including exact axis points, RMIN, RMAX and magnitudes 2^+-1000; norm2 / hypot, norm3, norm and norm_ with strides 1..3 (gaps poisoned with huge values) including values whose squares over- or underflow: within 4-8 eps whenever the true norm is representable; '
             'polar / spherical conversions with round trips, and directly with every returned coordinate within 8 eps of its own size (tiny angles, many turns, the neighbours of pi/2, pi, 3pi/2); sum, sum1, sum2, mean, dot and strided forms, copy, swap, fill, zero, push_fore/back(_), roll_fore/back(_) for EVERY length 0..6, strides 1..3 (stride pairs for dot_/copy_), cache / shift lengths 0..7 with small-integer contents (exact comparison) and guard cells; means of all vectors of length 1..3 over {+-MAX, +-MAX/2, 1} (the mean is representable where the plain sum is not). '
             'Configurations: quick = every real switch on / every switch off x {double, float}; thorough adds each of the 7 real switches flipped alone from each extreme (float: complete sweep in each of these 16 configurations too). distinct_nontrivial counts evaluations with a non-zero reference / more than one element.'),
    'assumptions': ['libquadmath is the reference; for the univariate sweep of the float build the host double-precision libm (error 2^-29 float eps) is the reference, which makes the complete 2^32 sweep affordable', 'signed zeros are not distinguished (the statement names quadrants and axes)', 'double-width univariate helpers are covered on the (sign, exponent, leading mantissa bits) lattice, not completely'],
    'design_ref': '§4.C11', 'technique': 'complete enumeration of the float domain (2^32 bit patterns per function in thorough) and stated double lattices against quad-precision references; exact integer references for reductions and movers',
    'level_text': 'In the float configuration the five univariate helpers are decided completely (every bit pattern, fallback and bound); the double configuration on a lattice containing every exponent and every branch constant; atan2, norms and conversions on all pairs/triples of axes with extreme magnitudes; reductions and block movers on every small length/stride/shift combination with exact references.',
    'level_note': 'Trusted: libquadmath. Not covered: double arguments between lattice points; mixed switch configurations.',
}


def c20_jobs(tier):
    jobs = [{'name': 'abi-%s' % w, 'build_name': 'abi-%s' % w, 'script': 'abi/check.py', 'harness': [], 'args': ['--width', w, '--tier', tier], 'timeout': 900} for w in ('f64', 'f32')]
    # the C side compiled in the oldest language mode the headers support (a cc-crate build picks up CFLAGS): a_bool is then not _Bool
    jobs.append({'name': 'abi-f64-c90', 'build_name': 'abi-f64-c90', 'script': 'abi/check.py', 'harness': [], 'args': ['--width', 'f64', '--tier', tier, '--cstd', 'c90'], 'timeout': 900})
    # the binding's cmake build (build.rs, feature "cmake"): the width reaches the C side through the generated configuration header
    for w in ('f64', 'f32'):
        jobs.append({'name': 'abi-%s-cmake' % w, 'build_name': 'abi-%s-cmake' % w, 'script': 'abi/check.py', 'harness': [], 'args': ['--width', w, '--tier', tier, '--config', 'cmake'], 'timeout': 900})
    return jobs


CHECKS['C20'] = {
    'title': 'the Rust binding mirrors the C ABI', 'level': 'translation_validation', 'engine': 'abi', 'jobs': c20_jobs,
    'rule': ('complete enumeration of the declaration space of src/lib.rs for both real widths (f64, and f32 = --cfg feature="float" with -DA_SIZE_REAL=4): EVERY #[repr(C)] struct (18), every field (89), every item of every extern "C" block (121 functions, 4 statics). '
             'A "program" is one declaration. Rust truth = rustc compiling lib.rs plus a generated main that prints size_of, align_of, offset_of! and field sizes; C truth = clang record layouts / JSON AST of a translation unit including every include/a/*.h, and generated C accessors compiled against those headers. '
             'Per struct: size, alignment, field count. Per field (positional correspondence): offset, size, machine-type class (integer width and signedness, float width, data pointer, function pointer, array length x element, nested struct), and two cross-boundary executions: Rust writes a field-unique byte pattern where it believes the field lives and a C accessor reads the field through the header definition, and the converse. '
             'Per function / static: declared by a header, defined by the library built from the working tree (nm), same arity, same parameter classes in order, same return class (function-pointer returns included). The crc structs are not mirrors of a C record: their table type is checked against the array parameter of a_crcN*_init. disagreements_checked = disagreements found and reported.'),
    'assumptions': ['lib.rs items are parsed by a scanner that aborts on anything it cannot parse (no item is skipped silently)', 'char[N] and [u8; N] are the same machine type (byte buffer); a pure field rename (alpha vs alpha_) is reported as a sample, not as a violation', 'x86-64 SysV ABI only'],
    'design_ref': '§4.C20', 'technique': 'complete enumeration of the binding\'s declaration space with one compiler-executed layout/prototype comparison and two cross-boundary executions per field',
    'level_text': 'Every mirrored structure, field and foreign declaration of the binding is compared with the layout and prototypes the C compiler derives from the current headers, for both real widths, and every field is additionally written on one side of the boundary and read on the other by executed code.',
    'level_note': 'Trusted: rustc offset_of!/size_of, clang AST, the lib.rs scanner. Not covered: semantic agreement of function bodies; other target ABIs.',
}

# ---------------------------------------------------------------- manifest texts
CHECKS['C01'].update({
    'design_ref': '§4.C01', 'technique': 'explicit-state BFS to a fixpoint over the real src/avl.c (size-bounded, unbounded history length), lock-step reference set, API-replay conformance of every state',
    'level_text': 'Every insert/remove/duplicate-insert/lookup from every AVL shape reachable with at most N live keys (N=18 quick, 24 thorough; every AVL shape of those sizes is reachable) is executed on the real code and checked against all invariants of the statement and a sorted-set model; the search reaches a fixpoint, so histories of any length over N live keys are covered, in both node layouts, plain and under ASan/UBSan.',
    'level_note': 'Trusted: gcc/clang, the harness walk (independent recursive check), order-isomorphism of key sets. Not covered: more than N simultaneously live keys.'})
CHECKS['C02'].update({
    'design_ref': '§4.C02', 'technique': 'explicit-state BFS to a fixpoint over the real src/rbt.c (size-bounded, unbounded history length), lock-step reference set, API-replay conformance of every state',
    'level_text': 'As C01 for the red-black tree (N=15 quick, 20 thorough): root black, no red-red, equal black height, parent links, order, exact contents, duplicate insert and lookup, from every reachable coloured shape, both node layouts, plain -O2 and ASan/UBSan (the A_ASSUME hints make a broken invariant undefined behaviour).',
    'level_note': 'Trusted: as C01. Not covered: more than N simultaneously live keys.'})
CHECKS['C03'].update({
    'design_ref': '§4.C03', 'technique': 'explicit-state BFS over both real trees; in every reachable state all iterator forms, all single steps from every node and tear-down with every interruption point are executed and compared with recursive reference traversals',
    'level_text': 'For every AVL/red-black shape reachable with at most N live keys (14/12 quick, 20/18 thorough) all 12 loop macros, the six step functions from every node, the four end accessors and tear-down interrupted after every k (continued and restarted, handed-out nodes poisoned) are executed on the real code and compared with reference sequences computed from child links only.',
    'level_note': 'Trusted: the recursive reference traversals; ASan poisoning for read-after-hand-out (asan jobs). Not covered: trees with more than N nodes.'})

NOT_YET = {}


# ---------------------------------------------------------------- macro twins: one declaration-space job per property
def _with_twins(pid, jobs_fn):
    import json, os
    heads = []
    for l in open(os.path.join(os.path.dirname(os.path.abspath(__file__)), 'properties.jsonl')):
        d = json.loads(l)
        if d['id'] == pid:
            heads = sorted({os.path.basename(f) for f in d['anchors']['files'] if f.startswith('include/a/') and f.endswith('.h')})
    if not heads:
        return jobs_fn

    def jobs(tier):
        return jobs_fn(tier) + [{'name': 'macro-twins', 'build_name': 'macro-twins', 'script': 'tools/macro_twins.py', 'harness': [], 'args': ['--headers', ','.join(heads), '--tier', tier], 'timeout': 300}]
    return jobs


# ---------------------------------------------------------------- a clang-built clone of the first plain job of the container and byte-level properties
def _with_clang_clone(jobs_fn, pick):
    def jobs(tier):
        js = jobs_fn(tier)
        for j in js:
            if pick(j):
                return js + [with_clang(j, j['name'] + '-clang')]
        return js
    return jobs


_plain = lambda j: not j.get('san') and not j.get('cc') and 'script' not in j and not j.get('defs', []) == ['-funsigned-char']
for _pid, _pick in (('C04', lambda j: _plain(j) and 'vec' in j['name']), ('C05', lambda j: _plain(j) and 'que' in j['name']), ('C06', lambda j: _plain(j) and 'rich' in j['name']),
                    ('C09', _plain), ('C12', _plain), ('C14', _plain), ('C16', _plain), ('C17', _plain), ('C18', lambda j: _plain(j) and j['name'].startswith('utf')), ('C19', lambda j: j['name'] == 'bits-s0')):
    CHECKS[_pid]['jobs'] = _with_clang_clone(CHECKS[_pid]['jobs'], _pick)

for _pid in sorted(CHECKS):
    if _pid != 'C20':
        CHECKS[_pid]['jobs'] = _with_twins(_pid, CHECKS[_pid]['jobs'])


def manifest():
    checks = []
    for pid in sorted(CHECKS):
        c = CHECKS[pid]
        checks.append({
            'property_id': pid,
            'quick_cmd': './vcheck %s --tier quick' % pid,
            'thorough_cmd': './vcheck %s --tier thorough' % pid,
            'evidence_file': '/verif/evidence/%s.json' % pid,
            'replay_cmd_template': './vcheck %s --replay {path}' % pid,
            'engine': c.get('engine', 'xs'),
            'level_claimed': {'category': c['level'], 'text': c['level_text'], 'design_ref': c['design_ref']},
            'level_note': c['level_note'],
            'technique': c['technique'],
        })
    import json
    props = [json.loads(l)['id'] for l in open(__import__('os').path.join(__import__('os').path.dirname(__file__), 'properties.jsonl'))]
    na = [{'property_id': p, 'reason': NOT_YET.get(p, 'check not built yet in this round (planned: DESIGN.md §4.%s); nothing is claimed for it' % p)} for p in props if p not in CHECKS]
    return {
        'version': 1,
        'setup_cmd': 'python3 tools/setup.py',
        'hooks': {'guard': 'LIBA_VERIF', 'enable': 'no source hooks are needed: the checks compile the anchored /repo/src/*.c files themselves and use public seams (a_alloc function pointer, public structs); the guard name is reserved and unused',
                  'baseline_off_cmd': 'cmake --build /repo/_build && ctest --test-dir /repo/_build -j8 --timeout 900', 'source_commits': [], 'add_only': True},
        'engines': [
            {'name': 'xs', 'path': 'engine/xs.hpp', 'serves_properties': [p for p in sorted(CHECKS) if CHECKS[p].get('engine', 'xs') == 'xs'], 'kind_free_text': 'explicit-state breadth-first explorer over the real implementation with reference model, API-replay conformance and crash containment'},
            {'name': 'abi', 'path': 'abi/check.py', 'serves_properties': [p for p in sorted(CHECKS) if CHECKS[p].get('engine') == 'abi'], 'kind_free_text': 'declaration-space enumeration for the Rust binding: rustc layout probe vs clang record layouts, cross-boundary executions'},
            {'name': 'grid', 'path': 'engine/grid.hpp', 'serves_properties': [p for p in sorted(CHECKS) if CHECKS[p].get('engine') == 'grid'], 'kind_free_text': 'bounded-exhaustive enumeration of finite input domains against exact reference models'},
        ],
        'checks': checks,
        'not_applicable': na,
        'notes': 'All checks rebuild the anchored sources from $VERIF_REPO (default /repo) working tree on every run; nothing uses /repo/_build. See DESIGN.md.',
    }


if __name__ == '__main__':
    import json, os
    with open(os.path.join(os.path.dirname(os.path.abspath(__file__)), 'MANIFEST.json'), 'w') as f:
        json.dump(manifest(), f, indent=1)
    print('MANIFEST.json written')
