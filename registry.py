"""Registry of checks: for every property, the jobs (harness + anchored /repo
sources + flags + arguments) of the quick and thorough tiers.  DESIGN.md §4."""

CHECKS = {}


def tree_job(kind, name, n, iters=0, tear=0, inv=1, san='', unpacked=False, deadline=None):
    defs = ['-DTREE_%s' % kind.upper()]
    bn = '%s%s%s' % (kind, '-asan' if san else '', '-unpacked' if unpacked else '')
    if unpacked:
        defs.append('-DA_SIZE_POINTER=1')
    args = ['--n', n, '--iters', iters, '--tear', tear, '--inv', inv]
    if deadline:
        args += ['--deadline', deadline]
    return {'name': name, 'build_name': bn, 'harness': ['harness/tree.cpp'], 'repo_srcs': ['src/%s.c' % kind], 'defs': defs, 'san': san, 'args': args}


def c01_jobs(tier):
    if tier == 'quick':
        return [tree_job('avl', 'avl-packed-n18', 18, deadline=100),
                tree_job('avl', 'avl-packed-asan-n13', 13, san='asan', deadline=100),
                tree_job('avl', 'avl-unpacked-n14', 14, unpacked=True, deadline=100)]
    return [tree_job('avl', 'avl-packed-n24', 24, deadline=2400),
            tree_job('avl', 'avl-packed-asan-n18', 18, san='asan', deadline=2400),
            tree_job('avl', 'avl-unpacked-n22', 22, unpacked=True, deadline=2400),
            tree_job('avl', 'avl-unpacked-asan-n16', 16, unpacked=True, san='asan', deadline=2400)]


def c02_jobs(tier):
    if tier == 'quick':
        return [tree_job('rbt', 'rbt-packed-n15', 15, deadline=100),
                tree_job('rbt', 'rbt-packed-asan-n11', 11, san='asan', deadline=100),
                tree_job('rbt', 'rbt-unpacked-n12', 12, unpacked=True, deadline=100)]
    return [tree_job('rbt', 'rbt-packed-n20', 20, deadline=2400),
            tree_job('rbt', 'rbt-packed-asan-n15', 15, san='asan', deadline=2400),
            tree_job('rbt', 'rbt-unpacked-n18', 18, unpacked=True, deadline=2400),
            tree_job('rbt', 'rbt-unpacked-asan-n14', 14, unpacked=True, san='asan', deadline=2400)]


def c03_jobs(tier):
    if tier == 'quick':
        return [tree_job('avl', 'avl-iter-tear-n14', 14, 1, 1, 0, deadline=100),
                tree_job('rbt', 'rbt-iter-tear-n12', 12, 1, 1, 0, deadline=100),
                tree_job('avl', 'avl-iter-tear-asan-n11', 11, 1, 1, 0, san='asan', deadline=100),
                tree_job('rbt', 'rbt-iter-tear-asan-n10', 10, 1, 1, 0, san='asan', deadline=100),
                tree_job('avl', 'avl-unpacked-iter-tear-n11', 11, 1, 1, 0, unpacked=True, deadline=100),
                tree_job('rbt', 'rbt-unpacked-iter-tear-n10', 10, 1, 1, 0, unpacked=True, deadline=100)]
    return [tree_job('avl', 'avl-iter-tear-n20', 20, 1, 1, 0, deadline=2400),
            tree_job('rbt', 'rbt-iter-tear-n18', 18, 1, 1, 0, deadline=2400),
            tree_job('avl', 'avl-iter-tear-asan-n15', 15, 1, 1, 0, san='asan', deadline=2400),
            tree_job('rbt', 'rbt-iter-tear-asan-n13', 13, 1, 1, 0, san='asan', deadline=2400),
            tree_job('avl', 'avl-unpacked-iter-tear-n16', 16, 1, 1, 0, unpacked=True, deadline=2400),
            tree_job('rbt', 'rbt-unpacked-iter-tear-n14', 14, 1, 1, 0, unpacked=True, deadline=2400)]


TREE_RULE = ('explicit-state BFS to a fixpoint over the real %s: a state is the tree shape with the stored balance/colour bits '
             '(keys are implicit: only their order is visible to the code); from EVERY reachable state EVERY enabled operation is executed on a fresh '
             'real object: insert into each gap (while fewer than N live keys), remove each rank, duplicate-insert each rank, lookup of each present key '
             'and each gap%s. distinct_nontrivial = distinct reachable states; evaluations = transitions executed. '
             'Every new state is also rebuilt from the empty tree through insert/remove calls only and must encode identically (traces_validated_against_impl).')

CHECKS['C01'] = {
    'title': 'AVL invariants under any history', 'level': 'model_checking', 'jobs': c01_jobs,
    'rule': TREE_RULE % ('src/avl.c', ''),
    'assumptions': ['the comparison callback is a strict weak order and the only way the code looks at keys (so order-isomorphic key sets are equivalent)',
                    'bound: at most N live keys (N per job in coverage.jobs); histories are of unbounded length (fixpoint)',
                    'x86-64 host; packed layout = default, unpacked layout compiled with -DA_SIZE_POINTER=1'],
}
CHECKS['C02'] = {
    'title': 'red-black invariants under any history', 'level': 'model_checking', 'jobs': c02_jobs,
    'rule': TREE_RULE % ('src/rbt.c', ''),
    'assumptions': CHECKS['C01']['assumptions'],
}
CHECKS['C03'] = {
    'title': 'tree iterators and tear-down on every reachable shape', 'level': 'model_checking', 'jobs': c03_jobs,
    'rule': TREE_RULE % ('src/avl.c and src/rbt.c', '; in every state additionally the 12 foreach loop forms, the 6 step functions from every node, head/tail/post_head/post_tail, '
                         'and tear-down interrupted after every k in 0..n (continued with the saved cursor, and restarted with a null cursor), every handed-out node being poisoned at once'),
    'assumptions': ['state set = reachable set of the C01/C02 explorations at the stated bound, regenerated by the same BFS',
                    'reads of a handed-out node are detected by ASan poisoning (asan jobs) and by wild-pointer poisoning (plain jobs: a followed pointer faults, a compared pointer changes the sequence)'],
}

# ---------------------------------------------------------------- manifest texts
CHECKS['C01'].update({
    'design_ref': '§4.C01', 'technique': 'explicit-state BFS to a fixpoint over the real src/avl.c (size-bounded, unbounded history length), lock-step reference set, API-replay conformance of every state',
    'level_text': 'Every insert/remove/duplicate-insert/lookup from every AVL shape reachable with at most N live keys (N=18 quick, 24 thorough; every AVL shape of those sizes is reachable) is executed on the real code and checked against all invariants of the statement and a sorted-set model; the search reaches a fixpoint, so histories of any length over N live keys are covered, in both node layouts, plain and under ASan/UBSan.',
    'level_note': 'Trusted: gcc/clang, the harness walk (independent recursive check), order-isomorphism of key sets. Not covered: more than N simultaneously live keys.'})
CHECKS['C02'].update({
    'design_ref': '§4.C02', 'technique': 'explicit-state BFS to a fixpoint over the real src/rbt.c (size-bounded, unbounded history length), lock-step reference set, API-replay conformance of every state',
    'level_text': 'As C01 for the red-black tree (N=15 quick, 20 thorough): root black, no red-red, equal black height, parent links, order, exact contents, duplicate insert and lookup, from every reachable coloured shape, both node layouts, plain -O2 and ASan/UBSan (the A_ASSUME hints make a broken invariant undefined behaviour).',
    'level_note': 'Trusted: as C01. Not covered: more than N simultaneously live keys.'})
CHECKS['C03'].update({
    'design_ref': '§4.C03', 'technique': 'explicit-state BFS over both real trees; in every reachable state all iterator forms, all single steps from every node and tear-down with every interruption point are executed and compared with recursive reference traversals',
    'level_text': 'For every AVL/red-black shape reachable with at most N live keys (14/12 quick, 20/18 thorough) all 12 loop macros, the six step functions from every node, the four end accessors and tear-down interrupted after every k (continued and restarted, handed-out nodes poisoned) are executed on the real code and compared with reference sequences computed from child links only.',
    'level_note': 'Trusted: the recursive reference traversals; ASan poisoning for read-after-hand-out (asan jobs). Not covered: trees with more than N nodes.'})

NOT_YET = {}


def manifest():
    checks = []
    for pid in sorted(CHECKS):
        c = CHECKS[pid]
        checks.append({
            'property_id': pid,
            'quick_cmd': './vcheck %s --tier quick' % pid,
            'thorough_cmd': './vcheck %s --tier thorough' % pid,
            'evidence_file': '/verif/evidence/%s.json' % pid,
            'replay_cmd_template': './vcheck %s --replay {path}' % pid,
            'engine': c.get('engine', 'xs'),
            'level_claimed': {'category': c['level'], 'text': c['level_text'], 'design_ref': c['design_ref']},
            'level_note': c['level_note'],
            'technique': c['technique'],
        })
    import json
    props = [json.loads(l)['id'] for l in open(__import__('os').path.join(__import__('os').path.dirname(__file__), 'properties.jsonl'))]
    na = [{'property_id': p, 'reason': NOT_YET.get(p, 'check not built yet in this round (planned: DESIGN.md §4.%s); nothing is claimed for it' % p)} for p in props if p not in CHECKS]
    return {
        'version': 1,
        'setup_cmd': 'python3 tools/setup.py',
        'hooks': {'guard': 'LIBA_VERIF', 'enable': 'no source hooks are needed: the checks compile the anchored /repo/src/*.c files themselves and use public seams (a_alloc function pointer, public structs); the guard name is reserved and unused',
                  'baseline_off_cmd': 'cmake --build /repo/_build && ctest --test-dir /repo/_build -j8 --timeout 900', 'source_commits': [], 'add_only': True},
        'engines': [
            {'name': 'xs', 'path': 'engine/xs.hpp', 'serves_properties': [p for p in sorted(CHECKS) if CHECKS[p].get('engine', 'xs') == 'xs'], 'kind_free_text': 'explicit-state breadth-first explorer over the real implementation with reference model, API-replay conformance and crash containment'},
            {'name': 'grid', 'path': 'engine/grid.hpp', 'serves_properties': [p for p in sorted(CHECKS) if CHECKS[p].get('engine') == 'grid'], 'kind_free_text': 'bounded-exhaustive enumeration of finite input domains against exact reference models'},
        ],
        'checks': checks,
        'not_applicable': na,
        'notes': 'All checks rebuild the anchored sources from $VERIF_REPO (default /repo) working tree on every run; nothing uses /repo/_build. See DESIGN.md.',
    }


if __name__ == '__main__':
    import json, os
    with open(os.path.join(os.path.dirname(os.path.abspath(__file__)), 'MANIFEST.json'), 'w') as f:
        json.dump(manifest(), f, indent=1)
    print('MANIFEST.json written')
