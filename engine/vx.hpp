// vx.hpp — shared plumbing for all harnesses: JSON-lines protocol towards
// `vcheck`, crash/hang containment by fork with a shared "current transition"
// slot, wall-clock deadline.  See DESIGN.md §2.
//
// Protocol (one JSON object per line on stdout):
//   {"t":"viol","sig":S,"what":W,"replay":{...}}   a violation (sig is matched against known_findings.json)
//   {"t":"stat","k":K,"v":N}                       additive counter
//   {"t":"max","k":K,"v":N}                        counter merged by max
//   {"t":"info","k":K,"v":<json>}                  free-form, kept per job
//   {"t":"sample","v":<json>}                      an explored case written out
//   {"t":"done","exhaustive":B,"note":S}           exploration finished (missing => job is broken)
#pragma once
#include <cstdint>
#include <cstdio>
#include <cstdlib>
#include <cstring>
#include <string>
#include <vector>
#include <functional>
#include <chrono>
#include <signal.h>
#include <sys/mman.h>
#include <sys/wait.h>
#include <unistd.h>

namespace vx {

inline std::string jesc(const std::string &s)
{
    std::string o;
    o.reserve(s.size() + 2);
    for (unsigned char c : s)
    {
        switch (c)
        {
        case '"': o += "\\\""; break;
        case '\\': o += "\\\\"; break;
        case '\n': o += "\\n"; break;
        case '\t': o += "\\t"; break;
        case '\r': o += "\\r"; break;
        default:
            if (c < 0x20 || c >= 0x7f)
            {
                char b[8];
                snprintf(b, sizeof b, "\\u%04x", c);
                o += b;
            }
            else { o += (char)c; }
        }
    }
    return o;
}
inline std::string jstr(const std::string &s) { return "\"" + jesc(s) + "\""; }

// write one complete line with a single write(2) so that forked children and
// the parent never interleave inside a line
inline void emit_line(const std::string &line)
{
    std::string l = line;
    l += '\n';
    size_t off = 0;
    while (off < l.size())
    {
        ssize_t w = ::write(1, l.data() + off, l.size() - off);
        if (w <= 0) { _exit(3); }
        off += (size_t)w;
    }
}
inline void stat(const char *k, long long v)
{
    emit_line(std::string("{\"t\":\"stat\",\"k\":") + jstr(k) + ",\"v\":" + std::to_string(v) + "}");
}
inline void maxstat(const char *k, long long v)
{
    emit_line(std::string("{\"t\":\"max\",\"k\":") + jstr(k) + ",\"v\":" + std::to_string(v) + "}");
}
inline void info(const char *k, const std::string &json)
{
    emit_line(std::string("{\"t\":\"info\",\"k\":") + jstr(k) + ",\"v\":" + json + "}");
}
inline void info_str(const char *k, const std::string &s) { info(k, jstr(s)); }
inline void sample(const std::string &json) { emit_line("{\"t\":\"sample\",\"v\":" + json + "}"); }
inline void done(bool exhaustive, const std::string &note = "")
{
    emit_line(std::string("{\"t\":\"done\",\"exhaustive\":") + (exhaustive ? "true" : "false") + ",\"note\":" + jstr(note) + "}");
}

// violations: de-duplicated by signature inside one process; the first one
// seen for a signature is written out completely, later ones only counted.
struct ViolBook
{
    struct E { std::string sig; long long count; };
    std::vector<E> seen;
    long long total = 0;
    size_t max_sigs = 40;
    bool report(const std::string &sig, const std::string &what, const std::string &replay_json)
    {
        ++total;
        for (auto &e : seen)
        {
            if (e.sig == sig) { ++e.count; return false; }
        }
        if (seen.size() >= max_sigs) { return false; }
        seen.push_back({sig, 1});
        emit_line("{\"t\":\"viol\",\"sig\":" + jstr(sig) + ",\"what\":" + jstr(what) + ",\"replay\":" + (replay_json.empty() ? "{}" : replay_json) + "}");
        return true;
    }
    void flush_counts()
    {
        for (auto &e : seen) { emit_line("{\"t\":\"violcount\",\"sig\":" + jstr(e.sig) + ",\"v\":" + std::to_string(e.count) + "}"); }
    }
};
inline ViolBook &book()
{
    static ViolBook b;
    return b;
}
inline void viol(const std::string &sig, const std::string &what, const std::string &replay_json = "")
{
    book().report(sig, what, replay_json);
}

// ---------------------------------------------------------------- deadline
struct Deadline
{
    std::chrono::steady_clock::time_point t0 = std::chrono::steady_clock::now();
    double limit_s = 1e18;
    double elapsed() const { return std::chrono::duration<double>(std::chrono::steady_clock::now() - t0).count(); }
    bool expired() const { return elapsed() > limit_s; }
};
inline Deadline &deadline()
{
    static Deadline d;
    return d;
}

// ---------------------------------------------------------------- containment
// Shared page: the child publishes the transition it is about to execute; if
// it dies, the parent appends that transition to the skip list and re-forks.
// The re-run is deterministic, so when the child meets a skipped transition it
// reports the crash as a violation (with full context) instead of executing it.
struct Slot { uint64_t w[6]; };
struct Shared
{
    volatile uint64_t progress;
    Slot cur;
    volatile int cur_valid;
    int nskip;
    struct { Slot s; int sig; } skip[32];
    // coarse position of an enumeration harness (grid engine): a string literal (same address in parent and child) and four numbers
    const char *volatile mark_sig;
    volatile uint64_t mark_v[4];
};
inline Shared *&shared()
{
    static Shared *p = nullptr;
    return p;
}
inline bool slot_eq(const Slot &a, const Slot &b) { return memcmp(&a, &b, sizeof a) == 0; }

// returns 0 if the transition may be executed, otherwise the signal number
// (or -1 for a hang) recorded when it killed an earlier child.
inline int enter(const Slot &s)
{
    Shared *sh = shared();
    if (!sh) { return 0; }
    for (int i = 0; i < sh->nskip; ++i)
    {
        if (slot_eq(sh->skip[i].s, s)) { return sh->skip[i].sig; }
    }
    sh->cur = s;
    sh->cur_valid = 1;
    ++sh->progress;
    return 0;
}
inline void tick()
{
    if (shared()) { ++shared()->progress; }
}
inline void leave()
{
    if (shared()) { shared()->cur_valid = 0; }
}
// enumeration harnesses call this at the head of every coarse unit of work (a matrix, a filter order pair, a function on one lattice
// row ...).  If the child is then killed inside the library (SIGSEGV, an ASan / UBSan abort, a hang), the parent reports a violation
// that names the unit instead of a harness error.  `sig` must be a string literal.
inline void mark(const char *sig, uint64_t a = 0, uint64_t b = 0, uint64_t c = 0, uint64_t d = 0)
{
    Shared *sh = shared();
    if (!sh) { return; }
    sh->mark_v[0] = a; sh->mark_v[1] = b; sh->mark_v[2] = c; sh->mark_v[3] = d;
    sh->mark_sig = sig;
    ++sh->progress;
}
inline std::string signame(int s)
{
    if (s == -1) { return "HANG"; }
    const char *n = strsignal(s);
    return n ? n : "signal";
}

// run `body` in forked children until one finishes; returns 0 on success,
// 2 if the child failed outside any published transition (harness problem).
inline int run_contained(const std::function<void()> &body, double hang_s = 20.0)
{
    Shared *sh = (Shared *)mmap(nullptr, sizeof(Shared), PROT_READ | PROT_WRITE, MAP_SHARED | MAP_ANONYMOUS, -1, 0);
    if (sh == MAP_FAILED) { perror("mmap"); return 2; }
    memset((void *)sh, 0, sizeof *sh);
    shared() = sh;
    for (int attempt = 0; attempt < 33; ++attempt)
    {
        fflush(stdout);
        fflush(stderr);
        pid_t pid = fork();
        if (pid < 0) { perror("fork"); return 2; }
        if (pid == 0)
        {
            body();
            fflush(stdout);
            _exit(0);
        }
        int status = 0;
        uint64_t last = sh->progress;
        auto lastt = std::chrono::steady_clock::now();
        bool hung = false;
        for (;;)
        {
            pid_t r = waitpid(pid, &status, WNOHANG);
            if (r == pid) { break; }
            usleep(20000);
            uint64_t p = sh->progress;
            auto now = std::chrono::steady_clock::now();
            if (p != last) { last = p; lastt = now; }
            else if (std::chrono::duration<double>(now - lastt).count() > (sh->cur_valid ? hang_s : 30 * hang_s))
            {
                kill(pid, SIGKILL);
                waitpid(pid, &status, 0);
                hung = true;
                break;
            }
        }
        if (!hung && WIFEXITED(status) && WEXITSTATUS(status) == 0) { return 0; }
        int sig = hung ? -1 : (WIFSIGNALED(status) ? WTERMSIG(status) : 1000 + WEXITSTATUS(status));
        if (!sh->cur_valid && sh->mark_sig)
        {
            // an enumeration harness died inside a marked unit of work: that is a finding about the code under test
            std::string where = std::string(sh->mark_sig) + " [" + std::to_string(sh->mark_v[0]) + "," + std::to_string(sh->mark_v[1]) + "," + std::to_string(sh->mark_v[2]) + "," + std::to_string(sh->mark_v[3]) + "]";
            std::string how = hung ? "made no progress (hang)" : "killed the process (" + signame(sig > 999 ? 0 : sig) + ", status " + std::to_string(sig) + ": a crash or a sanitizer abort inside the library)";
            viol(std::string("crash|") + sh->mark_sig, "the unit of work " + where + " " + how + "; the enumeration stops here", "{\"unit\":" + jstr(where) + "}");
            book().flush_counts();
            done(false, "stopped at the first crash");
            return 0;
        }
        if (!sh->cur_valid || sh->nskip >= 32)
        {
            fprintf(stderr, "vx: child died outside a published transition (status %d)\n", sig);
            emit_line("{\"t\":\"broken\",\"why\":\"child died outside a published transition, status " + std::to_string(sig) + "\"}");
            return 2;
        }
        sh->skip[sh->nskip].s = sh->cur;
        sh->skip[sh->nskip].sig = sig;
        ++sh->nskip;
        sh->cur_valid = 0;
        emit_line("{\"t\":\"restart\",\"why\":\"child died (" + signame(sig > 999 ? 0 : sig) + " / status " + std::to_string(sig) + "); re-running with that transition skipped\"}");
    }
    return 2;
}

// ---------------------------------------------------------------- args
struct Args
{
    std::vector<std::string> v;
    Args(int argc, char **argv) { for (int i = 1; i < argc; ++i) { v.push_back(argv[i]); } }
    std::string get(const std::string &k, const std::string &def = "") const
    {
        for (size_t i = 0; i + 1 < v.size(); ++i) { if (v[i] == "--" + k) { return v[i + 1]; } }
        return def;
    }
    long geti(const std::string &k, long def) const
    {
        std::string s = get(k);
        return s.empty() ? def : atol(s.c_str());
    }
    double getd(const std::string &k, double def) const
    {
        std::string s = get(k);
        return s.empty() ? def : atof(s.c_str());
    }
    bool has(const std::string &k) const
    {
        for (auto &s : v) { if (s == "--" + k) { return true; } }
        return false;
    }
};

} // namespace vx
