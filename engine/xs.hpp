// xs.hpp — explicit-state breadth-first explorer over the real implementation.
// DESIGN.md §2 E1.
//
// A harness H provides
//   std::string init_key();
//   void expand(const std::string &key, uint32_t id, xs::Sink &out);
//       decode `key` into a fresh real object for every enabled operation,
//       execute the real library call in lock-step with the reference model,
//       check, and report: out.succ(op, key') | out.viol(op, sig, what)
//   bool replay(const std::vector<xs::Op> &path, std::string &key, std::string &err);
//       re-execute a history through the public API only (constructor + calls,
//       no field writes), checking at every step; returns the final key
//   std::string op_str(const xs::Op &);
#pragma once
#include "vx.hpp"
#include <unordered_map>
#include <map>

namespace xs {

struct Op
{
    int32_t code = 0;
    int64_t a = 0, b = 0, c = 0;
};

struct Node
{
    uint32_t parent;
    uint32_t depth;
    Op op;
};

struct Stats
{
    uint64_t states = 0, transitions = 0, self_loops = 0, replays = 0, replay_steps = 0, max_depth = 0;
    uint64_t crashes = 0;
    std::map<std::string, uint64_t> per_op;                      // transitions per operation name
    std::map<std::string, std::map<std::string, uint64_t>> outcome; // op name -> outcome class -> count
    bool fixpoint = false;
    bool capped = false;
    std::string cap_note;
};

template <class H>
class Explorer;

struct Sink
{
    virtual void succ(const Op &op, const std::string &key, const char *opname, const char *outcome) = 0;
    virtual void viol(const Op &op, const std::string &sig, const std::string &what) = 0;
    virtual bool enter(const Op &op) = 0; // false: transition is known to crash; already reported
    virtual void leave() = 0;
    virtual ~Sink() {}
};

template <class H>
class Explorer : public Sink
{
public:
    H &h;
    std::vector<Node> nodes;
    std::vector<const std::string *> keys;
    std::unordered_map<std::string, uint32_t> index;
    Stats st;
    uint32_t cur = 0;
    bool validate_replay = true;
    uint64_t max_states = ~0ull;
    std::string job;

    explicit Explorer(H &hh) : h(hh) {}

    std::vector<Op> path_to(uint32_t id) const
    {
        std::vector<Op> p;
        while (id != 0)
        {
            p.push_back(nodes[id].op);
            id = nodes[id].parent;
        }
        return std::vector<Op>(p.rbegin(), p.rend());
    }
    std::string path_json(const std::vector<Op> &p) const
    {
        std::string s = "[";
        for (size_t i = 0; i < p.size(); ++i)
        {
            if (i) { s += ","; }
            s += vx::jstr(h.op_str(p[i]));
        }
        return s + "]";
    }
    std::string replay_json(uint32_t id, const Op *extra) const
    {
        std::vector<Op> p = path_to(id);
        if (extra) { p.push_back(*extra); }
        std::string raw = "[";
        for (size_t i = 0; i < p.size(); ++i)
        {
            if (i) { raw += ","; }
            raw += "[" + std::to_string(p[i].code) + "," + std::to_string(p[i].a) + "," + std::to_string(p[i].b) + "," + std::to_string(p[i].c) + "]";
        }
        raw += "]";
        return "{\"job\":" + vx::jstr(job) + ",\"state\":" + vx::jstr(h.key_str(*keys[id])) + ",\"ops\":" + path_json(p) + ",\"raw\":" + raw + "}";
    }

    // Sink
    void succ(const Op &op, const std::string &key, const char *opname, const char *outcome) override
    {
        ++st.transitions;
        ++st.per_op[opname];
        ++st.outcome[opname][outcome];
        auto it = index.find(key);
        if (it != index.end())
        {
            if (it->second == cur) { ++st.self_loops; }
            return;
        }
        if (nodes.size() >= max_states)
        {
            st.capped = true;
            st.cap_note = "state cap reached";
            return;
        }
        uint32_t id = (uint32_t)nodes.size();
        auto ins = index.emplace(key, id);
        keys.push_back(&ins.first->first);
        nodes.push_back({cur, nodes[cur].depth + 1, op});
        if (nodes[id].depth > st.max_depth) { st.max_depth = nodes[id].depth; }
        if (validate_replay)
        {
            std::vector<Op> p = path_to(id);
            std::string k2, err;
            // the replay runs constructor, operations and destructor of the real code outside any published transition: a crash in it
            // is a finding about the code under test (named by the number of the state being rebuilt), not a harness error
            vx::mark("API-only replay (constructor, operations, destruction) of reachable state number", (uint64_t)id, (uint64_t)p.size());
            bool ok = h.replay(p, k2, err);
            vx::mark(nullptr);
            ++st.replays;
            st.replay_steps += p.size();
            if (!ok)
            {
                vx::viol("replay|" + err, "API-only replay of the BFS-shortest history violates a check: " + err, replay_json(id, nullptr));
            }
            else if (k2 != key)
            {
                // decode-by-construction and constructor+API history disagree: the harness is wrong
                vx::emit_line("{\"t\":\"broken\",\"why\":" + vx::jstr("canon-on-replay mismatch: decoded " + h.key_str(key) + " vs replayed " + h.key_str(k2) + " after " + path_json(p)) + "}");
                fflush(stdout);
                _exit(4);
            }
        }
    }
    void viol(const Op &op, const std::string &sig, const std::string &what) override
    {
        ++st.transitions;
        vx::viol(sig, what, replay_json(cur, &op));
    }
    bool enter(const Op &op) override
    {
        vx::Slot s;
        s.w[0] = cur;
        s.w[1] = (uint64_t)op.code;
        s.w[2] = (uint64_t)op.a;
        s.w[3] = (uint64_t)op.b;
        s.w[4] = (uint64_t)op.c;
        s.w[5] = std::hash<std::string>()(job);
        int r = vx::enter(s);
        if (r == 0) { return true; }
        ++st.crashes;
        ++st.transitions;
        vx::viol(std::string("crash|") + h.op_sig(op, *keys[cur]),
                 "the operation " + h.op_str(op) + " in state " + h.key_str(*keys[cur]) + " killed the process (" + vx::signame(r > 999 ? 0 : r) + ", status " + std::to_string(r) + ")",
                 replay_json(cur, &op));
        return false;
    }
    void leave() override { vx::leave(); }

    void run()
    {
        std::string k0 = h.init_key();
        auto ins = index.emplace(k0, 0);
        keys.push_back(&ins.first->first);
        nodes.push_back({0, 0, Op()});
        for (cur = 0; cur < nodes.size(); ++cur)
        {
            if ((cur & 0x3ff) == 0 && vx::deadline().expired())
            {
                st.capped = true;
                st.cap_note = "wall-clock deadline reached inside a bound";
                break;
            }
            std::string key = *keys[cur];
            h.expand(key, cur, *this);
        }
        st.states = nodes.size();
        st.fixpoint = !st.capped;
    }

    void emit_stats(const std::string &label)
    {
        vx::stat("states", (long long)st.states);
        vx::stat("transitions", (long long)st.transitions);
        vx::stat("self_loops", (long long)st.self_loops);
        vx::stat("traces_validated_against_impl", (long long)st.replays);
        vx::stat("replay_steps", (long long)st.replay_steps);
        vx::maxstat("max_depth", (long long)st.max_depth);
        std::string j = "{\"states\":" + std::to_string(st.states) + ",\"transitions\":" + std::to_string(st.transitions) +
                        ",\"max_depth\":" + std::to_string(st.max_depth) + ",\"fixpoint\":" + (st.fixpoint ? "true" : "false") +
                        ",\"capped\":" + (st.capped ? vx::jstr(st.cap_note) : "false") + ",\"per_op\":{";
        bool first = true;
        for (auto &kv : st.per_op)
        {
            if (!first) { j += ","; }
            first = false;
            j += vx::jstr(kv.first) + ":{\"n\":" + std::to_string(kv.second) + ",\"outcomes\":{";
            bool f2 = true;
            for (auto &o : st.outcome[kv.first])
            {
                if (!f2) { j += ","; }
                f2 = false;
                j += vx::jstr(o.first) + ":" + std::to_string(o.second);
            }
            j += "}}";
        }
        j += "}}";
        vx::info(label.c_str(), j);
    }
    // a few written-out histories for the evidence
    void emit_samples(size_t n)
    {
        if (nodes.empty()) { return; }
        for (size_t i = 0; i < n; ++i)
        {
            uint32_t id = (uint32_t)((nodes.size() - 1) * (i + 1) / n);
            vx::sample("{\"job\":" + vx::jstr(job) + ",\"history\":" + path_json(path_to(id)) + ",\"reaches\":" + vx::jstr(h.key_str(*keys[id])) + "}");
        }
    }
};


// ------------------------------------------------------------------ replay
// `raw` is "code,a,b,c;code,a,b,c;...": a recorded history ending in the
// failing transition.  The prefix is rebuilt through the public API only; the
// last transition is then executed on that API-built object.  Everything is
// done twice and the observations must be identical (same schedule must fail
// every time) before a verdict is printed.
inline bool parse_raw(const std::string &raw, std::vector<Op> &ops)
{
    size_t i = 0;
    while (i < raw.size())
    {
        Op o;
        long long v[4] = {0, 0, 0, 0};
        for (int f = 0; f < 4; ++f)
        {
            char *end = nullptr;
            v[f] = strtoll(raw.c_str() + i, &end, 10);
            if (end == raw.c_str() + i) { return false; }
            i = (size_t)(end - raw.c_str());
            if (f < 3) { if (i >= raw.size() || raw[i] != ',') { return false; } ++i; }
        }
        o.code = (int32_t)v[0]; o.a = v[1]; o.b = v[2]; o.c = v[3];
        ops.push_back(o);
        if (i < raw.size()) { if (raw[i] != ';') { return false; } ++i; }
    }
    return true;
}

struct OneSink : Sink
{
    Op target;
    std::vector<std::string> obs;
    bool hit = false;
    static bool same(const Op &x, const Op &y) { return x.code == y.code && x.a == y.a && x.b == y.b && x.c == y.c; }
    void succ(const Op &op, const std::string &key, const char *, const char *outcome) override
    {
        if (same(op, target)) { obs.push_back(std::string("ok|") + outcome + "|" + key); }
    }
    void viol(const Op &op, const std::string &sig, const std::string &what) override
    {
        if (same(op, target)) { obs.push_back("VIOLATION|" + sig + "|" + what); }
    }
    bool enter(const Op &op) override
    {
        if (same(op, target)) { hit = true; return true; }
        return false;
    }
    void leave() override {}
};

template <class H>
int replay_main(H &h, const std::string &raw)
{
    std::vector<Op> ops;
    if (!parse_raw(raw, ops) || ops.empty()) { fprintf(stderr, "bad --replay-raw\n"); return 2; }
    std::vector<std::string> runs[2];
    for (int round = 0; round < 2; ++round)
    {
        std::vector<Op> prefix(ops.begin(), ops.end() - 1);
        std::string key, err;
        for (size_t i = 0; i < prefix.size(); ++i) { printf("%s  step %zu: %s\n", round ? "(again)" : "replay ", i, h.op_str(prefix[i]).c_str()); }
        if (!h.replay(prefix, key, err))
        {
            runs[round].push_back("VIOLATION|" + err);
            continue;
        }
        printf("%s  state: %s\n", round ? "(again)" : "replay ", h.key_str(key).c_str());
        printf("%s  final: %s\n", round ? "(again)" : "replay ", h.op_str(ops.back()).c_str());
        h.via_api = &prefix;
        OneSink sink;
        sink.target = ops.back();
        h.expand(key, 0, sink);
        h.via_api = nullptr;
        if (!sink.hit) { runs[round].push_back("final operation not enabled in the replayed state"); }
        runs[round].insert(runs[round].end(), sink.obs.begin(), sink.obs.end());
    }
    if (runs[0] != runs[1]) { printf("REPLAY-NONDETERMINISTIC\n"); return 2; }
    bool bad = false;
    for (auto &o : runs[0])
    {
        printf("observed: %s\n", o.c_str());
        if (o.compare(0, 9, "VIOLATION") == 0) { bad = true; }
    }
    printf(bad ? "REPLAY-VIOLATION (identical on both runs)\n" : "REPLAY-OK (identical on both runs)\n");
    return bad ? 1 : 0;
}

} // namespace xs
