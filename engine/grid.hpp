// grid.hpp — bounded-exhaustive enumeration of finite input domains (DESIGN.md §2 E3).
// A harness enumerates a stated finite domain completely (optionally sharded over
// processes by its outermost loop), compares every evaluation with an exact
// reference, and reports counts that are measured, not assumed.
#pragma once
#include "vx.hpp"
#include <cinttypes>

namespace grid {

struct Shard
{
    long idx = 0, n = 1;
    // does element i of the outermost loop belong to this shard?
    // (every item that is taken is also published as the current unit of work: a crash inside the library is then reported as a
    // violation naming the item, see vx::mark)
    const char *label = "enumeration item (index of the harness's outer loop)";
    bool mine(uint64_t i) const
    {
        bool m = (long)(i % (uint64_t)n) == idx;
        if (m) { vx::mark(label, i, (uint64_t)idx, (uint64_t)n); }
        return m;
    }
    // contiguous range split of [0, total)
    void range(uint64_t total, uint64_t &lo, uint64_t &hi) const
    {
        uint64_t per = total / (uint64_t)n, rem = total % (uint64_t)n;
        lo = per * (uint64_t)idx + ((uint64_t)idx < rem ? (uint64_t)idx : rem);
        hi = lo + per + ((uint64_t)idx < rem ? 1 : 0);
    }
};

struct Counter
{
    uint64_t evaluations = 0, nontrivial = 0;
    std::string part;
};

struct Run
{
    Shard shard;
    std::string job, tier;
    uint64_t evaluations = 0, nontrivial = 0;
    std::vector<std::pair<std::string, std::pair<uint64_t, uint64_t>>> parts;
    uint64_t ticks = 0;
    int samples_left = 4;

    void init(const vx::Args &a)
    {
        shard.idx = a.geti("shard", 0);
        shard.n = a.geti("nshards", 1);
        job = a.get("job", "grid");
        tier = a.get("tier", "quick");
        vx::deadline().limit_s = a.getd("deadline", 1e18);
    }
    // call regularly from long loops: keeps the hang detector informed
    inline void tick()
    {
        if ((++ticks & 0xfffff) == 0) { vx::tick(); }
    }
    void part(const std::string &name, uint64_t evals, uint64_t nontriv)
    {
        evaluations += evals;
        nontrivial += nontriv;
        parts.push_back({name, {evals, nontriv}});
    }
    void sample(const std::string &json)
    {
        if (samples_left-- > 0 && shard.idx == 0) { vx::sample("{\"job\":" + vx::jstr(job) + ",\"case\":" + json + "}"); }
    }
    void viol(const std::string &sig, const std::string &what, const std::string &input_json)
    {
        vx::viol(sig, what, "{\"job\":" + vx::jstr(job) + ",\"input\":" + input_json + "}");
    }
    void finish(bool exhaustive, const std::string &note = "")
    {
        vx::stat("evaluations", (long long)evaluations);
        vx::stat("distinct_nontrivial", (long long)nontrivial);
        std::string j = "{";
        for (size_t i = 0; i < parts.size(); ++i)
        {
            if (i) { j += ","; }
            j += vx::jstr(parts[i].first) + ":{\"evaluations\":" + std::to_string(parts[i].second.first) + ",\"nontrivial\":" + std::to_string(parts[i].second.second) + "}";
        }
        vx::info("parts", j + "}");
        vx::book().flush_counts();
        vx::done(exhaustive, note);
    }
};

inline std::string hex(uint64_t v)
{
    char b[32];
    snprintf(b, sizeof b, "\"0x%" PRIX64 "\"", v);
    return b;
}

} // namespace grid
