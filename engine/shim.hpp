// shim.hpp — allocator shim installed through liba's public seam `a_alloc`
// (include/a/a.h).  Ledger of every block, 64-byte canaries on both sides,
// grow-always-moves with the old block poisoned and quarantined, request
// counting and fault injection (fail request k only / every request >= k).
// DESIGN.md §2 E2.
#pragma once
#include <cstdint>
#include <cstdlib>
#include <cstring>
#include <map>
#include <vector>
#include <string>

extern "C" {
#include "a/a.h"
}

namespace shim {

enum { RZ = 64 };
struct Block
{
    size_t size;
    bool live;
    unsigned char *raw;
};
struct State
{
    std::map<void *, Block> ledger;       // payload address -> block (live and quarantined)
    std::vector<void *> quarantine;
    long requests = 0;                    // allocation requests that could fail (fresh or grow), counted per arm()
    long fail_at = -1;                    // request index that fails
    bool fail_from = false;               // ... and every later one
    long failed = 0;
    std::string error;                    // first ledger error (double free, unknown pointer, canary)
    long live_blocks = 0;
    long total_requests = 0;
};
inline State &st()
{
    static State s;
    return s;
}
inline void err(const std::string &e)
{
    if (st().error.empty()) { st().error = e; }
}

inline unsigned char canary_byte(int i) { return (unsigned char)(0xFD ^ (i * 37 + (i >> 3))); }
inline void *raw_new(size_t size)
{
    unsigned char *raw = (unsigned char *)malloc(size + 2 * RZ);
    if (!raw) { abort(); }
    // the red zones carry a position-dependent pattern: a block move that runs off the end copies red-zone bytes onto red-zone bytes,
    // which a uniform fill would not notice
    for (int i = 0; i < RZ; ++i) { raw[i] = canary_byte(i); raw[RZ + size + (size_t)i] = canary_byte(RZ + i); }
    memset(raw + RZ, 0xA5, size); // fresh memory is poison-patterned: read-before-write is visible in the contents
    void *p = raw + RZ;
    st().ledger[p] = Block{size, true, raw};
    ++st().live_blocks;
    return p;
}
inline bool canaries_ok(const Block &b)
{
    for (int i = 0; i < RZ; ++i)
    {
        if (b.raw[i] != canary_byte(i) || b.raw[RZ + b.size + (size_t)i] != canary_byte(RZ + i)) { return false; }
    }
    return true;
}
inline void retire(void *p, Block &b)
{
    if (!canaries_ok(b)) { err("write outside an allocated block (canary destroyed, block of " + std::to_string(b.size) + " bytes)"); }
    memset(b.raw + RZ, 0xDD, b.size);
    b.live = false;
    --st().live_blocks;
    st().quarantine.push_back(p);
}

inline void *alloc(void *addr, a_size size)
{
    State &s = st();
    if (size == 0)
    {
        if (!addr) { return nullptr; }
        auto it = s.ledger.find(addr);
        if (it == s.ledger.end()) { err("free of a pointer the allocator never returned"); return nullptr; }
        if (!it->second.live) { err("double free"); return nullptr; }
        retire(addr, it->second);
        return nullptr;
    }
    long idx = s.requests++;
    ++s.total_requests;
    if (s.fail_at >= 0 && (idx == s.fail_at || (s.fail_from && idx > s.fail_at)))
    {
        ++s.failed;
        return nullptr; // like realloc: the old block stays valid
    }
    if (size > ((size_t)1 << 30)) { return nullptr; } // absurd request (wrapped size): refuse like a real allocator
    if (!addr) { return raw_new(size); }
    auto it = s.ledger.find(addr);
    if (it == s.ledger.end()) { err("realloc of a pointer the allocator never returned"); return nullptr; }
    if (!it->second.live) { err("realloc of a freed block"); return nullptr; }
    size_t old = it->second.size;
    void *p = raw_new(size);
    it = s.ledger.find(addr);
    memcpy(p, addr, old < size ? old : size);
    retire(addr, it->second); // grow always moves: stale pointers into the old block are visible
    return p;
}

inline void install() { a_alloc = alloc; }

// verify every canary and that quarantined blocks were not written after release
inline bool check()
{
    State &s = st();
    for (auto &kv : s.ledger)
    {
        const Block &b = kv.second;
        if (!canaries_ok(b)) { err("write outside an allocated block (canary destroyed, block of " + std::to_string(b.size) + " bytes)"); }
        if (!b.live)
        {
            for (size_t i = 0; i < b.size; ++i)
            {
                if (b.raw[RZ + i] != 0xDD) { err("write into a block after it was released or reallocated"); break; }
            }
        }
    }
    return s.error.empty();
}
inline bool is_live(const void *p) // p is the start of a live block
{
    auto it = st().ledger.find((void *)p);
    return it != st().ledger.end() && it->second.live;
}
inline size_t size_of(const void *p)
{
    auto it = st().ledger.find((void *)p);
    return it == st().ledger.end() ? 0 : it->second.size;
}
// is [p, p+n) inside one live block?
inline bool inside_live(const void *p, size_t n)
{
    auto &L = st().ledger;
    auto it = L.upper_bound((void *)p);
    if (it == L.begin()) { return false; }
    --it;
    const Block &b = it->second;
    const unsigned char *lo = (const unsigned char *)it->first;
    return b.live && (const unsigned char *)p >= lo && (const unsigned char *)p + n <= lo + b.size;
}
// release everything and start afresh (between transitions)
inline void reset()
{
    State &s = st();
    for (auto &kv : s.ledger) { free(kv.second.raw); }
    s.ledger.clear();
    s.quarantine.clear();
    s.requests = 0;
    s.fail_at = -1;
    s.fail_from = false;
    s.failed = 0;
    s.error.clear();
    s.live_blocks = 0;
}
inline void arm(long k, bool from)
{
    st().requests = 0;
    st().fail_at = k;
    st().fail_from = from;
    st().failed = 0;
}
inline void disarm()
{
    st().fail_at = -1;
    st().fail_from = false;
}

} // namespace shim
