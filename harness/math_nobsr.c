/* math_nobsr.c - src/math.c as a compiler without a count-leading-zeros builtin (and without GNU extensions) gets it:
   A_U32_BSR / A_U64_BSR stay undefined and the integer square roots take their digit-by-digit fallback bodies.
   The system headers come first, before the feature tests are switched off (they use the same tests themselves). */
#include <float.h>
#include <limits.h>
#include <math.h>
#include <stddef.h>
#include <stdint.h>
#include <stdlib.h>
#include <string.h>
#include "a/a.h"
#include "a/math.h"
#undef A_PREREQ_GNUC
#define A_PREREQ_GNUC(maj, min) 0
#undef __has_builtin
#define __has_builtin(x) 0
#include "math.c"
#if defined(A_U32_BSR) || defined(A_U64_BSR)
#error "the fallback bodies were not selected"
#endif
