// seq.cpp — explicit-state exploration of the growable vector (-DSEQ_VEC) and
// the fixed-capacity buffer (-DSEQ_BUF) against an abstract sequence.  C04
// (and, with --faults 1, the vector/buffer part of C07).  DESIGN.md §4.C04.
//
// usage: seq --n N --siz S [--siz2 S2] [--mem0 M] [--memcap C] [--deadline S] [--faults 1]
#include "../engine/xs.hpp"
#include "../engine/shim.hpp"
#include <algorithm>

extern "C" {
#if defined(SEQ_VEC)
#include "a/vec.h"
#define CNAME "vec"
typedef a_vec cont;
#define F(x) a_vec_##x
#else
#include "a/buf.h"
#define CNAME "buf"
typedef a_buf cont;
#define F(x) a_buf_##x
#endif
}

static const long SMAX = -1; // stands for (a_size)-1, the "end" sentinel
// further out-of-range indices whose product with the element size wraps around modulo 2^64:
// -2: 2^63, -3: SIZE_MAX / siz + 1 (the product wraps to less than siz), -4: SIZE_MAX / siz + 2 (wraps into the second element)
static const long IHALF = -2, IWRAP0 = -3, IWRAP1 = -4;
static inline a_size idx_val(long v, size_t siz)
{
    if (v >= 0) { return (a_size)v; }
    if (v == SMAX) { return (a_size)-1; }
    if (v == IHALF) { return (a_size)1 << (sizeof(a_size) * 8 - 1); }
    if (siz <= 1) { return (a_size)-1 - (a_size)(SMAX - v); }
    return (a_size)-1 / siz + (a_size)(v == IWRAP0 ? 1 : 2);
}

enum
{
    OP_PUSH_BACK = 1, OP_PUSH_FORE, OP_INSERT, OP_PULL_BACK, OP_PULL_FORE, OP_REMOVE, OP_STORE, OP_ERASE,
    OP_SETN, OP_SETM, OP_SETZ, OP_SORT, OP_SORT_FORE, OP_SORT_BACK, OP_PUSH_SORT, OP_SEARCH, OP_SWAP, OP_ACCESS, OP_NEW, OP_DIE
};
static const char *op_names[] = {"?", "push_back", "push_fore", "insert", "pull_back", "pull_fore", "remove", "store", "erase",
                                 "setn", "setm", "setz", "sort", "sort_fore", "sort_back", "push_sort", "search", "swap", "access", "new", "die"};

// ------------------------------------------------------------------ elements
// byte 0 = key<<4 | serial; the other bytes are a fixed function of (byte0, index) so that a
// move with a wrong size or stride tears an element visibly.  cmp looks at the key only.
static inline unsigned char ebyte(unsigned char b0, size_t j) { return j == 0 ? b0 : (unsigned char)(b0 * 31u + j * 17u + 5u); }
static void fill_elem(void *p, unsigned char b0, size_t siz)
{
    for (size_t j = 0; j < siz; ++j) { ((unsigned char *)p)[j] = ebyte(b0, j); }
}
static bool elem_is(const void *p, unsigned char b0, size_t siz)
{
    for (size_t j = 0; j < siz; ++j) { if (((const unsigned char *)p)[j] != ebyte(b0, j)) { return false; } }
    return true;
}
// the key handed to push_sort is documented as "the key on the right", the object handed to search goes to the left (bsearch):
// callers may rely on it with a key of another layout than the elements.  The key is recognised by its address.
static const void *g_key_ptr;
static int g_key_side; // 0: not checked, 1: the key must be the left argument, 2: the right one
static bool g_key_side_bad;
static int cmp_key(void const *l, void const *r)
{
    if (g_key_side == 1 && l != g_key_ptr) { g_key_side_bad = true; }
    if (g_key_side == 2 && r != g_key_ptr) { g_key_side_bad = true; }
    int a = *(unsigned char const *)l >> 4, b = *(unsigned char const *)r >> 4;
    // any negative / zero / positive value is a valid answer: magnitudes other than one catch code that uses the result as +-1
    return a > b ? 3 : a < b ? -5 : 0;
}
static std::vector<unsigned char> dtor_log;
static size_t g_siz = 1;
static void log_dtor(void *p) { dtor_log.push_back(*(unsigned char *)p); }
static int copy_elem(void *dst, void const *src)
{
    memcpy(dst, src, g_siz);
    return 0;
}
// a copy callback that refuses its g_copy_fail_at-th call (nothing written, failure returned) and copies otherwise
static int g_copy_calls, g_copy_fail_at;
static int copy_elem_failing(void *dst, void const *src)
{
    if (g_copy_calls++ == g_copy_fail_at) { return A_FAILURE; }
    memcpy(dst, src, g_siz);
    return 0;
}

typedef std::vector<unsigned char> Model; // byte0 of every element, in order

struct Live
{
    cont *c = nullptr;  // the real container (heap object from the shim)
    cont *aux = nullptr;
    Model m;
    unsigned char *data() const
    {
#if defined(SEQ_VEC)
        return (unsigned char *)c->ptr_;
#else
        return (unsigned char *)(c + 1);
#endif
    }
    size_t siz() const { return c->siz_; }
    size_t num() const { return c->num_; }
    size_t mem() const { return c->mem_; }
};

static unsigned char fresh_b0(const Model &m, int key)
{
    for (int s = 0; s < 16; ++s)
    {
        unsigned char b = (unsigned char)(key << 4 | s);
        if (std::find(m.begin(), m.end(), b) == m.end()) { return b; }
    }
    return (unsigned char)(key << 4 | 15);
}

// ------------------------------------------------------------------ key
// [siz][mem][num] then one byte per element: its key (serials are dropped: the code never looks at them)
static std::string encode(const Live &L)
{
    std::string k;
    k += (char)L.siz();
    k += (char)L.mem();
    k += (char)L.num();
    unsigned char *d = L.data();
    for (size_t i = 0; i < L.num(); ++i) { k += (char)('0' + (d[i * L.siz()] >> 4)); }
    return k;
}

struct Ck
{
    std::string cls, err;
    bool fail(const char *c, const std::string &d)
    {
        if (err.empty()) { cls = c; err = std::string(c) + ": " + d; }
        return false;
    }
    bool ok() const { return err.empty(); }
};

// container invariants + byte-for-byte agreement with the model
static bool check_state(const Live &L, Ck &ck)
{
    const cont *c = L.c;
    if (c->num_ > c->mem_) { return ck.fail("count-exceeds-capacity", "num " + std::to_string(c->num_) + " > mem " + std::to_string(c->mem_)); }
    if (c->siz_ == 0) { return ck.fail("zero-size", "element size field is 0"); }
#if defined(SEQ_VEC)
    if (c->mem_ && !c->ptr_) { return ck.fail("null-storage", "capacity without storage"); }
    if (c->ptr_ && (!shim::is_live(c->ptr_) || shim::size_of(c->ptr_) < c->mem_ * c->siz_))
    {
        return ck.fail("capacity-not-owned", "the vector claims " + std::to_string(c->mem_ * c->siz_) + " bytes but owns " + std::to_string(shim::size_of(c->ptr_)));
    }
#else
    if (!shim::is_live(c) || shim::size_of(c) < sizeof(a_buf) + c->mem_ * c->siz_)
    {
        return ck.fail("capacity-not-owned", "the buffer claims " + std::to_string(c->mem_ * c->siz_) + " bytes of element storage but owns " + std::to_string(shim::size_of(c) - (shim::size_of(c) >= sizeof(a_buf) ? sizeof(a_buf) : 0)));
    }
#endif
    if (c->num_ != L.m.size()) { return ck.fail("length", "container holds " + std::to_string(c->num_) + " elements, abstract sequence " + std::to_string(L.m.size())); }
    unsigned char *d = L.data();
    for (size_t i = 0; i < L.m.size(); ++i)
    {
        if (!elem_is(d + i * c->siz_, L.m[i], c->siz_)) { return ck.fail("contents", "element " + std::to_string(i) + " differs from the abstract sequence"); }
    }
    if (!shim::check()) { return ck.fail("memory", shim::st().error); }
    return true;
}
static bool ptr_inside(const Live &L, const void *p, Ck &ck, const char *what)
{
    const unsigned char *lo = L.data(), *q = (const unsigned char *)p;
    if (!p || q < lo || q + L.siz() > lo + L.mem() * L.siz() || (size_t)(q - lo) % L.siz() != 0)
    {
        return ck.fail("pointer-outside", std::string(what) + " returned a pointer outside the storage the container owns");
    }
    return true;
}
static bool is_sorted_model(const Model &m, size_t from, size_t to)
{
    for (size_t i = from + 1; i < to; ++i) { if ((m[i - 1] >> 4) > (m[i] >> 4)) { return false; } }
    return true;
}
static bool same_multiset(Model a, Model b)
{
    std::sort(a.begin(), a.end());
    std::sort(b.begin(), b.end());
    return a == b;
}
static Model read_model(const Live &L)
{
    Model m;
    for (size_t i = 0; i < L.num(); ++i) { m.push_back(L.data()[i * L.siz()]); }
    return m;
}

struct Harness
{
    int N = 4;
    size_t siz0 = 1, siz2 = 0;
    size_t mem0 = 4;    // buffer: initial capacity
    size_t memcap = 12; // setm is offered only below this capacity (keeps the space finite)
    int nkeys = 3;
    bool faults = false;
    bool typed = true; // typed-macro conformance in the accessor step (not repeated in the fault jobs)
    std::string job;
    const std::vector<xs::Op> *via_api = nullptr;
    uint64_t fault_runs = 0, fault_requests = 0;

    // ---------------------------------------------------------------- build
    std::string init_key()
    {
        Live L;
        shim::reset();
        construct(L);
        std::string k = encode(L);
        return k;
    }
    void construct(Live &L)
    {
#if defined(SEQ_VEC)
        L.c = a_vec_new(siz0);
#else
        L.c = a_buf_new(siz0, mem0);
#endif
        L.m.clear();
    }
    void decode(Live &L, const std::string &key)
    {
        size_t siz = (unsigned char)key[0], mem = (unsigned char)key[1], num = (unsigned char)key[2];
#if defined(SEQ_VEC)
        L.c = (cont *)a_alloc(nullptr, sizeof(a_vec));
        a_vec_ctor(L.c, siz);
        if (mem) { L.c->ptr_ = a_alloc(nullptr, mem * siz); }
        L.c->mem_ = mem;
#else
        L.c = (cont *)a_alloc(nullptr, sizeof(a_buf) + siz * mem);
        a_buf_ctor(L.c, siz, mem);
#endif
        L.c->num_ = num;
        L.m.clear();
        for (size_t i = 0; i < num; ++i)
        {
            unsigned char b0 = (unsigned char)((key[3 + i] - '0') << 4 | (i & 15));
            L.m.push_back(b0);
            fill_elem(L.data() + i * siz, b0, siz);
        }
    }
    void make(Live &L, const std::string &key)
    {
        shim::reset();
        if (!via_api) { decode(L, key); return; }
        std::string err;
        if (!api_build(L, *via_api, err) || encode(L) != key) { fprintf(stderr, "replay: cannot rebuild state (%s)\n", err.c_str()); _exit(4); }
    }
    void destroy(Live &L, Ck &ck)
    {
        F(die)(L.c, nullptr);
        L.c = nullptr;
        if (L.aux) { F(die)(L.aux, nullptr); L.aux = nullptr; }
        if (shim::st().live_blocks != 0) { ck.fail("leak", std::to_string(shim::st().live_blocks) + " block(s) still allocated after the container was destroyed"); }
        if (!shim::st().error.empty()) { ck.fail("memory", shim::st().error); }
    }

    std::string key_str(const std::string &k) const
    {
        std::string s = CNAME "{siz=" + std::to_string((unsigned char)k[0]) + " mem=" + std::to_string((unsigned char)k[1]) + " [";
        s += k.substr(3);
        return s + "]}";
    }
    static std::string idx_str(long v) { return v == SMAX ? "SIZE_MAX" : v == IHALF ? "2^63" : v == IWRAP0 ? "SIZE_MAX/siz+1" : v == IWRAP1 ? "SIZE_MAX/siz+2" : std::to_string(v); }
    std::string op_str(const xs::Op &o) const
    {
        std::string s = op_names[o.code];
        switch (o.code)
        {
        case OP_PUSH_BACK: case OP_PUSH_FORE: case OP_PUSH_SORT: case OP_SEARCH: return s + "(key=" + std::to_string(o.a) + ")";
        case OP_INSERT: return s + "(idx=" + idx_str(o.a) + ",key=" + std::to_string(o.b) + ")";
        case OP_REMOVE: return s + "(idx=" + idx_str(o.a) + ")";
        case OP_STORE: return s + "(idx=" + idx_str(o.a) + ",block=" + std::to_string(o.b) + (o.c >= 2 ? ",copy-callback refusing element " + std::to_string(o.c - 2) + ")" : o.c ? ",copy-callback)" : ")");
        case OP_ERASE: return s + "(idx=" + idx_str(o.a) + ",cnt=" + idx_str(o.b) + (o.c ? ",dtor)" : ")");
        case OP_SETN: return s + "(" + std::to_string(o.a) + (o.b ? ",dtor)" : ")");
        case OP_SETM: case OP_SETZ: return s + "(" + std::to_string(o.a) + ")";
        case OP_SWAP: return s + "(aux of " + std::to_string(o.a) + " elements" + (o.b ? " of size " + std::to_string(o.b) : "") + ")";
        case OP_ACCESS: return "accessors";
        }
        return s;
    }
    // signature: function + argument class (in range / boundary / beyond / SIZE_MAX) so that a different failing input of the same property is a different signature
    std::string arg_class(const xs::Op &o, size_t num) const
    {
        auto cls = [&](long v) -> std::string {
            if (v == SMAX) { return "SIZE_MAX"; }
            if (v < 0) { return "wrapping"; }
            if ((size_t)v < num) { return "in-range"; }
            if ((size_t)v == num) { return "at-end"; }
            return "beyond";
        };
        switch (o.code)
        {
        case OP_INSERT: case OP_REMOVE: case OP_STORE: return "idx:" + cls(o.a);
        case OP_ERASE: return "idx:" + cls(o.a) + ",cnt:" + (o.b == SMAX ? "SIZE_MAX" : o.b < 0 ? "wrapping" : (size_t)(o.a < 0 ? 0 : o.a) + (size_t)o.b <= num ? "fits" : "past-end");
        case OP_SETM: return (size_t)o.a < num ? "below-count" : "at-or-above-count";
        case OP_NEW: return "siz=" + std::to_string(o.a);
        }
        return "-";
    }
    std::string op_sig(const xs::Op &o, const std::string &key) const
    {
        return std::string(CNAME "|") + op_names[o.code] + "|" + arg_class(o, (unsigned char)key[2]);
    }

    // ---------------------------------------------------------------- one call on a live object, in lock-step with the model
    // returns false if the call is not applicable; fills ck on a violation; `outcome` names the class of result
    void apply(Live &L, const xs::Op &o, Ck &ck, std::string &outcome)
    {
        cont *c = L.c;
        size_t siz = c->siz_, num = c->num_;
        g_siz = siz;
        Model &m = L.m;
        size_t isiz_ = c->siz_;
        auto A = [isiz_](long v) -> a_size { return idx_val(v, isiz_); };
        bool full = (c->num_ == c->mem_);
#if defined(SEQ_BUF)
        bool fits1 = !full;
#else
        bool fits1 = true;
        (void)full;
#endif
        switch (o.code)
        {
        case OP_PUSH_BACK: case OP_PUSH_FORE: case OP_INSERT:
        {
            int key = (int)(o.code == OP_INSERT ? o.b : o.a);
            size_t at = o.code == OP_PUSH_BACK ? num : o.code == OP_PUSH_FORE ? 0 : (A(o.a) < num ? A(o.a) : num);
            void *p = o.code == OP_PUSH_BACK ? F(push_back)(c) : o.code == OP_PUSH_FORE ? F(push_fore)(c) : F(insert)(c, A(o.a));
            c = L.c;
            if (!fits1)
            {
                outcome = "refused-full";
                if (p) { ck.fail("buffer-overfill", "the full buffer accepted another element"); return; }
                break;
            }
            if (!p) { ck.fail("refused", "the operation failed although it fits"); return; }
            outcome = at == num ? "appended" : "shifted";
            if (!ptr_inside(L, p, ck, op_names[o.code])) { return; }
            if ((size_t)((unsigned char *)p - L.data()) != at * siz) { ck.fail("wrong-slot", "the returned slot is not at index " + std::to_string(at)); return; }
            unsigned char b0 = fresh_b0(m, key);
            fill_elem(p, b0, siz); // the client constructs the new element in place
            m.insert(m.begin() + at, b0);
            break;
        }
        case OP_PULL_BACK: case OP_PULL_FORE: case OP_REMOVE:
        {
            size_t at = o.code == OP_PULL_BACK ? (num ? num - 1 : 0) : o.code == OP_PULL_FORE ? 0 : (num && A(o.a) < num - 1 ? A(o.a) : (num ? num - 1 : 0));
            void *p = o.code == OP_PULL_BACK ? F(pull_back)(c) : o.code == OP_PULL_FORE ? F(pull_fore)(c) : F(remove)(c, A(o.a));
            if (num == 0)
            {
                outcome = "empty";
                if (p) { ck.fail("pull-from-empty", "removal from an empty container returned an element"); return; }
                break;
            }
            outcome = at == num - 1 ? "last" : (full ? "inner-full" : "inner-spare");
            if (!p) { ck.fail("refused", "removal from a non-empty container returned null"); return; }
            if (!ptr_inside(L, p, ck, op_names[o.code])) { return; }
            if (!elem_is(p, m[at], siz)) { ck.fail("removed-element", "the returned pointer does not hold the removed element intact"); return; }
            m.erase(m.begin() + at);
            break;
        }
        case OP_STORE:
        {
            // block 0: empty, 1: one element of key 1, 2: two elements of keys 2,0
            size_t n = (size_t)o.b;
            unsigned char blk[2 * 16];
            unsigned char b0s[2];
            Model tmp = m;
            for (size_t i = 0; i < n; ++i)
            {
                int key = n == 1 ? 1 : (i == 0 ? 2 : 0);
                b0s[i] = fresh_b0(tmp, key);
                tmp.push_back(b0s[i]);
                fill_elem(blk + i * siz, b0s[i], siz);
            }
            size_t at = A(o.a) < num ? A(o.a) : num;
            if (o.c >= 2)
            {
                // the copy callback refuses element number o.c - 2 of the block.  What the slots of refused (or not attempted) elements hold,
                // and whether the count includes them, is not specified; what is: no element that was in the container is lost or
                // reordered, the new slots form one gap at the insertion point, and the count stays within the capacity
                std::string old((const char *)L.data(), num * siz);
                g_copy_calls = 0;
                g_copy_fail_at = (int)o.c - 2;
                (void)F(store)(c, A(o.a), blk, n, copy_elem_failing);
                c = L.c;
                outcome = "copy-refused";
#if defined(SEQ_BUF)
                if (num + n > c->mem_) { if (c->num_ != num || memcmp(L.data(), old.data(), old.size()) != 0) { ck.fail("buffer-overfill", "a store that does not fit changed the buffer"); return; } break; }
#endif
                size_t now = c->num_;
                if (now > c->mem_) { ck.fail("count-exceeds-capacity", "num " + std::to_string(now) + " > mem " + std::to_string(c->mem_) + " after a store whose copy callback refused an element"); return; }
                if (now < num || now > num + n) { ck.fail("store-copy-refused", "a store of " + std::to_string(n) + " element(s) whose copy callback refused one left " + std::to_string(now) + " elements, there were " + std::to_string(num)); return; }
                size_t k = now - num;
                const char *d = (const char *)L.data();
                if (memcmp(d, old.data(), at * siz) != 0 || memcmp(d + (at + k) * siz, old.data() + at * siz, (num - at) * siz) != 0)
                {
                    ck.fail("store-copy-refused", "a store whose copy callback refused an element lost or moved elements that were in the container (" + std::to_string(num) + " before, " + std::to_string(now) + " after, insertion point " + std::to_string(at) + ")");
                    return;
                }
                // the client completes the gap, so that the exploration continues from a specified state
                for (size_t i = 0; i < k; ++i) { fill_elem(L.data() + (at + i) * siz, b0s[i], siz); }
                m.insert(m.begin() + at, b0s, b0s + k);
                break;
            }
            int rc = F(store)(c, A(o.a), blk, n, o.c ? copy_elem : nullptr);
            c = L.c;
#if defined(SEQ_BUF)
            if (num + n > c->mem_)
            {
                outcome = "refused-does-not-fit";
                if (rc != A_OBOUNDS) { ck.fail("buffer-overfill", "store beyond the capacity was not refused with A_OBOUNDS"); return; }
                break;
            }
#endif
            if (rc != A_SUCCESS) { ck.fail("refused", "store failed although it fits (rc " + std::to_string(rc) + ")"); return; }
            outcome = n == 0 ? "empty-block" : (at == num ? "appended" : "shifted");
            m.insert(m.begin() + at, b0s, b0s + n);
            break;
        }
        case OP_ERASE:
        {
            a_size idx = A(o.a), cnt = A(o.b);
            dtor_log.clear();
            int rc = F(erase)(c, idx, cnt, o.c ? log_dtor : nullptr);
            if (idx >= num)
            {
                outcome = "out-of-bounds";
                if (rc != A_OBOUNDS) { ck.fail("erase-bounds", "erase at an index beyond the end did not report A_OBOUNDS"); return; }
                if (!dtor_log.empty()) { ck.fail("erase-dtor", "erase beyond the end destroyed elements"); return; }
                break;
            }
            size_t last = cnt > num - idx ? num : idx + cnt; // past-the-end counts truncate
            outcome = last == num ? "truncated" : (cnt == 0 ? "nothing" : "inner");
            if (rc != A_SUCCESS) { ck.fail("refused", "erase inside the sequence failed (rc " + std::to_string(rc) + ")"); return; }
            if (o.c)
            {
                Model want(m.begin() + idx, m.begin() + last), got = dtor_log;
                if (got != want) { ck.fail("erase-dtor", "the destructor was not called exactly once on each erased element, in order"); return; }
            }
            m.erase(m.begin() + idx, m.begin() + last);
            break;
        }
        case OP_SETN:
        {
            size_t want = (size_t)o.a;
            dtor_log.clear();
#if defined(SEQ_VEC)
            int rc = a_vec_setn(c, want, o.b ? log_dtor : nullptr);
            if (rc != A_SUCCESS) { ck.fail("refused", "setn failed"); return; }
#else
            a_buf_setn(c, want, o.b ? log_dtor : nullptr);
            if (want > c->mem_) { want = c->mem_; }
#endif
            c = L.c;
            outcome = want < num ? "shrunk" : want == num ? "same" : "grown";
            if (o.b && want < num)
            {
                Model w(m.rbegin(), m.rbegin() + (num - want));
                if (dtor_log != w) { ck.fail("setn-dtor", "setn did not destroy exactly the dropped elements, last first"); return; }
            }
            if (o.b && want >= num && !dtor_log.empty()) { ck.fail("setn-dtor", "a growing setn called the destructor"); return; }
            if (c->num_ != want) { ck.fail("length", "setn(" + std::to_string(o.a) + ") left " + std::to_string(c->num_) + " elements"); return; }
            if (c->num_ > c->mem_) { ck.fail("count-exceeds-capacity", "num > mem after setn"); return; }
            while (m.size() > want) { m.pop_back(); }
            while (m.size() < want)
            {
                // new slots are raw storage: the client initialises them
                unsigned char b0 = fresh_b0(m, 1);
                void *p = L.data() + m.size() * siz;
                if (!ptr_inside(L, p, ck, "setn")) { return; }
                fill_elem(p, b0, siz);
                m.push_back(b0);
            }
            break;
        }
        case OP_SETM:
        {
#if defined(SEQ_VEC)
            int rc = a_vec_setm(c, (a_size)o.a);
            if (rc != A_SUCCESS) { ck.fail("refused", "setm failed"); return; }
            outcome = (size_t)o.a > (size_t)0 && c->mem_ >= (size_t)o.a ? "capacity-ok" : "noop";
            if (c->mem_ < (size_t)o.a) { ck.fail("capacity", "setm(" + std::to_string(o.a) + ") left capacity " + std::to_string(c->mem_)); return; }
#else
            a_buf *nb = a_buf_setm(c, (a_size)o.a);
            if (!nb) { ck.fail("refused", "setm failed"); return; }
            L.c = nb;
            outcome = (size_t)o.a < num ? "shrunk-below-count" : "resized";
            if (nb->mem_ != (size_t)o.a) { ck.fail("capacity", "setm(" + std::to_string(o.a) + ") left capacity " + std::to_string(nb->mem_)); return; }
            if (nb->num_ > nb->mem_) { ck.fail("count-exceeds-capacity", "after setm(" + std::to_string(o.a) + ") the count " + std::to_string(nb->num_) + " exceeds the capacity"); return; }
            while (m.size() > nb->num_) { m.pop_back(); } // a shrink below the count necessarily drops the tail
#endif
            break;
        }
        case OP_SETZ:
        {
            size_t bytes = c->mem_ * c->siz_;
            dtor_log.clear();
            F(setz)(c, (a_size)o.a, log_dtor);
            size_t ns = o.a ? (size_t)o.a : 1;
            outcome = "resized-elements";
            Model w(m.rbegin(), m.rend());
            if (dtor_log != w) { ck.fail("setz-dtor", "setz did not destroy every element, last first"); return; }
            if (c->siz_ != ns) { ck.fail("setz-size", "element size after setz(" + std::to_string(o.a) + ") is " + std::to_string(c->siz_)); return; }
            if (c->mem_ * c->siz_ > bytes) { ck.fail("capacity-not-owned", "setz advertises more bytes than the container owns"); return; }
            if (c->mem_ != bytes / ns) { ck.fail("setz-capacity", "capacity after setz is " + std::to_string(c->mem_) + ", the owned bytes hold " + std::to_string(bytes / ns)); return; }
            m.clear();
            break;
        }
        case OP_SORT:
        {
            F(sort)(c, cmp_key);
            Model got = read_model(L);
            outcome = "sorted";
            if (got.size() != m.size() || !same_multiset(got, m)) { ck.fail("sort-lost", "sort lost or duplicated elements"); return; }
            if (!is_sorted_model(got, 0, got.size())) { ck.fail("sort-order", "sort did not sort"); return; }
            m = got; // qsort is not stable: the model adopts the permutation among equal keys
            break;
        }
        case OP_SORT_FORE: case OP_SORT_BACK:
        {
            bool fore = o.code == OP_SORT_FORE;
            bool rest_sorted = num < 2 || (fore ? is_sorted_model(m, 1, num) : is_sorted_model(m, 0, num - 1));
            if (fore) { F(sort_fore)(c, cmp_key); } else { F(sort_back)(c, cmp_key); }
            Model got = read_model(L);
            if (got.size() != m.size() || !same_multiset(got, m)) { ck.fail("sorted-insert-lost", std::string(op_names[o.code]) + " lost or duplicated elements"); return; }
            if (rest_sorted && num >= 2)
            {
                outcome = full ? "sorted-rest-full" : "sorted-rest-spare";
                // exact stable position: fore goes before equal keys, back goes after equal keys
                Model want = m;
                if (fore)
                {
                    unsigned char e = want.front();
                    want.erase(want.begin());
                    size_t i = 0;
                    while (i < want.size() && (want[i] >> 4) < (e >> 4)) { ++i; }
                    want.insert(want.begin() + i, e);
                }
                else
                {
                    unsigned char e = want.back();
                    want.pop_back();
                    size_t i = want.size();
                    while (i > 0 && (want[i - 1] >> 4) > (e >> 4)) { --i; }
                    want.insert(want.begin() + i, e);
                }
                if (!is_sorted_model(got, 0, got.size())) { ck.fail("sorted-insert-order", std::string(op_names[o.code]) + " on a sorted remainder left the sequence unsorted"); return; }
                if (got != want) { ck.fail("sorted-insert-position", std::string(op_names[o.code]) + " on a sorted remainder did not move only the new element to its insertion point"); return; }
            }
            else { outcome = num < 2 ? "trivial" : "unsorted-rest"; }
            m = got;
            break;
        }
        case OP_PUSH_SORT:
        {
            int key = (int)o.a;
            bool sorted = is_sorted_model(m, 0, num);
            unsigned char b0 = fresh_b0(m, key);
            unsigned char probe[16];
            fill_elem(probe, b0, siz);
            g_key_ptr = probe; g_key_side = 2; g_key_side_bad = false;
            void *p = F(push_sort)(c, probe, cmp_key);
            g_key_side = 0;
            c = L.c;
            if (g_key_side_bad) { ck.fail("comparator-arguments", "push_sort called the comparator without the key on the right"); return; }
            if (!fits1)
            {
                outcome = "refused-full";
                if (p) { ck.fail("buffer-overfill", "the full buffer accepted another element"); return; }
                break;
            }
            if (!p) { ck.fail("refused", "push_sort failed although it fits"); return; }
            if (!ptr_inside(L, p, ck, "push_sort")) { return; }
            size_t at = (size_t)((unsigned char *)p - L.data()) / siz;
            if (at > num) { ck.fail("wrong-slot", "push_sort returned a slot beyond the new end"); return; }
            fill_elem(p, b0, siz);
            if (sorted)
            {
                outcome = "sorted";
                size_t i = num;
                while (i > 0 && (m[i - 1] >> 4) > key) { --i; }
                if (at != i) { ck.fail("sorted-insert-position", "push_sort into a sorted sequence chose index " + std::to_string(at) + ", the insertion point after equal keys is " + std::to_string(i)); return; }
            }
            else { outcome = "unsorted"; }
            m.insert(m.begin() + at, b0);
            break;
        }
        case OP_SEARCH:
        {
            if (!is_sorted_model(m, 0, num)) { outcome = "skipped-unsorted"; break; }
            unsigned char probe[16];
            fill_elem(probe, (unsigned char)(o.a << 4), siz);
            g_key_ptr = probe; g_key_side = 1; g_key_side_bad = false;
            void *p = F(search)(c, probe, cmp_key);
            g_key_side = 0;
            if (g_key_side_bad) { ck.fail("comparator-arguments", "search called the comparator without the searched object on the left"); return; }
            bool present = false;
            for (unsigned char b : m) { if ((b >> 4) == o.a) { present = true; } }
            outcome = present ? "found" : "absent";
            if (present != (p != nullptr)) { ck.fail("search", present ? "search missed a present key" : "search found an absent key"); return; }
            if (p && (!ptr_inside(L, p, ck, "search") || (*(unsigned char *)p >> 4) != o.a)) { ck.fail("search", "search returned a wrong element"); return; }
            break;
        }
#if defined(SEQ_VEC)
        case OP_SWAP:
        {
            // o.a elements in the other vector, o.b its element size (0: the same)
            size_t osiz = o.b ? (size_t)o.b : siz;
            L.aux = a_vec_new(osiz);
            Model am;
            g_siz = osiz;
            for (long i = 0; i < o.a; ++i)
            {
                void *p = a_vec_push_back(L.aux);
                unsigned char b0 = (unsigned char)(2 << 4 | (14 + i));
                fill_elem(p, b0, osiz);
                am.push_back(b0);
            }
            a_vec_swap(L.c, L.aux);
            outcome = o.b ? "swapped-sizes" : "swapped";
            std::swap(m, am);
            if (L.c->siz_ != osiz || L.aux->siz_ != siz) { ck.fail("swap-size", "the element sizes did not change sides with the contents (" + std::to_string(L.c->siz_) + "/" + std::to_string(L.aux->siz_) + ", expected " + std::to_string(osiz) + "/" + std::to_string(siz) + ")"); return; }
            // the former contents must now be in aux, intact
            Live X;
            X.c = L.aux;
            X.m = am;
            Ck ck2;
            g_siz = siz;
            if (!check_state(X, ck2)) { ck.fail("swap", "after swap the other vector does not hold this vector's former contents: " + ck2.err); return; }
            g_siz = osiz;
            break;
        }
#endif
        default: outcome = "n/a"; break;
        }
    }

    // read-only accessors on every state: every index from -num-1 to mem+1
    void check_access(Live &L, Ck &ck)
    {
        cont *c = L.c;
        unsigned char *d = L.data();
        size_t siz = c->siz_, num = c->num_, mem = c->mem_;
        if (F(ptr)(c) != (void *)d || F(num)(c) != num || F(mem)(c) != mem || F(siz)(c) != siz) { ck.fail("accessor", "ptr/num/mem/siz accessors disagree with the fields"); return; }
        for (long i = -(long)num - 1; i <= (long)mem + 1; ++i)
        {
            if (i >= 0)
            {
                void *p = F(at)(c, (a_size)i);
                void *want = (size_t)i < mem ? d + (size_t)i * siz : nullptr;
                if (p != want) { ck.fail("accessor-at", "at(" + std::to_string(i) + ") with capacity " + std::to_string(mem)); return; }
            }
            void *p = F(of)(c, (a_diff)i);
            size_t k = i >= 0 ? (size_t)i : (size_t)i + num;
            void *want = k < mem ? d + k * siz : nullptr;
            if (p != want) { ck.fail("accessor-of", "of(" + std::to_string(i) + ") with " + std::to_string(num) + " elements"); return; }
        }
        void *t = F(top)(c);
        if (t != (num ? d + (num - 1) * siz : nullptr)) { ck.fail("accessor-top", "top()"); return; }
        void *e = F(end)(c);
#if defined(SEQ_VEC)
        if (e != (c->ptr_ ? d + num * siz : nullptr)) { ck.fail("accessor-end", "end()"); return; }
#else
        if (e != d + num * siz) { ck.fail("accessor-end", "end()"); return; }
#endif
    }


    // ---------------------------------------------------------------- the typed macros of the container header
    // A_VEC_AT(T, ctx, idx) and friends are what C callers use: each must give what the function of the same name gives and, like a
    // function call, evaluate every argument expression exactly once (arguments with side effects: a cursor i++, a pointer walk).
    // Read-only ones on one object at every index; mutating ones on two copies of the state, function on one, macro on the other.
    void check_typed(const std::string &key, Ck &ck)
    {
        typedef unsigned char UC;
#if defined(SEQ_VEC)
#define FM(x) A_VEC_##x
#else
#define FM(x) A_BUF_##x
#endif
#define EV(x) (++ev, (x))
#define TYPED_RO(n, name, mexpr, fexpr) \
    do { ev = 0; const void *pm_ = (const void *)(mexpr); const void *pf_ = (const void *)(fexpr); \
         if (ck.ok() && (pm_ != pf_ || ev != (n))) { ck.fail("typed-macro", std::string(name) + (ev != (n) ? " evaluates an argument " + std::to_string(ev) + " times in total instead of " + std::to_string(n) : " does not give what the function of the same name gives")); } } while (0)
        int ev = 0;
        {
            Live L;
            make(L, key);
            cont *c = L.c;
            g_siz = c->siz_;
            size_t num = c->num_, mem = c->mem_;
            TYPED_RO(1, "PTR", FM(PTR)(UC, EV(c)), F(ptr)(c));
            TYPED_RO(1, "END", FM(END)(UC, EV(c)), F(end)(c));
            TYPED_RO(1, "TOP", FM(TOP)(UC, EV(c)), F(top)(c));
            if (num) { TYPED_RO(1, "TOP_", FM(TOP_)(UC, EV(c)), F(top_)(c)); }
#if defined(SEQ_VEC)
            if (c->ptr_) { TYPED_RO(1, "END_", A_VEC_END_(UC, EV(c)), a_vec_end_(c)); }
#endif
            for (size_t i = 0; i <= mem + 1 && ck.ok(); ++i)
            {
                size_t cur = i;
                TYPED_RO(2, "AT", FM(AT)(UC, EV(c), EV(cur++)), F(at)(c, i));
                if (ck.ok() && cur != i + 1) { ck.fail("typed-macro", "AT advanced the index expression more than once"); }
                if (i < mem) { cur = i; TYPED_RO(2, "AT_", FM(AT_)(UC, EV(c), EV(cur++)), F(at_)(c, i)); }
            }
            for (long i = -(long)num - 1; i <= (long)num && ck.ok(); ++i)
            {
                long cur = i;
                TYPED_RO(2, "OF", FM(OF)(UC, EV(c), EV((a_diff)cur++)), F(of)(c, (a_diff)i));
            }
            for (int k = 0; k < 3 && ck.ok(); ++k)
            {
                unsigned char probe[32];
                fill_elem(probe, (unsigned char)(k << 4), c->siz_);
                TYPED_RO(3, "SEARCH", FM(SEARCH)(UC, EV(c), EV(probe), EV(cmp_key)), F(search)(c, probe, cmp_key));
            }
            if (ck.ok() && encode(L) != key) { ck.fail("typed-macro", "a read-only typed macro changed the container"); }
            Ck dk;
            destroy(L, dk);
        }
        // mutating macros: 0 push_back 1 push_fore 2 push 3 insert(idx) 4 push_sort 5 pull_back 6 pull_fore 7 pull 8 remove(idx)
        size_t num0 = (unsigned char)key[2];
        for (int mth = 0; mth <= 8 && ck.ok(); ++mth)
        {
            for (size_t idx = 0; idx <= (mth == 3 || mth == 8 ? num0 + 1 : 0) && ck.ok(); ++idx)
            {
                Live A, B;
                make(A, key);
                unsigned char blk[32];
                fill_elem(blk, (unsigned char)(1 << 4 | 9), A.c->siz_);
                g_siz = A.c->siz_;
                void *pa = nullptr, *pb = nullptr;
                cont *a = A.c;
                switch (mth)
                {
                case 0: pa = F(push_back)(a); break;
                case 1: pa = F(push_fore)(a); break;
                case 2: pa = F(push)(a); break;
                case 3: pa = F(insert)(a, idx); break;
                case 4: pa = F(push_sort)(a, blk, cmp_key); break;
                case 5: pa = F(pull_back)(a); break;
                case 6: pa = F(pull_fore)(a); break;
                case 7: pa = F(pull)(a); break;
                case 8: pa = F(remove)(a, idx); break;
                }
                long offa = pa ? (long)((unsigned char *)pa - A.data()) : -1;
                size_t numa = A.c->num_;
                std::string conta;
                if (pa && mth <= 4) { fill_elem(pa, (unsigned char)(1 << 4 | 9), A.c->siz_); }
                std::string ela = pa ? std::string((char *)pa, A.c->siz_) : std::string();
                std::string bytesa((char *)A.data(), A.c->num_ * A.c->siz_);
                Ck dk;
                destroy(A, dk);
                make(B, key);
                cont *b = B.c;
                size_t cur = idx;
                ev = 0;
                int want_ev = 1;
                switch (mth)
                {
                case 0: pb = FM(PUSH_BACK)(UC, EV(b)); break;
                case 1: pb = FM(PUSH_FORE)(UC, EV(b)); break;
                case 2: pb = FM(PUSH)(UC, EV(b)); break;
                case 3: pb = FM(INSERT)(UC, EV(b), EV(cur++)); want_ev = 2; break;
                case 4: pb = FM(PUSH_SORT)(UC, EV(b), EV(blk), EV(cmp_key)); want_ev = 3; break;
                case 5: pb = FM(PULL_BACK)(UC, EV(b)); break;
                case 6: pb = FM(PULL_FORE)(UC, EV(b)); break;
                case 7: pb = FM(PULL)(UC, EV(b)); break;
                case 8: pb = FM(REMOVE)(UC, EV(b), EV(cur++)); want_ev = 2; break;
                }
                static const char *MN[9] = {"PUSH_BACK", "PUSH_FORE", "PUSH", "INSERT", "PUSH_SORT", "PULL_BACK", "PULL_FORE", "PULL", "REMOVE"};
                long offb = pb ? (long)((unsigned char *)pb - B.data()) : -1;
                if (pb && mth <= 4) { fill_elem(pb, (unsigned char)(1 << 4 | 9), B.c->siz_); }
                std::string elb = pb ? std::string((char *)pb, B.c->siz_) : std::string();
                std::string bytesb((char *)B.data(), B.c->num_ * B.c->siz_);
                if (ev != want_ev) { ck.fail("typed-macro", std::string(MN[mth]) + " evaluates its arguments " + std::to_string(ev) + " times in total instead of " + std::to_string(want_ev)); }
                else if (offa != offb || numa != B.c->num_ || ela != elb || bytesa != bytesb) { ck.fail("typed-macro", std::string(MN[mth]) + " does not do what the function of the same name does"); }
                destroy(B, dk);
            }
        }
#undef TYPED_RO
#undef EV
#undef FM
    }

    // the iteration macros of the container header, for an element type of exactly the container's element size:
    // forward / reverse element loops (C99 and C89 forms) must visit the element addresses in order, the index loops 0..num-1
    template <size_t S>
    void check_loops(Live &L, Ck &ck)
    {
        struct E { unsigned char b[S]; };
        cont *c = L.c;
        unsigned char *d = L.data();
        size_t num = c->num_;
        std::vector<void *> fwd, rev, want;
        std::vector<size_t> ifwd, irev;
        for (size_t i = 0; i < num; ++i) { want.push_back(d + i * S); }
        size_t guard = 0;
#if defined(SEQ_VEC)
        a_vec_foreach(E, *, it, c) { fwd.push_back(it); if (++guard > num + 2) { break; } }
        guard = 0;
        a_vec_foreach_reverse(E, *, it, c) { rev.push_back(it); if (++guard > num + 2) { break; } }
        { E *it, *at; std::vector<void *> f2, r2; guard = 0; A_VEC_FOREACH(E *, it, at, c) { f2.push_back(it); if (++guard > num + 2) { break; } } guard = 0; A_VEC_FOREACH_REVERSE(E *, it, at, c) { r2.push_back(it); if (++guard > num + 2) { break; } }
          if (f2 != fwd || r2 != rev) { ck.fail("loop-macros", "the upper-case and lower-case element loops disagree"); return; } }
        a_vec_forenum(i, c) { ifwd.push_back(i); if (ifwd.size() > num + 2) { break; } }
        a_vec_forenum_reverse(i, c) { irev.push_back(i); if (irev.size() > num + 2) { break; } }
        { a_size i; std::vector<size_t> f2, r2; A_VEC_FORENUM(a_size, i, c) { f2.push_back(i); if (f2.size() > num + 2) { break; } } A_VEC_FORENUM_REVERSE(a_size, i, c) { r2.push_back(i); if (r2.size() > num + 2) { break; } }
          if (f2 != ifwd || r2 != irev) { ck.fail("loop-macros", "the upper-case and lower-case index loops disagree"); return; } }
#else
        a_buf_foreach(E, *, it, c) { fwd.push_back(it); if (++guard > num + 2) { break; } }
        guard = 0;
        a_buf_foreach_reverse(E, *, it, c) { rev.push_back(it); if (++guard > num + 2) { break; } }
        { E *it, *at; std::vector<void *> f2, r2; guard = 0; A_BUF_FOREACH(E *, it, at, c) { f2.push_back(it); if (++guard > num + 2) { break; } } guard = 0; A_BUF_FOREACH_REVERSE(E *, it, at, c) { r2.push_back(it); if (++guard > num + 2) { break; } }
          if (f2 != fwd || r2 != rev) { ck.fail("loop-macros", "the upper-case and lower-case element loops disagree"); return; } }
        a_buf_forenum(i, c) { ifwd.push_back(i); if (ifwd.size() > num + 2) { break; } }
        a_buf_forenum_reverse(i, c) { irev.push_back(i); if (irev.size() > num + 2) { break; } }
        { a_size i; std::vector<size_t> f2, r2; A_BUF_FORENUM(a_size, i, c) { f2.push_back(i); if (f2.size() > num + 2) { break; } } A_BUF_FORENUM_REVERSE(a_size, i, c) { r2.push_back(i); if (r2.size() > num + 2) { break; } }
          if (f2 != ifwd || r2 != irev) { ck.fail("loop-macros", "the upper-case and lower-case index loops disagree"); return; } }
#endif
        if (fwd != want) { ck.fail("loop-macros", "the forward element loop does not visit the " + std::to_string(num) + " elements in order"); return; }
        std::reverse(want.begin(), want.end());
        if (rev != want) { ck.fail("loop-macros", "the reverse element loop does not visit the " + std::to_string(num) + " elements in reverse order"); return; }
        for (size_t i = 0; i < num; ++i) { if (ifwd.size() != num || ifwd[i] != i || irev.size() != num || irev[i] != num - 1 - i) { ck.fail("loop-macros", "the index loops do not run over 0.." + std::to_string(num) + "-1"); return; } }
        if (num == 0 && (!ifwd.empty() || !irev.empty())) { ck.fail("loop-macros", "an index loop runs on an empty container"); }
    }
    void check_loops_any(Live &L, Ck &ck)
    {
        switch (L.c->siz_)
        {
        case 1: check_loops<1>(L, ck); break;
        case 2: check_loops<2>(L, ck); break;
        case 3: check_loops<3>(L, ck); break;
        case 8: check_loops<8>(L, ck); break;
        case 12: check_loops<12>(L, ck); break;
        case 16: check_loops<16>(L, ck); break;
        default: break;
        }
    }

    // ---------------------------------------------------------------- menu
    std::vector<xs::Op> menu(const std::string &key) const
    {
        size_t siz = (unsigned char)key[0], mem = (unsigned char)key[1], num = (unsigned char)key[2];
        std::vector<xs::Op> ops;
        bool grow = num < (size_t)N;
        auto add = [&](int code, long a = 0, long b = 0, long c = 0) { ops.push_back(xs::Op{code, a, b, c}); };
        if (grow)
        {
            for (int k = 0; k < nkeys; ++k) { add(OP_PUSH_BACK, k); add(OP_PUSH_FORE, k); add(OP_PUSH_SORT, k); }
            for (int k = 0; k < nkeys; k += 2)
            {
                for (size_t i = 0; i <= num + 1; ++i) { add(OP_INSERT, (long)i, k); }
                add(OP_INSERT, SMAX, k);
                if (k == 0) { add(OP_INSERT, IHALF, k); add(OP_INSERT, IWRAP0, k); add(OP_INSERT, IWRAP1, k); }
            }
        }
        add(OP_PULL_BACK); add(OP_PULL_FORE);
        for (size_t i = 0; i <= num; ++i) { add(OP_REMOVE, (long)i); }
        add(OP_REMOVE, SMAX); add(OP_REMOVE, IHALF); add(OP_REMOVE, IWRAP0); add(OP_REMOVE, IWRAP1);
        long sidx[4] = {0, (long)(num / 2), (long)num, SMAX};
        for (int b = 0; b <= 2; ++b)
        {
            if (num + b > (size_t)N + 1) { continue; }
            for (int i = 0; i < 4; ++i) { for (int cp = 0; cp < 2; ++cp) { add(OP_STORE, sidx[i], b, cp); } }
            if (b) { add(OP_STORE, IHALF, b, 0); add(OP_STORE, IWRAP0, b, 0); add(OP_STORE, IWRAP1, b, 1); }
            if (b) { for (int i = 0; i < 3; ++i) { for (int f = 0; f < b; ++f) { add(OP_STORE, sidx[i], b, 2 + f); } } } // the copy callback refuses element f of the block
        }
        {
            std::vector<long> idxs, cnts = {0, 1, 2, (long)num, SMAX};
            for (size_t i = 0; i <= num + 1; ++i) { idxs.push_back((long)i); }
            idxs.push_back(SMAX); idxs.push_back(IHALF); idxs.push_back(IWRAP0); idxs.push_back(IWRAP1);
            cnts.push_back(IWRAP0); cnts.push_back(IHALF);
            for (long i : idxs) { for (long cn : cnts) { for (int d = 0; d < 2; ++d) { add(OP_ERASE, i, cn, d); } } }
        }
        for (size_t k = 0; k <= num; ++k) { add(OP_SETN, (long)k, 1); }
        if (num) { add(OP_SETN, (long)num - 1, 0); }
        if (grow) { add(OP_SETN, (long)num + 1, 0); add(OP_SETN, (long)num + 1, 1); } // growing with a destructor supplied: nothing to destroy, same result
#if !defined(SEQ_VEC)
        if (mem <= (size_t)N) { add(OP_SETN, (long)mem + 2, 1); } // beyond the capacity of the fixed buffer: clamps (offered while the capacity is within the element bound)
#endif
#if defined(SEQ_VEC)
        add(OP_SETM, 0); add(OP_SETM, (long)num);
        if (mem < memcap) { add(OP_SETM, (long)mem + 1); }
        add(OP_SWAP, 0); add(OP_SWAP, 2);
        if (siz2) { long other = (long)(siz == siz0 ? siz2 : siz0); add(OP_SWAP, 0, other); add(OP_SWAP, 2, other); }
#else
        if (num) { add(OP_SETM, (long)num - 1); }
        add(OP_SETM, (long)num);
        if (mem < memcap) { add(OP_SETM, (long)mem + 1); }
        if (mem > num) { add(OP_SETM, (long)mem - 1); }
#endif
        add(OP_SETZ, (long)siz);
        if (siz2) { add(OP_SETZ, (long)(siz == siz0 ? siz2 : siz0)); }
        if (siz0 == 1) { add(OP_SETZ, 0); } // zero is accepted and treated as one
        add(OP_SORT); add(OP_SORT_FORE); add(OP_SORT_BACK);
        for (int k = 0; k < nkeys; ++k) { add(OP_SEARCH, k); }
        return ops;
    }

    void expand(const std::string &key, uint32_t, xs::Sink &out)
    {
        for (const xs::Op &o : menu(key))
        {
            if (!out.enter(o)) { continue; }
            Live L;
            make(L, key);
            Ck ck;
            std::string outcome;
            apply(L, o, ck, outcome);
            if (ck.ok()) { check_state(L, ck); }
            std::string k2;
            if (ck.ok()) { k2 = encode(L); destroy(L, ck); }
            out.leave();
            if (!ck.ok()) { out.viol(o, std::string(CNAME "|") + op_names[o.code] + "|" + arg_class(o, (unsigned char)key[2]) + "|" + ck.cls, op_str(o) + " on " + key_str(key) + ": " + ck.err); continue; }
            out.succ(o, k2, op_names[o.code], outcome.c_str());
        }
        {
            xs::Op o{OP_ACCESS, 0, 0, 0};
            if (out.enter(o))
            {
                Live L;
                make(L, key);
                Ck ck;
                check_access(L, ck);
                if (ck.ok()) { check_loops_any(L, ck); }
                if (ck.ok() && encode(L) != key) { ck.fail("accessor", "accessors changed the container"); }
                if (ck.ok()) { destroy(L, ck); }
                if (ck.ok() && typed) { check_typed(key, ck); }
                out.leave();
                if (!ck.ok()) { out.viol(o, std::string(CNAME "|access|") + ck.cls, "accessors on " + key_str(key) + ": " + ck.err); }
                else { out.succ(o, key, "access", "all-indices"); }
            }
        }
        if (faults) { expand_faults(key, out); }
    }

    // ---------------------------------------------------------------- C07: allocation faults at every request of every operation
    void expand_faults(const std::string &key, xs::Sink &out)
    {
        // destruction while the allocator refuses everything: it needs no memory, so every block is still released and every element destroyed
        for (int with_dtor = 0; with_dtor < 2; ++with_dtor)
        {
            xs::Op tag{OP_DIE, with_dtor, 0, 0};
            if (!out.enter(tag)) { continue; }
            Live L;
            make(L, key);
            Ck ck;
            ++fault_runs;
            dtor_log.clear();
            g_siz = L.c->siz_;
            shim::arm(0, true);
            F(die)(L.c, with_dtor ? log_dtor : nullptr);
            shim::disarm();
            L.c = nullptr;
            if (L.aux) { F(die)(L.aux, nullptr); L.aux = nullptr; }
            if (shim::st().live_blocks != 0) { ck.fail("leak", std::to_string(shim::st().live_blocks) + " block(s) still allocated after the container was destroyed"); }
            else if (!shim::st().error.empty()) { ck.fail("memory", shim::st().error); }
            else if (with_dtor)
            {
                Model got = dtor_log, want = L.m;
                std::sort(got.begin(), got.end());
                std::sort(want.begin(), want.end());
                if (got != want) { ck.fail("die-dtor", "destruction did not run the destructor exactly once on every element"); }
            }
            out.leave();
            if (!ck.ok()) { out.viol(tag, std::string(CNAME "|die|oom@all|") + ck.cls, "every allocation request fails during the destruction of " + key_str(key) + ": " + ck.err); continue; }
            out.succ(tag, key, "oom", "die");
        }
        for (const xs::Op &o0 : menu(key))
        {
            // 1. fault-free run: number of requests and successor
            long requests;
            std::string succ_key;
            {
                Live L;
                make(L, key);
                shim::arm(-1, false);
                Ck ck;
                std::string oc;
                apply(L, o0, ck, oc);
                requests = shim::st().requests;
                if (!ck.ok() || requests == 0) { continue; } // violations of the fault-free call are C04's business
                succ_key = encode(L);
            }
            if (o0.code == OP_SWAP) { requests = 1; } // only the constructor of the other vector belongs to the operation under test
            for (long k = 0; k < requests; ++k)
            {
                for (int from = 0; from < 2; ++from)
                {
                    if (from && k == requests - 1) { continue; } // identical to the single fault
                    xs::Op o = o0;
                    xs::Op tag{o0.code, o0.a, o0.b, o0.c + 1000 * (1 + k) + 100000 * from};
                    if (!out.enter(tag)) { continue; }
                    Live L;
                    make(L, key);
                    Model before = L.m;
                    Ck ck;
                    ++fault_runs;
                    fault_requests += requests;
                    shim::arm(k, from != 0);
                    unreportable = false;
                    bool reported = call_expect_failure(L, o, ck);
                    shim::disarm();
                    if (unreportable)
                    {
                        if (ck.ok()) { check_state(L, ck); }
                        if (ck.ok()) { destroy(L, ck); }
                        out.leave();
                        if (!ck.ok()) { out.viol(tag, std::string(CNAME "|") + op_names[o.code] + "|oom|" + ck.cls, std::string("allocation request #") + std::to_string(k) + (from ? " and all later ones fail" : " fails") + " during " + op_str(o) + " on " + key_str(key) + " (the operation cannot report a failure): " + ck.err); continue; }
                        out.succ(tag, key, "oom", op_names[o.code]);
                        continue;
                    }
                    std::string why = std::string("allocation request #") + std::to_string(k) + (from ? " and all later ones fail" : " fails") + " during " + op_str(o) + " on " + key_str(key) + ": ";
                    if (ck.ok() && !reported) { ck.fail("failure-not-reported", "the operation did not report the failure through its return value"); }
                    if (ck.ok())
                    {
                        L.m = before;
                        if (!check_state(L, ck) || encode(L) != key) { if (ck.ok()) { ck.fail("state-changed", "the container is not in its previous state after the failed operation"); } }
                    }
                    if (ck.ok())
                    {
                        // the same operation succeeds once memory is available and reaches the fault-free successor
                        std::string oc;
                        apply(L, o, ck, oc);
                        if (ck.ok()) { check_state(L, ck); }
                        if (ck.ok() && encode(L) != succ_key) { ck.fail("retry-differs", "the retried operation does not reach the state the fault-free operation reaches"); }
                    }
                    if (ck.ok()) { destroy(L, ck); }
                    out.leave();
                    if (!ck.ok()) { out.viol(tag, std::string(CNAME "|") + op_names[o.code] + "|oom|" + ck.cls, why + ck.err); continue; }
                    out.succ(tag, key, "oom", op_names[o.code]);
                }
            }
        }
    }
    // executes o with the armed allocator; returns whether the failure was reported through the return value
    bool call_expect_failure(Live &L, const xs::Op &o, Ck &ck)
    {
        cont *c = L.c;
        size_t isiz_ = c->siz_;
        auto A = [isiz_](long v) -> a_size { return idx_val(v, isiz_); };
        unsigned char blk[32];
        memset(blk, 0x11, sizeof blk);
        g_siz = c->siz_;
        (void)ck;
        switch (o.code)
        {
        case OP_PUSH_BACK: return F(push_back)(c) == nullptr;
        case OP_PUSH_FORE: return F(push_fore)(c) == nullptr;
        case OP_INSERT: return F(insert)(c, A(o.a)) == nullptr;
        case OP_PUSH_SORT: fill_elem(blk, (unsigned char)((o.a & 15) << 4), c->siz_); return F(push_sort)(c, blk, cmp_key) == nullptr;
        case OP_STORE: return F(store)(c, A(o.a), blk, (a_size)o.b, o.c ? copy_elem : nullptr) == A_OMEMORY;
#if defined(SEQ_VEC)
        case OP_SETN: return a_vec_setn(c, (a_size)o.a, o.b ? log_dtor : nullptr) == A_OMEMORY;
        case OP_SETM: return a_vec_setm(c, (a_size)o.a) == A_OMEMORY;
        case OP_SWAP: { a_vec *x = a_vec_new(c->siz_); if (x) { a_vec_die(x, nullptr); } return x == nullptr; }
#else
        case OP_SETM: return a_buf_setm(c, (a_size)o.a) == nullptr;
#endif
        default:
        {
            // an operation that has no way to report a failure (or is not expected to request memory at all) made a request: it is
            // executed like any call; the container must come out valid, and destroying it must release every block
            std::string oc;
            unreportable = true;
            apply(L, o, ck, oc);
            return true;
        }
        }
        return true;
    }
    bool unreportable = false;

    // ---------------------------------------------------------------- API-only replay
    bool replay(const std::vector<xs::Op> &path, std::string &key, std::string &err)
    {
        Live L;
        shim::reset();
        if (!api_build(L, path, err)) { return false; }
        key = encode(L);
        return true;
    }
    bool api_build(Live &L, const std::vector<xs::Op> &path, std::string &err)
    {
        construct(L);
        if (!L.c) { err = "constructor failed"; return false; }
        for (size_t i = 0; i < path.size(); ++i)
        {
            Ck ck;
            std::string oc;
            apply(L, path[i], ck, oc);
            if (ck.ok()) { check_state(L, ck); }
            if (!ck.ok()) { err = std::string(CNAME "|") + op_names[path[i].code] + "|" + ck.cls + " at step " + std::to_string(i); return false; }
            if (L.aux) { F(die)(L.aux, nullptr); L.aux = nullptr; }
        }
        return true;
    }
};

int main(int argc, char **argv)
{
    vx::Args args(argc, argv);
    shim::install();
    Harness h;
    h.N = (int)args.geti("n", 4);
    h.siz0 = (size_t)args.geti("siz", 1);
    h.siz2 = (size_t)args.geti("siz2", 0);
    h.mem0 = (size_t)args.geti("mem0", 4);
    h.memcap = (size_t)args.geti("memcap", 12);
    h.nkeys = (int)args.geti("keys", 3);
    h.faults = args.geti("faults", 0) != 0;
    h.typed = !h.faults;
    h.job = args.get("job", CNAME);
    vx::deadline().limit_s = args.getd("deadline", 1e18);
    if (args.has("replay-raw")) { return xs::replay_main(h, args.get("replay-raw")); }

    return vx::run_contained([&] {
        // constructors with unusual element sizes (zero is accepted and treated as one)
        for (size_t s : {(size_t)0, (size_t)1, (size_t)3, (size_t)16})
        {
            vx::mark("constructor and destructor with element size", (uint64_t)s); // a crash here is a finding about the library
            shim::reset();
            Harness hh = h;
            hh.siz0 = s;
            Live L;
            hh.construct(L);
            Ck ck;
            if (!L.c) { ck.fail("refused", "constructor returned null"); }
            if (ck.ok()) { check_state(L, ck); }
            if (ck.ok() && L.c->siz_ != (s ? s : 1)) { ck.fail("zero-size", "element size " + std::to_string(s) + " became " + std::to_string(L.c->siz_)); }
            if (ck.ok()) { hh.destroy(L, ck); }
            if (!ck.ok()) { vx::viol(std::string(CNAME "|new|siz=") + std::to_string(s) + "|" + ck.cls, std::string(CNAME "_new with element size ") + std::to_string(s) + ": " + ck.err, "{\"job\":" + vx::jstr(h.job) + ",\"ops\":[\"new(siz=" + std::to_string(s) + ")\"]}"); }
        }
        // the same sizes through the in-place constructor (the caller owns the header): same element size as the allocating form
        for (size_t s : {(size_t)0, (size_t)1, (size_t)3, (size_t)16})
        {
            vx::mark("in-place constructor and destructor with element size", (uint64_t)s);
            shim::reset();
            Ck ck;
#if defined(SEQ_VEC)
            a_vec v;
            memset(&v, 0x5A, sizeof v);
            a_vec_ctor(&v, s);
            size_t got = v.siz_;
            if (got != (s ? s : 1)) { ck.fail("zero-size", "element size " + std::to_string(s) + " became " + std::to_string(got)); }
            if (ck.ok() && (v.num_ != 0 || v.mem_ != 0 || v.ptr_ != nullptr)) { ck.fail("not-empty", "a constructed vector is not empty"); }
            if (ck.ok())
            {
                unsigned char *e = (unsigned char *)a_vec_push_back(&v);
                if (!e || v.num_ != 1 || (unsigned char *)v.ptr_ != e) { ck.fail("push", "push_back on the constructed vector did not append an element"); }
                else { memset(e, 0x11, v.siz_); }
            }
            a_vec_dtor(&v, nullptr);
#else
            std::vector<unsigned char> raw(sizeof(a_buf) + 16 * 2 + 8, 0x5A);
            a_buf *b = (a_buf *)raw.data();
            a_buf_ctor(b, s, 2);
            size_t got = b->siz_;
            if (got != (s ? s : 1)) { ck.fail("zero-size", "element size " + std::to_string(s) + " became " + std::to_string(got)); }
            if (ck.ok() && (b->num_ != 0 || b->mem_ != 2)) { ck.fail("not-empty", "a constructed buffer is not empty with the stated capacity"); }
            if (ck.ok())
            {
                unsigned char *e = (unsigned char *)a_buf_push_back(b);
                if (!e || b->num_ != 1) { ck.fail("push", "push_back on the constructed buffer did not append an element"); }
            }
            a_buf_dtor(b, nullptr);
#endif
            if (ck.ok() && !shim::check()) { ck.fail("memory", shim::st().error); }
            if (ck.ok() && shim::st().live_blocks != 0) { ck.fail("leak", "blocks still live after the destructor"); }
            if (!ck.ok()) { vx::viol(std::string(CNAME "|ctor|siz=") + std::to_string(s) + "|" + ck.cls, std::string(CNAME "_ctor (in place) with element size ") + std::to_string(s) + ": " + ck.err, "{\"job\":" + vx::jstr(h.job) + ",\"ops\":[\"ctor(siz=" + std::to_string(s) + ")\"]}"); }
        }
        if (h.siz0 == 0)
        {
            // the exploration itself with element size 0 needs a container that survived the check above
            shim::reset();
            Live L;
            h.construct(L);
            Ck ck;
            if (!L.c || !check_state(L, ck)) { vx::book().flush_counts(); vx::done(true, "constructor with element size 0 is broken; exploration of that size skipped"); return; }
        }
        vx::mark(nullptr);
        xs::Explorer<Harness> ex(h);
        ex.job = h.job;
        ex.run();
        ex.emit_stats(h.job);
        vx::stat("fault_runs", (long long)h.fault_runs);
        ex.emit_samples(3);
        vx::book().flush_counts();
        vx::done(ex.st.fixpoint, ex.st.fixpoint ? "fixpoint: every history over at most N elements" : ex.st.cap_note);
    });
}
