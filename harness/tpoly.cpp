// tpoly.cpp — C15: cubic / quintic / septic trajectories and Horner evaluation.  DESIGN.md §4.C15.
// Reference: the boundary-value problem solved independently in __float128 (Gaussian elimination on the
// normalised polynomial), never the library's closed forms.
#include "../engine/grid.hpp"
#include <quadmath.h>
#include <cmath>
#include <cfloat>

extern "C" {
#include "a/trajpoly3.h"
#include "a/trajpoly5.h"
#include "a/trajpoly7.h"
#include "a/poly.h"
}

typedef __float128 Q;
static grid::Run R;
#if A_SIZE_REAL + 0 == 4
static const double EPS = FLT_EPSILON;
#define RNAME "f32"
#elif A_SIZE_REAL + 0 == 16
static const double EPS = LDBL_EPSILON;
#define RNAME "ld"
#else
static const double EPS = DBL_EPSILON;
#define RNAME "f64"
#endif
// element-wise equality of coefficient vectors (memcmp would also compare the padding bytes of an x87 long double)
static bool same_vec(const a_real *x, const a_real *y, int n) { for (int i = 0; i < n; ++i) { if (!(x[i] == y[i])) { return false; } } return true; }
static double worstF[5][4];
static const double FINAL_TOL[5][4] = {{0, 0, 0, 0}, {0, 0, 0, 0}, {64, 128, 0, 0}, {256, 1024, 4096, 0}, {2048, 16384, 81920, 400000}}; // observed worst: 2.4 7.2 | 15 62 179 | 123 1002 4727 20808
static double worst[8]; // calibration: largest observed error / (eps * scale) per check class

static std::string num(double v)
{
    char b[40];
    snprintf(b, sizeof b, "%.17g", v);
    return b;
}

// solve the 2k x 2k boundary value problem for the normalised polynomial q(tau) = sum b_i tau^i, tau = t/ts:
// q^(d)(0) = D0[d] * ts^d, q^(d)(1) = D1[d] * ts^d, d = 0..k-1.  Returns c_i = b_i / ts^i.
static void solve_ref(int k, Q ts, const Q *D0, const Q *D1, Q *c)
{
    int n = 2 * k;
    Q M[8][9];
    Q tp = 1;
    for (int d = 0; d < k; ++d)
    {
        // row d: derivative d at 0 -> d! * b_d
        for (int i = 0; i <= n; ++i) { M[d][i] = 0; }
        Q f = 1;
        for (int j = 2; j <= d; ++j) { f *= j; }
        M[d][d] = f;
        M[d][n] = D0[d] * tp;
        // row k+d: derivative d at 1 -> sum_i i!/(i-d)! b_i
        for (int i = 0; i < n; ++i)
        {
            Q g = 0;
            if (i >= d) { g = 1; for (int j = 0; j < d; ++j) { g *= (i - j); } }
            M[k + d][i] = g;
        }
        M[k + d][n] = D1[d] * tp;
        tp *= ts;
    }
    for (int col = 0; col < n; ++col)
    {
        int piv = col;
        for (int r = col + 1; r < n; ++r) { if (fabsq(M[r][col]) > fabsq(M[piv][col])) { piv = r; } }
        if (piv != col) { for (int j = 0; j <= n; ++j) { Q t = M[piv][j]; M[piv][j] = M[col][j]; M[col][j] = t; } }
        for (int r = 0; r < n; ++r)
        {
            if (r == col) { continue; }
            Q f = M[r][col] / M[col][col];
            for (int j = col; j <= n; ++j) { M[r][j] -= f * M[col][j]; }
        }
    }
    tp = 1;
    for (int i = 0; i < n; ++i) { c[i] = M[i][n] / M[i][i] / tp; tp *= ts; }
}
static Q horner(const Q *c, int n, Q x)
{
    Q y = 0;
    for (int i = n - 1; i >= 0; --i) { y = y * x + c[i]; }
    return y;
}
static Q absterms(const Q *c, int n, Q x)
{
    Q y = 0, p = 1;
    for (int i = 0; i < n; ++i) { y += fabsq(c[i] * p); p *= fabsq(x); }
    return y;
}
static void deriv(const Q *c, int n, Q *d) { for (int i = 1; i < n; ++i) { d[i - 1] = c[i] * i; } }

static uint64_t n_eval, n_nt;
struct Req
{
    int k; // 2: cubic, 3: quintic, 4: septic
    double ts, d0[4], d1[4];
};
static std::string req_json(const Req &q)
{
    std::string s = "{\"degree\":" + std::to_string(2 * q.k - 1) + ",\"ts\":" + num(q.ts);
    static const char *nm[4] = {"p", "v", "a", "j"};
    for (int d = 0; d < q.k; ++d) { s += std::string(",\"") + nm[d] + "0\":" + num(q.d0[d]) + ",\"" + nm[d] + "1\":" + num(q.d1[d]); }
    return s + "}";
}
static void one(const Req &q)
{
    int k = q.k, n = 2 * k;
    a_real c[8], c1[7], c2[6], c3[5];
    a_real lib[4][3]; // [derivative][0: at 0, 1: at ts, 2: at ts/2]
    a_real ts = (a_real)q.ts;
    a_real xs[3] = {0, ts, (a_real)(ts / 2)};
    memset(c3, 0, sizeof c3);
    if (k == 2)
    {
        a_trajpoly3 t;
        memset(&t, 0x41, sizeof t); // stale data of an earlier plan
        a_trajpoly3_gen(&t, ts, (a_real)q.d0[0], (a_real)q.d1[0], (a_real)q.d0[1], (a_real)q.d1[1]);
        a_trajpoly3_c0(&t, c); a_trajpoly3_c1(&t, c1); a_trajpoly3_c2(&t, c2);
        for (int i = 0; i < 3; ++i) { lib[0][i] = a_trajpoly3_pos(&t, xs[i]); lib[1][i] = a_trajpoly3_vel(&t, xs[i]); lib[2][i] = a_trajpoly3_acc(&t, xs[i]); lib[3][i] = 0; }
    }
    else if (k == 3)
    {
        a_trajpoly5 t;
        memset(&t, 0x41, sizeof t); // stale data of an earlier plan
        a_trajpoly5_gen(&t, ts, (a_real)q.d0[0], (a_real)q.d1[0], (a_real)q.d0[1], (a_real)q.d1[1], (a_real)q.d0[2], (a_real)q.d1[2]);
        a_trajpoly5_c0(&t, c); a_trajpoly5_c1(&t, c1); a_trajpoly5_c2(&t, c2);
        for (int i = 0; i < 3; ++i) { lib[0][i] = a_trajpoly5_pos(&t, xs[i]); lib[1][i] = a_trajpoly5_vel(&t, xs[i]); lib[2][i] = a_trajpoly5_acc(&t, xs[i]); lib[3][i] = 0; }
    }
    else
    {
        a_trajpoly7 t;
        memset(&t, 0x41, sizeof t); // stale data of an earlier plan
        a_trajpoly7_gen(&t, ts, (a_real)q.d0[0], (a_real)q.d1[0], (a_real)q.d0[1], (a_real)q.d1[1], (a_real)q.d0[2], (a_real)q.d1[2], (a_real)q.d0[3], (a_real)q.d1[3]);
        a_trajpoly7_c0(&t, c); a_trajpoly7_c1(&t, c1); a_trajpoly7_c2(&t, c2); a_trajpoly7_c3(&t, c3);
        for (int i = 0; i < 3; ++i) { lib[0][i] = a_trajpoly7_pos(&t, xs[i]); lib[1][i] = a_trajpoly7_vel(&t, xs[i]); lib[2][i] = a_trajpoly7_acc(&t, xs[i]); lib[3][i] = a_trajpoly7_jer(&t, xs[i]); }
    }
    ++n_eval;
    bool trivial = true;
    for (int d = 1; d < k; ++d) { if (q.d0[d] != 0 || q.d1[d] != 0) { trivial = false; } }
    n_nt += !trivial;
    std::string deg = "poly" + std::to_string(n - 1), in = req_json(q);
    static const char *what[4] = {"position", "velocity", "acceleration", "jerk"};
    int nder = k == 4 ? 4 : 3;
    // (1) initial data at time zero
    for (int d = 0; d < k && d < nder; ++d)
    {
        double got = (double)lib[d][0], want = (double)(a_real)q.d0[d];
        double tol = d < 3 ? 0 : 4 * EPS * std::fabs(want);
        if (!(std::fabs(got - want) <= tol)) { R.viol(deg + "|initial|" + what[d], std::string("the ") + what[d] + " at time zero is " + num(got) + ", requested " + num(want), in); return; }
    }
    // reference solution
    Q D0[4], D1[4], rc[8];
    for (int d = 0; d < k; ++d) { D0[d] = (a_real)q.d0[d]; D1[d] = (a_real)q.d1[d]; }
    Q T = (Q)ts;
    solve_ref(k, T, D0, D1, rc);
    // scale of the boundary data in position units
    Q S = 0, tp = 1;
    for (int d = 0; d < k; ++d) { S += (fabsq(D0[d]) + fabsq(D1[d])) * tp; tp *= T; }
    if (S == 0) { S = 1; }
    // (5) every coefficient agrees with the independent solution (normalised: c_i ts^i)
    tp = 1;
    for (int i = 0; i < n; ++i)
    {
        double err = (double)(fabsq((Q)c[i] * tp - rc[i] * tp) / ((Q)EPS * S));
        if (err > worst[0]) { worst[0] = err; }
        if (!(err <= 2048)) { R.viol(deg + "|coefficient|c" + std::to_string(i), "coefficient c[" + std::to_string(i) + "] = " + num((double)c[i]) + " but the boundary conditions give " + num((double)rc[i]) + " (error " + num(err) + " eps of the data scale)", in); return; }
        tp *= T;
    }
    // (2) final data at the end time, (4) derivatives are Horner of the derivative polynomials, evaluated on the stored coefficients
    Q sc[8], sd[4][8];
    for (int i = 0; i < n; ++i) { sc[i] = c[i]; sd[0][i] = c[i]; }
    for (int d = 1; d < 4; ++d) { deriv(sd[d - 1], n - d + 1, sd[d]); }
    tp = 1;
    for (int d = 0; d < nder; ++d)
    {
        // end condition
        if (d < k)
        {
            // rounding error proportional to the size of the boundary data: measured in units of eps * (data scale S) / ts^d.
            // The closed forms combine terms with constants up to 420 that cancel, so the attainable constant depends on
            // degree and derivative order; FINAL_TOL holds 16x the worst value observed on the unchanged tree (both widths).
            double err = (double)(fabsq((Q)lib[d][1] - D1[d]) * tp / ((Q)EPS * S));
            if (err > worstF[k][d]) { worstF[k][d] = err; }
            if (err > worst[1]) { worst[1] = err; }
            if (!(err <= FINAL_TOL[k][d])) { R.viol(deg + "|final|" + what[d], std::string("the ") + what[d] + " at the end time is " + num((double)lib[d][1]) + ", requested " + num((double)D1[d]) + " (error " + num(err) + " eps of the data scale, tolerated " + num(FINAL_TOL[k][d]) + ")", in); return; }
        }
        for (int xi = 1; xi < 3; ++xi)
        {
            Q want = horner(sd[d], n - d, (Q)xs[xi]), mag = absterms(sd[d], n - d, (Q)xs[xi]);
            if (mag == 0) { mag = 1; }
            double err = (double)(fabsq((Q)lib[d][xi] - want) / ((Q)EPS * mag));
            if (err > worst[2]) { worst[2] = err; }
            if (!(err <= 32)) { R.viol(deg + "|derivative|" + what[d], std::string("the ") + what[d] + " output at t=" + num((double)xs[xi]) + " is " + num((double)lib[d][xi]) + ", the " + (d ? "derivative of the position polynomial" : "position polynomial") + " evaluates to " + num((double)want), in); return; }
        }
        tp *= T;
    }
    // (3) coefficient accessors are the term-by-term derivatives
    for (int i = 0; i < n - 1; ++i) { if (!((double)(fabsq((Q)c1[i] - sd[1][i])) <= 4 * EPS * (double)fabsq(sd[1][i]))) { R.viol(deg + "|accessor|c1", "c1[" + std::to_string(i) + "] is not " + std::to_string(i + 1) + " * c0[" + std::to_string(i + 1) + "]", in); return; } }
    for (int i = 0; i < n - 2; ++i) { if (!((double)(fabsq((Q)c2[i] - sd[2][i])) <= 4 * EPS * (double)fabsq(sd[2][i]))) { R.viol(deg + "|accessor|c2", "c2[" + std::to_string(i) + "] is not the second derivative coefficient of c0", in); return; } }
    if (k == 4) { for (int i = 0; i < n - 3; ++i) { if (!((double)(fabsq((Q)c3[i] - sd[3][i])) <= 4 * EPS * (double)fabsq(sd[3][i]))) { R.viol(deg + "|accessor|c3", "c3[" + std::to_string(i) + "] is not the third derivative coefficient of c0", in); return; } } }
}

static std::vector<double> durations()
{
    std::vector<double> t;
    for (int k = -12; k <= 12; ++k) { t.push_back(std::ldexp(1.0, k)); }
    for (double v : {3.0, 10.0, 0.1, 1e-3, 1e3}) { t.push_back(v); }
#if A_SIZE_REAL + 0 == 4
    // float: ts^7 must stay in range together with the data scale
    std::vector<double> f;
    for (double v : t) { if (v >= 1.0 / 64 && v <= 64) { f.push_back(v); } }
    return f;
#else
    return t;
#endif
}

static void trajectories(bool thorough)
{
    n_eval = n_nt = 0;
    std::vector<double> T = durations();
    uint64_t item = 0;
    static const double V4[4] = {-2, 0, 1, 3}, V3[3] = {-2, 0, 3};
    for (int k = 2; k <= 4; ++k)
    {
        int slots = 2 * k;
        bool small = (k == 4 && !thorough);
        int base = small ? 3 : 4;
        const double *V = small ? V3 : V4;
        uint64_t total = 1;
        for (int i = 0; i < slots; ++i) { total *= (uint64_t)base; }
        for (uint64_t code = 0; code < total; ++code)
        {
            if (!R.shard.mine(item++)) { continue; }
            Req q;
            q.k = k;
            uint64_t cc = code;
            for (int d = 0; d < k; ++d) { q.d0[d] = V[cc % (uint64_t)base]; cc /= (uint64_t)base; q.d1[d] = V[cc % (uint64_t)base]; cc /= (uint64_t)base; }
            for (double ts : T) { q.ts = ts; one(q); }
            R.tick();
        }
        // unit boundary vectors (one non-zero datum), scaled: isolates every numeric constant of the closed forms
        for (int slot = 0; slot < slots; ++slot)
        {
            // the last two scales are far below the machine epsilon: "rounding error proportional to the size of the boundary data" means the
            // data are never compared with an absolute threshold
            for (double sc : {1.0, -1.0, std::ldexp(1.0, 20), std::ldexp(1.0, -20), 3.0, std::ldexp(1.0, sizeof(a_real) == 4 ? -30 : -60), std::ldexp(-3.0, sizeof(a_real) == 4 ? -36 : -90)})
            {
                if (!R.shard.mine(item++)) { continue; }
                Req q;
                q.k = k;
                for (int d = 0; d < 4; ++d) { q.d0[d] = q.d1[d] = 0; }
                (slot % 2 ? q.d1 : q.d0)[slot / 2] = sc;
                for (double ts : T) { q.ts = ts; one(q); }
            }
        }
    }
    R.part(std::string("cubic/quintic/septic generators (" RNAME "): every boundary tuple over {-2,0,1,3} (septic: ") + (thorough ? "{-2,0,1,3}" : "{-2,0,3}") + ") and every unit boundary vector scaled by 1,-1,3,2^+-20, x " + std::to_string(T.size()) + " durations (2^-12..2^12, 3, 10, 0.1, 1e-3, 1e3); 25 checks per request", n_eval, n_nt);
    R.sample("{\"degree\":7,\"ts\":0.5,\"p0\":-2,\"p1\":3,\"v0\":0,\"v1\":1,\"a0\":3,\"a1\":-2,\"j0\":1,\"j1\":0,\"checks\":\"initial data exact, 8 coefficients vs quad solution of the boundary system, final data, derivatives vs Horner of derivative polynomials, accessors\"}");
}

// ---------------------------------------------------------------- polynomial evaluation
static void polys(bool thorough)
{
    uint64_t n = 0, nt = 0, item = 0;
    static const double V[4] = {-2, 0, 1, 3};
    static const double X[8] = {0, 1, -1, 0.5, -0.5, 2, 10, -3};
    int maxn = thorough ? 8 : 7;
    for (int len = 0; len <= maxn; ++len)
    {
        uint64_t total = 1;
        for (int i = 0; i < len; ++i) { total *= 4; }
        for (uint64_t code = 0; code < total; ++code)
        {
            if (!R.shard.mine(item++)) { continue; }
            a_real a[8], b[8], s2[8];
            uint64_t cc = code;
            for (int i = 0; i < len; ++i) { a[i] = (a_real)V[cc & 3]; cc >>= 2; }
            for (int i = 0; i < len; ++i) { b[i] = a[len - 1 - i]; }
            // order reversal is an involution and is the reversal
            memcpy(s2, a, sizeof(a_real) * (size_t)len);
            a_poly_swap(s2, (a_size)len);
            bool rev_ok = same_vec(s2, b, len);
            a_poly_swap(s2, (a_size)len);
            bool inv_ok = same_vec(s2, a, len);
            // the pointer-range form reverses [first, last) likewise
            if (len > 0)
            {
                a_real s3[10];
                s3[0] = (a_real)-777; s3[len + 1] = (a_real)-777;
                memcpy(s3 + 1, a, sizeof(a_real) * (size_t)len);
                a_poly_swap_(s3 + 1, s3 + 1 + len);
                if (!same_vec(s3 + 1, b, len) || s3[0] != (a_real)-777 || s3[len + 1] != (a_real)-777) { rev_ok = false; }
            }
            ++n;
            std::string in = "{\"n\":" + std::to_string(len) + ",\"code\":" + std::to_string(code) + "}";
            std::string ncls = len == 0 ? "n=0" : len == 1 ? "n=1" : "n>1";
            if (!rev_ok) { R.viol("poly_swap|reversal|" + ncls, "a_poly_swap does not reverse the coefficient order", in); }
            else if (!inv_ok) { R.viol("poly_swap|involution|" + ncls, "a_poly_swap applied twice does not restore the coefficients", in); }
            for (double xd : X)
            {
                a_real x = (a_real)xd;
                long double want = 0; // exact on this dyadic domain
                for (int i = len - 1; i >= 0; --i) { want = want * (long double)x + (long double)a[i]; }
                bool exact = std::fabs((double)want) < (EPS == (double)FLT_EPSILON ? 1e6 : 1e15) && (std::fabs(xd) <= 2 || len <= (EPS == (double)FLT_EPSILON ? 6 : 8));
                a_real e1 = a_poly_eval(a, (a_size)len, x), e3 = a_poly_evar(b, (a_size)len, x);
                a_real e2 = len ? a_poly_eval_(a, a + len, x) : 0, e4 = len ? a_poly_evar_(b, b + len, x) : 0;
                n += 4;
                nt += len > 1 ? 4 : 0;
                double tol = exact ? 0 : 16 * EPS * std::fabs((double)want) + 1e-30;
                auto bad = [&](a_real g) { return !(std::fabs((double)((long double)g - want)) <= tol); };
                std::string in2 = "{\"n\":" + std::to_string(len) + ",\"code\":" + std::to_string(code) + ",\"x\":" + num(xd) + "}";
                if (bad(e1)) { R.viol("poly_eval|horner|" + ncls, "a_poly_eval of " + std::to_string(len) + " coefficients (low order first) at x=" + num(xd) + " is " + num((double)e1) + ", Horner gives " + num((double)want), in2); }
                else if (len && bad(e2)) { R.viol("poly_eval_|horner|" + ncls, "a_poly_eval_ differs from the Horner value", in2); }
                if (bad(e3)) { R.viol("poly_evar|horner|" + ncls, "a_poly_evar of " + std::to_string(len) + " coefficients (high order first) at x=" + num(xd) + " is " + num((double)e3) + ", Horner gives " + num((double)want), in2); }
                else if (len && bad(e4)) { R.viol("poly_evar_|horner|" + ncls, "a_poly_evar_ differs from the Horner value", in2); }
            }
        }
    }
    // longer vectors (an implementation may treat them by a different kernel): every vector with one or two non-zero coefficients
    // from {1,-2,3}, the all-ones and the alternating vector, lengths up to 24 (40)
    {
        int maxl = thorough ? 40 : 24;
        static const double NZ[3] = {1, -2, 3};
        for (int len = maxn + 1; len <= maxl; ++len)
        {
            for (int i = -2; i < len; ++i)
            {
                for (int j = i < 0 ? len - 1 : i; j < len; ++j)
                {
                    for (int vi = 0; vi < (i < 0 ? 1 : 3); ++vi)
                    {
                        for (int vj = 0; vj < (i < 0 || j == i ? 1 : 3); ++vj)
                        {
                            if (!R.shard.mine(item++)) { continue; }
                            a_real a[40], b[40], s2[42];
                            for (int k = 0; k < len; ++k) { a[k] = i == -2 ? 1 : i == -1 ? (k & 1 ? -1 : 1) : 0; }
                            if (i >= 0) { a[j] = (a_real)NZ[vj]; a[i] = (a_real)NZ[vi]; }
                            for (int k = 0; k < len; ++k) { b[k] = a[len - 1 - k]; }
                            std::string in = "{\"n\":" + std::to_string(len) + ",\"nonzero\":[" + std::to_string(i) + "," + std::to_string(j) + "],\"values\":[" + num(NZ[vi]) + "," + num(NZ[vj]) + "]}";
                            s2[0] = (a_real)-777; s2[len + 1] = (a_real)-777;
                            memcpy(s2 + 1, a, sizeof(a_real) * (size_t)len);
                            a_poly_swap(s2 + 1, (a_size)len);
                            bool rev_ok = same_vec(s2 + 1, b, len);
                            a_poly_swap_(s2 + 1, s2 + 1 + len);
                            bool inv_ok = same_vec(s2 + 1, a, len) && s2[0] == (a_real)-777 && s2[len + 1] == (a_real)-777;
                            ++n;
                            if (!rev_ok) { R.viol("poly_swap|reversal|long", "a_poly_swap does not reverse the coefficient order of " + std::to_string(len) + " coefficients", in); }
                            else if (!inv_ok) { R.viol("poly_swap|involution|long", "a_poly_swap then a_poly_swap_ does not restore the " + std::to_string(len) + " coefficients (or wrote outside them)", in); }
                            for (double xd : X)
                            {
                                a_real x = (a_real)xd;
                                long double want = 0, mag = 0;
                                for (int k = len - 1; k >= 0; --k) { want = want * (long double)x + (long double)a[k]; mag = mag * fabsl((long double)x) + fabsl((long double)a[k]); }
                                if (!(mag < (EPS == (double)FLT_EPSILON ? 1e30L : 1e300L))) { continue; }
                                a_real g[4] = {a_poly_eval(a, (a_size)len, x), a_poly_eval_(a, a + len, x), a_poly_evar(b, (a_size)len, x), a_poly_evar_(b, b + len, x)};
                                static const char *FN[4] = {"poly_eval", "poly_eval_", "poly_evar", "poly_evar_"};
                                n += 4; nt += 4;
                                double tol = 4 * len * EPS * (double)mag;
                                for (int f = 0; f < 4; ++f)
                                {
                                    if (!(std::fabs((double)((long double)g[f] - want)) <= tol))
                                    {
                                        R.viol(std::string(FN[f]) + "|horner|long", std::string("a_") + FN[f] + " of " + std::to_string(len) + " coefficients at x=" + num(xd) + " is " + num((double)g[f]) + ", Horner gives " + num((double)want), in);
                                        break;
                                    }
                                }
                            }
                        }
                    }
                }
            }
        }
    }
    R.part(std::string("polynomial evaluation (" RNAME "): every coefficient vector of length 0..") + std::to_string(maxn) + " over {-2,0,1,3} x x in {0,+-1,+-1/2,2,10,-3}, and for lengths up to " + std::to_string(thorough ? 40 : 24) + " every vector with one or two non-zero coefficients from {1,-2,3}, the all-ones and the alternating vector: eval/eval_ (low order first), evar/evar_ on the reversed vector, swap is the reversal and an involution", n, nt);
    R.sample("{\"coefficients\":[1,-2,3],\"x\":2,\"eval\":9,\"evar_of_reversed\":9}");
}

// ---------------------------------------------------------------- evaluation where a bare power of x leaves the range, and in-place accessors
// Horner's rule never forms x^i alone: with vanishing high-order coefficients a huge argument, and with a huge leading coefficient a tiny
// argument, give representable values.  The coefficient accessors are also called with the object's own coefficient array as output
// (turning a copy of a trajectory into its velocity / acceleration / jerk polynomial): the result is the same as with a separate array.
static void extremes()
{
    if (R.shard.idx != 0) { return; }
    uint64_t n = 0;
    const int HE = sizeof(a_real) == 4 ? 100 : 600; // 2^HE squared overflows, 2^-HE squared underflows
    struct Case { a_real a[4]; int len; a_real x; long double want; };
    const a_real big = (a_real)std::ldexp(1.0, HE), tiny = (a_real)std::ldexp(1.0, -HE);
    const Case cs[] = {
        {{1, 2, 0, 0}, 4, big, 1 + 2 * (long double)big},
        {{-3, 1, 0, 0}, 4, (a_real)-big, -3 - (long double)big},
        {{5, 0, 0, 0}, 4, big, 5},
        {{0, 0, (a_real)std::ldexp(1.0, HE), 0}, 3, tiny, (long double)tiny},                                   // 2^HE x^2 at x = 2^-HE is 2^-HE
        {{0, 0, 0, (a_real)std::ldexp(1.0, HE)}, 4, (a_real)std::ldexp(1.0, -HE / 2), (long double)std::ldexp(1.0, HE - 3 * (HE / 2))},
    };
    for (const Case &c : cs)
    {
        a_real b[4];
        for (int i = 0; i < c.len; ++i) { b[i] = c.a[c.len - 1 - i]; }
        a_real got[4] = {a_poly_eval(c.a, (a_size)c.len, c.x), a_poly_eval_(c.a, c.a + c.len, c.x), a_poly_evar(b, (a_size)c.len, c.x), a_poly_evar_(b, b + c.len, c.x)};
        static const char *FN[4] = {"a_poly_eval", "a_poly_eval_", "a_poly_evar", "a_poly_evar_"};
        for (int f = 0; f < 4; ++f)
        {
            ++n;
            if (!(std::fabs((double)(((long double)got[f] - c.want) / c.want)) <= 8 * EPS)) { R.viol(std::string(FN[f]) + "|extreme-argument", std::string(FN[f]) + " at x = " + num((double)c.x) + " returned " + num((double)got[f]) + ", the Horner value is " + num((double)c.want) + " (a bare power of x over- or underflows, the nested form does not)", "{\"x\":" + num((double)c.x) + ",\"len\":" + std::to_string(c.len) + "}"); }
        }
    }
    // in-place accessors
    {
        a_trajpoly3 t3; a_trajpoly5 t5; a_trajpoly7 t7;
        a_trajpoly3_gen(&t3, 2, 1, 4, -1, 2);
        a_trajpoly5_gen(&t5, 2, 1, 4, -1, 2, 3, -2);
        a_trajpoly7_gen(&t7, 2, 1, 4, -1, 2, 3, -2, 1, -1);
        a_real s[8];
        bool ok = true;
        std::string which;
#define INPLACE(T, obj, fn, cnt) do { T d_ = obj; fn(&obj, s); fn(&d_, d_.c); ++n; if (!same_vec(s, d_.c, cnt)) { ok = false; which = #fn; } } while (0)
        INPLACE(a_trajpoly3, t3, a_trajpoly3_c0, 4); INPLACE(a_trajpoly3, t3, a_trajpoly3_c1, 3); INPLACE(a_trajpoly3, t3, a_trajpoly3_c2, 2);
        INPLACE(a_trajpoly5, t5, a_trajpoly5_c0, 6); INPLACE(a_trajpoly5, t5, a_trajpoly5_c1, 5); INPLACE(a_trajpoly5, t5, a_trajpoly5_c2, 4);
        INPLACE(a_trajpoly7, t7, a_trajpoly7_c0, 8); INPLACE(a_trajpoly7, t7, a_trajpoly7_c1, 7); INPLACE(a_trajpoly7, t7, a_trajpoly7_c2, 6); INPLACE(a_trajpoly7, t7, a_trajpoly7_c3, 5);
#undef INPLACE
        if (!ok) { R.viol(which + "|in-place", which + " with the object's own coefficient array as output does not give the coefficients it gives with a separate array", "{\"fn\":\"" + which + "\"}"); }
    }
    R.part("evaluation at arguments whose bare powers leave the range (2^+-" + std::to_string(HE) + "), coefficient accessors writing into the object's own array", n, n);
}

// ---------------------------------------------------------------- evaluation again after the coefficients changed in place
// straight-line code through opaque pointers at -O2: an evaluator reads the coefficients (the trajectory object) as they are at the
// moment of the call; a declaration that promises independence from memory would let the compiler reuse the earlier value
static __attribute__((noinline)) void eval_twice(a_real *c, a_size n, a_trajpoly3 *t3, a_trajpoly5 *t5, a_trajpoly7 *t7, a_real x, a_real *out)
{
    // written out twice, not looped: both evaluations of each function are in one basic block, where a compiler that has been told
    // the functions do not read memory merges them
#define EVAL14(o) \
    (o)[0] = a_poly_eval(c, n, x); (o)[1] = a_poly_evar(c, n, x); (o)[2] = a_poly_eval_(c, c + n, x); (o)[3] = a_poly_evar_(c, c + n, x); \
    (o)[4] = a_trajpoly3_pos(t3, x); (o)[5] = a_trajpoly3_vel(t3, x); (o)[6] = a_trajpoly3_acc(t3, x); \
    (o)[7] = a_trajpoly5_pos(t5, x); (o)[8] = a_trajpoly5_vel(t5, x); (o)[9] = a_trajpoly5_acc(t5, x); \
    (o)[10] = a_trajpoly7_pos(t7, x); (o)[11] = a_trajpoly7_vel(t7, x); (o)[12] = a_trajpoly7_acc(t7, x); (o)[13] = a_trajpoly7_jer(t7, x)
    EVAL14(out);
    c[0] += 3; c[n - 1] -= 2;
    t3->c[0] += 1; t3->c[1] += 2; t3->c[2] += 3; t3->c[3] += 4;
    t5->c[0] += 1; t5->c[1] += 2; t5->c[2] += 3; t5->c[3] += 4; t5->c[4] += 5; t5->c[5] += 6;
    t7->c[0] += 1; t7->c[1] += 2; t7->c[2] += 3; t7->c[3] += 4; t7->c[4] += 5; t7->c[5] += 6; t7->c[6] += 7; t7->c[7] += 8;
    EVAL14(out + 14);
#undef EVAL14
}
static void reread()
{
    if (R.shard.idx != 0) { return; }
    uint64_t n = 0;
    a_real c[6] = {1, -2, 3, 1, 0, 2};
    a_trajpoly3 t3; a_trajpoly5 t5; a_trajpoly7 t7;
    for (int i = 0; i < 4; ++i) { t3.c[i] = (a_real)(i % 3) - 1; }
    for (int i = 0; i < 6; ++i) { t5.c[i] = (a_real)(i % 3) - 1; }
    for (int i = 0; i < 8; ++i) { t7.c[i] = (a_real)(i % 3) - 1; }
    double c0[6], k3[4], k5[6], k7[8];
    for (int i = 0; i < 6; ++i) { c0[i] = (double)c[i]; }
    for (int i = 0; i < 4; ++i) { k3[i] = (double)t3.c[i]; }
    for (int i = 0; i < 6; ++i) { k5[i] = (double)t5.c[i]; }
    for (int i = 0; i < 8; ++i) { k7[i] = (double)t7.c[i]; }
    a_real out[28];
    a_real *volatile vc = c;
    a_trajpoly3 *volatile v3 = &t3; a_trajpoly5 *volatile v5 = &t5; a_trajpoly7 *volatile v7 = &t7;
    const double x = 2;
    eval_twice(vc, 6, v3, v5, v7, (a_real)x, out);
    auto horner = [](const double *k, int m, double xx, int der) { // d^der/dx^der of sum k[i] x^i, low order first; small integers: exact
        double v = 0;
        for (int i = m - 1; i >= der; --i) { double f = 1; for (int j = 0; j < der; ++j) { f *= (double)(i - j); } v = v * xx + f * k[i]; }
        return v;
    };
    for (int st = 0; st < 2; ++st)
    {
        if (st) { c0[0] += 3; c0[5] -= 2; for (int i = 0; i < 4; ++i) { k3[i] += i + 1; } for (int i = 0; i < 6; ++i) { k5[i] += i + 1; } for (int i = 0; i < 8; ++i) { k7[i] += i + 1; } }
        double rev[6];
        for (int i = 0; i < 6; ++i) { rev[i] = c0[5 - i]; }
        double want[14] = {horner(c0, 6, x, 0), horner(rev, 6, x, 0), horner(c0, 6, x, 0), horner(rev, 6, x, 0),
                           horner(k3, 4, x, 0), horner(k3, 4, x, 1), horner(k3, 4, x, 2), horner(k5, 6, x, 0), horner(k5, 6, x, 1), horner(k5, 6, x, 2),
                           horner(k7, 8, x, 0), horner(k7, 8, x, 1), horner(k7, 8, x, 2), horner(k7, 8, x, 3)};
        static const char *FN[14] = {"a_poly_eval", "a_poly_evar", "a_poly_eval_", "a_poly_evar_", "a_trajpoly3_pos", "a_trajpoly3_vel", "a_trajpoly3_acc", "a_trajpoly5_pos", "a_trajpoly5_vel", "a_trajpoly5_acc",
                                     "a_trajpoly7_pos", "a_trajpoly7_vel", "a_trajpoly7_acc", "a_trajpoly7_jer"};
        for (int f = 0; f < 14; ++f)
        {
            ++n;
            if ((double)out[st * 14 + f] != want[f]) { R.viol(std::string(FN[f]) + "|reread", std::string(FN[f]) + (st ? " called again with the same pointer after the coefficients changed in place" : " on integer coefficients at x = 2") + " returned " + num((double)out[st * 14 + f]) + ", the coefficients give " + num(want[f]), "{\"edit\":" + std::to_string(st) + "}"); }
        }
    }
    R.part("polynomial and trajectory evaluators called again with the same pointers after the coefficients changed in place (straight-line code at -O2)", n, n);
}

int main(int argc, char **argv)
{
    vx::Args args(argc, argv);
    R.init(args);
    bool thorough = R.tier == "thorough";
    return vx::run_contained([&] {
        trajectories(thorough);
        polys(thorough);
        extremes();
        reread();
        std::string w = "{\"coefficient_err_eps\":" + num(worst[0]) + ",\"final_err_eps\":" + num(worst[1]) + ",\"derivative_err_eps\":" + num(worst[2]) + "}";
        vx::info("worst_observed", w);
        {
            std::string f = "{";
            for (int k = 2; k <= 4; ++k) { for (int d = 0; d < 4; ++d) { f += (f.size() > 1 ? "," : "") + std::string("\"deg") + std::to_string(2 * k - 1) + "_d" + std::to_string(d) + "\":" + num(worstF[k][d]); } }
            vx::info("worst_final_err_eps", f + "}");
        }
        R.finish(true, "every listed domain enumerated");
    }, 120.0);
}
