// fuzzy_ref.hpp — independent reference (long double) for membership functions, the seven fuzzy
// operators and the mean-of-centres gain scheduling of the fuzzy PID controller.  Used by C12 and C13.
#pragma once
#include <cmath>
#include <vector>
#include <cfloat>

extern "C" {
#include "a/mf.h"
#include "a/fuzzy.h"
#include "a/pid_fuzzy.h"
}

namespace fref {

typedef long double L;

// number of parameters of each membership function kind (0 = terminator / unknown)
inline int mf_arity(int e)
{
    switch (e)
    {
    case A_MF_GAUSS: case A_MF_SIG: case A_MF_LINS: case A_MF_LINZ: case A_MF_S: case A_MF_Z: return 2;
    case A_MF_GBELL: case A_MF_TRI: return 3;
    case A_MF_GAUSS2: case A_MF_DSIG: case A_MF_PSIG: case A_MF_TRAP: case A_MF_PI: return 4;
    }
    return 0;
}
inline L sig(L x, L a, L c) { return 1 / (1 + expl(-a * (x - c))); }
inline L smf(L x, L a, L b)
{
    if (x <= a) { return 0; }
    if (x >= b) { return 1; }
    L t = (x - a) / (b - a);
    return x <= (a + b) / 2 ? 2 * t * t : 1 - 2 * (1 - t) * (1 - t);
}
// documented piecewise shapes; zero-width flanks are steps, the core (and a peak coinciding with a foot) is 1
inline L mf(int e, L x, const L *p)
{
    switch (e)
    {
    case A_MF_GAUSS: return expl(-((x - p[1]) / p[0]) * ((x - p[1]) / p[0]) / 2);
    case A_MF_GAUSS2: return x < p[1] ? mf(A_MF_GAUSS, x, p) : x > p[3] ? mf(A_MF_GAUSS, x, p + 2) : 1;
    case A_MF_GBELL: return 1 / (1 + powl(fabsl((x - p[2]) / p[0]), 2 * p[1]));
    case A_MF_SIG: return sig(x, p[0], p[1]);
    case A_MF_DSIG: return sig(x, p[0], p[1]) - sig(x, p[2], p[3]);
    case A_MF_PSIG: return sig(x, p[0], p[1]) * sig(x, p[2], p[3]);
    case A_MF_TRAP:
        if (x >= p[1] && x <= p[2]) { return 1; }
        if (x <= p[0] || x >= p[3]) { return 0; }
        return x < p[1] ? (x - p[0]) / (p[1] - p[0]) : (p[3] - x) / (p[3] - p[2]);
    case A_MF_TRI:
        if (x == p[1]) { return 1; }
        if (x <= p[0] || x >= p[2]) { return 0; }
        return x < p[1] ? (x - p[0]) / (p[1] - p[0]) : (p[2] - x) / (p[2] - p[1]);
    case A_MF_LINS: return x < p[0] ? 0 : x >= p[1] ? 1 : (x - p[0]) / (p[1] - p[0]);
    case A_MF_LINZ: return x < p[0] ? 1 : x >= p[1] ? 0 : (p[1] - x) / (p[1] - p[0]);
    case A_MF_S: return smf(x, p[0], p[1]);
    case A_MF_Z: return 1 - smf(x, p[0], p[1]);
    case A_MF_PI: return x < p[1] ? smf(x, p[0], p[1]) : x > p[2] ? 1 - smf(x, p[2], p[3]) : 1;
    }
    return 0;
}
inline L opr(int o, L a, L b)
{
    switch (o)
    {
    case A_PID_FUZZY_CAP: return a < b ? a : b;
    case A_PID_FUZZY_CAP_ALGEBRA: return a * b;
    case A_PID_FUZZY_CAP_BOUNDED: return a + b - 1 > 0 ? a + b - 1 : 0;
    case A_PID_FUZZY_CUP: return a > b ? a : b;
    case A_PID_FUZZY_CUP_ALGEBRA: return a + b - a * b;
    case A_PID_FUZZY_CUP_BOUNDED: return a + b < 1 ? a + b : 1;
    default: return sqrtl(a * b) * sqrtl(1 - (1 - a) * (1 - b)); // A_PID_FUZZY_EQU
    }
}

struct Active
{
    std::vector<unsigned> idx;
    std::vector<L> val;
};
// memberships of x in the sets of a parameter table; a set is active when its degree exceeds the real type's epsilon
inline Active active_sets(unsigned n, const a_real *tab, L x, L eps)
{
    Active A;
    const a_real *a = tab;
    for (unsigned i = 0; i < n; ++i)
    {
        int e = (int)*a++;
        int k = mf_arity(e);
        if (!k) { break; }
        L p[4];
        for (int j = 0; j < k; ++j) { p[j] = a[j]; }
        a += k;
        L y = mf(e, x, p);
        if (y > eps) { A.idx.push_back(i); A.val.push_back(y); }
    }
    return A;
}
struct Gains
{
    L kp = 0, ki = 0, kd = 0;       // corrections (to be added to the base gains)
    L lo[3] = {0, 0, 0}, hi[3] = {0, 0, 0}; // smallest / largest consequent among the active rules
    unsigned ne = 0, nec = 0;
    L strength = 0;
    bool any = false; // some rule fired with positive strength
    L near_threshold = 1; // smallest |membership - eps| seen: decisions too close to the activity threshold are not compared
};
inline Gains infer(unsigned n, const a_real *me, const a_real *mec, const a_real *tkp, const a_real *tki, const a_real *tkd, int o, L e, L ec, L eps)
{
    Gains G;
    Active E = active_sets(n, me, e, eps), C = active_sets(n, mec, ec, eps);
    G.ne = (unsigned)E.idx.size();
    G.nec = (unsigned)C.idx.size();
    if (!G.ne || !G.nec) { return G; }
    L skp = 0, ski = 0, skd = 0, sw = 0;
    bool first = true;
    for (unsigned i = 0; i < G.ne; ++i)
    {
        for (unsigned j = 0; j < G.nec; ++j)
        {
            L w = opr(o, E.val[i], C.val[j]);
            size_t at = (size_t)E.idx[i] * n + C.idx[j];
            sw += w;
            const a_real *T[3] = {tkp, tki, tkd};
            L *S[3] = {&skp, &ski, &skd};
            for (int t = 0; t < 3; ++t)
            {
                if (!T[t]) { continue; }
                *S[t] += w * T[t][at];
                if (first || T[t][at] < G.lo[t]) { G.lo[t] = T[t][at]; }
                if (first || T[t][at] > G.hi[t]) { G.hi[t] = T[t][at]; }
            }
            first = false;
        }
    }
    G.strength = sw;
    if (sw > 0)
    {
        G.any = true;
        G.kp = skp / sw;
        G.ki = ski / sw;
        G.kd = skd / sw;
    }
    return G;
}

} // namespace fref
