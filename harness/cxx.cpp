// cxx.cpp — the C++ member wrappers declared inside the anchored headers (include/a/*.h, `#if defined(__cplusplus)` blocks)
// forward to the C functions the properties are stated for.  A C++ caller reaches the property only through them, so every wrapper
// is executed next to the C function it names, on argument tuples whose values are pairwise distinct (a swapped, dropped or
// duplicated argument changes the result), and the two objects must end up byte-identical and return the same value.
// usage: cxx --module pid|traj|poly|filt   (one module per property: C12, C14, C15, C16)
#include "../engine/grid.hpp"
#include <cmath>
#include <cstring>
#include <vector>

#include "a/pid.h"
#include "a/pid_neuro.h"
#include "a/pid_fuzzy.h"
#include "a/tf.h"
#include "a/lpf.h"
#include "a/hpf.h"
#include "a/trajpoly3.h"
#include "a/trajpoly5.h"
#include "a/trajpoly7.h"
#include "a/trajtrap.h"
#include "a/trajbell.h"
#include "a/mf.h"

static grid::Run R;
static uint64_t n_eval;
static std::string num(double v)
{
    char b[40];
    snprintf(b, sizeof b, "%.17g", v);
    return b;
}
template <class T>
static bool same(const T &a, const T &b) { return memcmp(&a, &b, sizeof(T)) == 0; }
static bool same_real(a_real a, a_real b) { return memcmp(&a, &b, sizeof a) == 0 || (a != a && b != b); }
static void differ(const std::string &mod, const std::string &member, const std::string &what)
{
    R.viol("cxx|" + mod + "|" + member, "the C++ member " + member + " does not behave like the C function it wraps: " + what, "{\"member\":\"" + member + "\"}");
}
#define CHECK_OBJ(mod, member, a, b) do { ++n_eval; if (!same(a, b)) { differ(mod, member, "the objects differ after the call"); } } while (0)
#define CHECK_RET(mod, member, a, b) do { ++n_eval; if (!same_real(a, b)) { differ(mod, member, "it returns " + num((double)(a)) + ", the C function " + num((double)(b))); } } while (0)

// argument tuples with pairwise distinct entries; several so that a coincidence cannot hide a swap
static const double TUP[4][8] = {{0.5, 1.25, -2.0, 3.0, -0.75, 1.5, -1.0, 2.5}, {2.0, -1.0, 0.25, -3.5, 1.75, -0.5, 4.0, -2.25}, {1.0, 0.0, 5.0, 0.5, -0.25, 2.0, -3.0, 0.125}, {0.25, 3.0, 1.0, -1.5, 2.0, 0.75, -0.5, 1.0}};

// ------------------------------------------------------------------------------------------------ C15
static void mod_poly()
{
    vx::mark("mod_poly");
    for (const double *t : {TUP[0], TUP[1], TUP[2], TUP[3]})
    {
        a_real ts = (a_real)std::fabs(t[0]) + (a_real)0.5;
        a_real xs[4] = {0, ts, (a_real)(ts / 3), (a_real)(ts * 0.75)};
        {
            a_trajpoly3 c, m;
            memset(&c, 0x41, sizeof c); memset(&m, 0x41, sizeof m);
            a_trajpoly3_gen(&c, ts, (a_real)t[1], (a_real)t[2], (a_real)t[3], (a_real)t[4]);
            m.gen(ts, (a_real)t[1], (a_real)t[2], (a_real)t[3], (a_real)t[4]);
            CHECK_OBJ("trajpoly3", "gen", c, m);
            for (a_real x : xs)
            {
                CHECK_RET("trajpoly3", "pos", m.pos(x), a_trajpoly3_pos(&c, x));
                CHECK_RET("trajpoly3", "vel", m.vel(x), a_trajpoly3_vel(&c, x));
                CHECK_RET("trajpoly3", "acc", m.acc(x), a_trajpoly3_acc(&c, x));
            }
            a_real a[4], b[4];
            a_trajpoly3_c0(&c, a); m.c0(b); ++n_eval; if (memcmp(a, b, sizeof(a_real) * 4)) { differ("trajpoly3", "c0", "coefficients differ"); }
            a_trajpoly3_c1(&c, a); m.c1(b); ++n_eval; if (memcmp(a, b, sizeof(a_real) * 3)) { differ("trajpoly3", "c1", "coefficients differ"); }
            a_trajpoly3_c2(&c, a); m.c2(b); ++n_eval; if (memcmp(a, b, sizeof(a_real) * 2)) { differ("trajpoly3", "c2", "coefficients differ"); }
            // default arguments: velocities default to zero
            a_trajpoly3 d, e;
            memset(&d, 0x41, sizeof d); memset(&e, 0x41, sizeof e);
            a_trajpoly3_gen(&d, ts, (a_real)t[1], (a_real)t[2], 0, 0);
            e.gen(ts, (a_real)t[1], (a_real)t[2]);
            CHECK_OBJ("trajpoly3", "gen(defaults)", d, e);
        }
        {
            a_trajpoly5 c, m;
            memset(&c, 0x41, sizeof c); memset(&m, 0x41, sizeof m);
            a_trajpoly5_gen(&c, ts, (a_real)t[1], (a_real)t[2], (a_real)t[3], (a_real)t[4], (a_real)t[5], (a_real)t[6]);
            m.gen(ts, (a_real)t[1], (a_real)t[2], (a_real)t[3], (a_real)t[4], (a_real)t[5], (a_real)t[6]);
            CHECK_OBJ("trajpoly5", "gen", c, m);
            for (a_real x : xs)
            {
                CHECK_RET("trajpoly5", "pos", m.pos(x), a_trajpoly5_pos(&c, x));
                CHECK_RET("trajpoly5", "vel", m.vel(x), a_trajpoly5_vel(&c, x));
                CHECK_RET("trajpoly5", "acc", m.acc(x), a_trajpoly5_acc(&c, x));
            }
            a_real a[6], b[6];
            a_trajpoly5_c0(&c, a); m.c0(b); ++n_eval; if (memcmp(a, b, sizeof(a_real) * 6)) { differ("trajpoly5", "c0", "coefficients differ"); }
            a_trajpoly5_c1(&c, a); m.c1(b); ++n_eval; if (memcmp(a, b, sizeof(a_real) * 5)) { differ("trajpoly5", "c1", "coefficients differ"); }
            a_trajpoly5_c2(&c, a); m.c2(b); ++n_eval; if (memcmp(a, b, sizeof(a_real) * 4)) { differ("trajpoly5", "c2", "coefficients differ"); }
            a_trajpoly5 d, e;
            memset(&d, 0x41, sizeof d); memset(&e, 0x41, sizeof e);
            a_trajpoly5_gen(&d, ts, (a_real)t[1], (a_real)t[2], (a_real)t[3], (a_real)t[4], 0, 0);
            e.gen(ts, (a_real)t[1], (a_real)t[2], (a_real)t[3], (a_real)t[4]);
            CHECK_OBJ("trajpoly5", "gen(defaults)", d, e);
        }
        {
            a_trajpoly7 c, m;
            memset(&c, 0x41, sizeof c); memset(&m, 0x41, sizeof m);
            a_trajpoly7_gen(&c, ts, (a_real)t[1], (a_real)t[2], (a_real)t[3], (a_real)t[4], (a_real)t[5], (a_real)t[6], (a_real)t[7], (a_real)t[0]);
            m.gen(ts, (a_real)t[1], (a_real)t[2], (a_real)t[3], (a_real)t[4], (a_real)t[5], (a_real)t[6], (a_real)t[7], (a_real)t[0]);
            CHECK_OBJ("trajpoly7", "gen", c, m);
            for (a_real x : xs)
            {
                CHECK_RET("trajpoly7", "pos", m.pos(x), a_trajpoly7_pos(&c, x));
                CHECK_RET("trajpoly7", "vel", m.vel(x), a_trajpoly7_vel(&c, x));
                CHECK_RET("trajpoly7", "acc", m.acc(x), a_trajpoly7_acc(&c, x));
                CHECK_RET("trajpoly7", "jer", m.jer(x), a_trajpoly7_jer(&c, x));
            }
            a_real a[8], b[8];
            a_trajpoly7_c0(&c, a); m.c0(b); ++n_eval; if (memcmp(a, b, sizeof(a_real) * 8)) { differ("trajpoly7", "c0", "coefficients differ"); }
            a_trajpoly7_c1(&c, a); m.c1(b); ++n_eval; if (memcmp(a, b, sizeof(a_real) * 7)) { differ("trajpoly7", "c1", "coefficients differ"); }
            a_trajpoly7_c2(&c, a); m.c2(b); ++n_eval; if (memcmp(a, b, sizeof(a_real) * 6)) { differ("trajpoly7", "c2", "coefficients differ"); }
            a_trajpoly7_c3(&c, a); m.c3(b); ++n_eval; if (memcmp(a, b, sizeof(a_real) * 5)) { differ("trajpoly7", "c3", "coefficients differ"); }
            a_trajpoly7 d, e;
            memset(&d, 0x41, sizeof d); memset(&e, 0x41, sizeof e);
            a_trajpoly7_gen(&d, ts, (a_real)t[1], (a_real)t[2], (a_real)t[3], (a_real)t[4], 0, 0, 0, 0);
            e.gen(ts, (a_real)t[1], (a_real)t[2], (a_real)t[3], (a_real)t[4]);
            CHECK_OBJ("trajpoly7", "gen(defaults)", d, e);
        }
    }
    R.part("C++ members of a_trajpoly3/5/7 (gen with all and with defaulted arguments, pos, vel, acc, jer, c0..c3) next to the C functions on 4 tuples of pairwise distinct arguments", n_eval, n_eval);
}

// ------------------------------------------------------------------------------------------------ C14
static void mod_traj()
{
    vx::mark("mod_traj");
    // feasible requests with pairwise distinct magnitudes: (limits..., p0, p1, v0, v1)
    static const double TR[4][7] = {{3, 2, -1.5, 0.25, 4.5, 0.5, 0.75}, {2, 1.5, -2.5, -1, 6, 0.25, 1.25}, {1.5, 3, -2, 5, -2.5, -0.5, -0.25}, {4, 1, -3, 0, 9, 1.5, 0.5}};
    for (const double *t : {TR[0], TR[1], TR[2], TR[3]})
    {
        a_trajtrap c, m;
        memset(&c, 0x41, sizeof c); memset(&m, 0x41, sizeof m);
        a_real T1 = a_trajtrap_gen(&c, (a_real)t[0], (a_real)t[1], (a_real)t[2], (a_real)t[3], (a_real)t[4], (a_real)t[5], (a_real)t[6]);
        a_real T2 = m.gen((a_real)t[0], (a_real)t[1], (a_real)t[2], (a_real)t[3], (a_real)t[4], (a_real)t[5], (a_real)t[6]);
        CHECK_RET("trajtrap", "gen", T2, T1);
        CHECK_OBJ("trajtrap", "gen", c, m);
        for (int i = 0; i <= 8; ++i)
        {
            a_real x = (a_real)(T1 * i / 8);
            CHECK_RET("trajtrap", "pos", m.pos(x), a_trajtrap_pos(&c, x));
            CHECK_RET("trajtrap", "vel", m.vel(x), a_trajtrap_vel(&c, x));
            CHECK_RET("trajtrap", "acc", m.acc(x), a_trajtrap_acc(&c, x));
        }
        a_trajtrap d, e;
        memset(&d, 0x41, sizeof d); memset(&e, 0x41, sizeof e);
        a_trajtrap_gen(&d, (a_real)t[0], (a_real)t[1], (a_real)t[2], (a_real)t[3], (a_real)t[4], 0, 0);
        e.gen((a_real)t[0], (a_real)t[1], (a_real)t[2], (a_real)t[3], (a_real)t[4]);
        CHECK_OBJ("trajtrap", "gen(defaults)", d, e);
    }
    static const double TB[4][7] = {{10, 5, 3, 0.25, 4.5, 0.5, 0.75}, {8, 4, 2, -1, 6, 0.25, 1.25}, {6, 3, 2.5, 5, -2.5, -0.5, -0.25}, {20, 6, 4, 0, 9, 1.5, 0.5}};
    for (const double *t : {TB[0], TB[1], TB[2], TB[3]})
    {
        a_trajbell c, m;
        memset(&c, 0x41, sizeof c); memset(&m, 0x41, sizeof m);
        a_real T1 = a_trajbell_gen(&c, (a_real)t[0], (a_real)t[1], (a_real)t[2], (a_real)t[3], (a_real)t[4], (a_real)t[5], (a_real)t[6]);
        a_real T2 = m.gen((a_real)t[0], (a_real)t[1], (a_real)t[2], (a_real)t[3], (a_real)t[4], (a_real)t[5], (a_real)t[6]);
        CHECK_RET("trajbell", "gen", T2, T1);
        CHECK_OBJ("trajbell", "gen", c, m);
        for (int i = 0; i <= 8; ++i)
        {
            a_real x = (a_real)(T1 * i / 8);
            CHECK_RET("trajbell", "pos", m.pos(x), a_trajbell_pos(&c, x));
            CHECK_RET("trajbell", "vel", m.vel(x), a_trajbell_vel(&c, x));
            CHECK_RET("trajbell", "acc", m.acc(x), a_trajbell_acc(&c, x));
            CHECK_RET("trajbell", "jer", m.jer(x), a_trajbell_jer(&c, x));
        }
        a_trajbell d, e;
        memset(&d, 0x41, sizeof d); memset(&e, 0x41, sizeof e);
        a_trajbell_gen(&d, (a_real)t[0], (a_real)t[1], (a_real)t[2], (a_real)t[3], (a_real)t[4], 0, 0);
        e.gen((a_real)t[0], (a_real)t[1], (a_real)t[2], (a_real)t[3], (a_real)t[4]);
        CHECK_OBJ("trajbell", "gen(defaults)", d, e);
    }
    R.part("C++ members of a_trajtrap / a_trajbell (gen with all and with defaulted velocities, pos, vel, acc, jer at 9 times) next to the C functions on 4 requests each with pairwise distinct arguments", n_eval, n_eval);
}

// ------------------------------------------------------------------------------------------------ C16
static void mod_filt()
{
    vx::mark("mod_filt");
    static const a_real NUM[3] = {(a_real)0.5, (a_real)-0.25, (a_real)2}, DEN[2] = {(a_real)0.125, (a_real)-0.75};
    a_real in1[3], out1[2], in2[3], out2[2];
    for (int k = 0; k < 3; ++k) { in1[k] = in2[k] = 77; }
    for (int k = 0; k < 2; ++k) { out1[k] = out2[k] = 77; }
    a_tf c, m;
    memset(&c, 0x41, sizeof c); memset(&m, 0x41, sizeof m);
    a_tf_init(&c, 3, NUM, in1, 2, DEN, out1);
    m.init(3, NUM, in2, 2, DEN, out2);
    ++n_eval;
    if (c.num_n != m.num_n || c.den_n != m.den_n || c.num_p != m.num_p || c.den_p != m.den_p || m.input != in2 || m.output != out2) { differ("tf", "init", "orders, coefficient or delay-line pointers differ"); }
    static const a_real X[7] = {1, (a_real)-0.5, 2, 0, (a_real)0.25, -3, 1};
    for (int k = 0; k < 7; ++k)
    {
        CHECK_RET("tf", "operator()", m(X[k]), a_tf_iter(&c, X[k]));
        ++n_eval;
        if (memcmp(in1, in2, sizeof in1) || memcmp(out1, out2, sizeof out1)) { differ("tf", "operator()", "the delay lines differ"); }
        if (k == 3) { a_tf_zero(&c); m.zero(); ++n_eval; if (memcmp(in1, in2, sizeof in1) || memcmp(out1, out2, sizeof out1)) { differ("tf", "zero", "the delay lines differ"); } }
    }
    static const a_real NUM2[2] = {(a_real)1.5, (a_real)-1}, DEN2[3] = {(a_real)0.25, (a_real)0.5, (a_real)-0.125};
    a_real in3[2] = {9, 9}, in4[2] = {9, 9}, out3[3] = {9, 9, 9}, out4[3] = {9, 9, 9};
    a_tf_set_num(&c, 2, NUM2, in3); m.set_num(2, NUM2, in4);
    a_tf_set_den(&c, 3, DEN2, out3); m.set_den(3, DEN2, out4);
    ++n_eval;
    if (c.num_n != m.num_n || c.den_n != m.den_n || c.num_p != m.num_p || c.den_p != m.den_p || m.input != in4 || m.output != out4) { differ("tf", "set_num/set_den", "orders, coefficient or delay-line pointers differ"); }
    for (int k = 0; k < 7; ++k) { CHECK_RET("tf", "operator() after set_num/set_den", m(X[k]), a_tf_iter(&c, X[k])); }
    // the sample is an element of the object's own history (feedback of the newest output / input)
    { a_real v = c.output[0]; CHECK_RET("tf", "operator()(own newest output)", m(m.output[0]), a_tf_iter(&c, v)); }
    { a_real v = c.input[1]; CHECK_RET("tf", "operator()(own older input)", m(m.input[1]), a_tf_iter(&c, v)); }
    CHECK_RET("tf", "operator()", m(X[2]), a_tf_iter(&c, X[2]));
    // first-order filters: gen, operator(), zero
    for (const double *t : {TUP[0], TUP[1], TUP[2], TUP[3]})
    {
        a_real fc = (a_real)(std::fabs(t[0]) + 0.5), ts = (a_real)(std::fabs(t[1]) / 16 + 0.01);
        a_lpf lc, lm;
        a_hpf hc, hm;
        memset(&lc, 0x41, sizeof lc); memset(&lm, 0x41, sizeof lm); memset(&hc, 0x41, sizeof hc); memset(&hm, 0x41, sizeof hm);
        a_lpf_init(&lc, a_lpf_gen(fc, ts)); a_lpf_init(&lm, 0); lm.gen(fc, ts);
        a_hpf_init(&hc, a_hpf_gen(fc, ts)); a_hpf_init(&hm, 0); hm.gen(fc, ts);
        CHECK_OBJ("lpf", "gen", lc, lm);
        CHECK_OBJ("hpf", "gen", hc, hm);
        // the generator macros must accept compound expressions (argument hygiene): fc and ts written as sums of exact halves
        a_real fh = fc / 2, th = ts / 2;
        CHECK_RET("lpf", "A_LPF_GEN(compound)", (a_real)A_LPF_GEN(fh + fh, th + th), a_lpf_gen(fc, ts));
        CHECK_RET("hpf", "A_HPF_GEN(compound)", (a_real)A_HPF_GEN(fh + fh, th + th), a_hpf_gen(fc, ts));
        // static initialiser macros, with compound-expression arguments
        {
            a_real al = a_lpf_gen(fc, ts), ahh = al / 2;
            a_lpf i1 = A_LPF_1(ahh + ahh), i2 = A_LPF_2(fh + fh, th + th), r1;
            a_hpf j1 = A_HPF_1(ahh + ahh), j2 = A_HPF_2(fh + fh, th + th), q1, q2;
            a_lpf_init(&r1, al);
            a_hpf_init(&q1, al);
            a_hpf_init(&q2, a_hpf_gen(fc, ts));
            CHECK_OBJ("lpf", "A_LPF_1(compound)", i1, r1);
            CHECK_OBJ("lpf", "A_LPF_2(compound)", i2, lc);
            CHECK_OBJ("hpf", "A_HPF_1(compound)", j1, q1);
            CHECK_OBJ("hpf", "A_HPF_2(compound)", j2, q2);
        }
        for (int k = 0; k < 7; ++k)
        {
            CHECK_RET("lpf", "operator()", lm(X[k]), a_lpf_iter(&lc, X[k]));
            CHECK_RET("hpf", "operator()", hm(X[k]), a_hpf_iter(&hc, X[k]));
            if (k == 4) { a_lpf_zero(&lc); lm.zero(); a_hpf_zero(&hc); hm.zero(); CHECK_OBJ("lpf", "zero", lc, lm); CHECK_OBJ("hpf", "zero", hc, hm); }
        }
        // the sample handed over is one of the object's own fields (a hold / feedback idiom): a by-value parameter sees the value as it was
        // before the call, like the C function given a copy of it
        {
            a_real v = lc.output;
            CHECK_RET("lpf", "operator()(own output)", lm(lm.output), a_lpf_iter(&lc, v));
            CHECK_OBJ("lpf", "operator()(own output)", lc, lm);
            v = hc.output;
            CHECK_RET("hpf", "operator()(own output)", hm(hm.output), a_hpf_iter(&hc, v));
            CHECK_OBJ("hpf", "operator()(own output)", hc, hm);
            v = hc.input;
            CHECK_RET("hpf", "operator()(own input)", hm(hm.input), a_hpf_iter(&hc, v));
            CHECK_OBJ("hpf", "operator()(own input)", hc, hm);
            CHECK_RET("hpf", "operator()", hm(X[1]), a_hpf_iter(&hc, X[1]));
            CHECK_RET("lpf", "operator()", lm(X[2]), a_lpf_iter(&lc, X[2]));
        }
    }
    R.part("C++ members of a_tf (init, set_num, set_den, operator(), zero), a_lpf / a_hpf (gen, operator(), zero) next to the C functions; generator macros with compound-expression arguments", n_eval, n_eval);
}

// ------------------------------------------------------------------------------------------------ C12
static void mod_pid()
{
    vx::mark("mod_pid");
    static const double IN[6][2] = {{1, 0.25}, {-0.5, 0.75}, {2, -1}, {0.125, 1.5}, {-1, -0.25}, {0.5, 0.5}};
    for (int mode = 0; mode < 3; ++mode)
    {
        a_pid c, m;
        memset(&c, 0, sizeof c); memset(&m, 0, sizeof m);
        c.summax = m.summax = 5; c.summin = m.summin = -4; c.outmax = m.outmax = 3; c.outmin = m.outmin = -3;
        a_pid_init(&c); m.init();
        CHECK_OBJ("pid", "init", c, m);
        a_pid_set_kpid(&c, (a_real)1.5, (a_real)0.25, (a_real)0.75); m.set_kpid((a_real)1.5, (a_real)0.25, (a_real)0.75);
        CHECK_OBJ("pid", "set_kpid", c, m);
        for (int k = 0; k < 6; ++k)
        {
            a_real s = (a_real)IN[k][0], f = (a_real)IN[k][1];
            a_real rc = mode == 0 ? a_pid_run(&c, s, f) : mode == 1 ? a_pid_pos(&c, s, f) : a_pid_inc(&c, s, f);
            a_real rm = mode == 0 ? m.run(s, f) : mode == 1 ? m.pos(s, f) : m.inc(s, f);
            CHECK_RET("pid", mode == 0 ? "run" : mode == 1 ? "pos" : "inc", rm, rc);
            CHECK_OBJ("pid", mode == 0 ? "run" : mode == 1 ? "pos" : "inc", c, m);
        }
        a_pid_zero(&c); m.zero();
        CHECK_OBJ("pid", "zero", c, m);
    }
    for (int mode = 0; mode < 2; ++mode)
    {
        a_pid_neuro c, m;
        memset(&c, 0, sizeof c); memset(&m, 0, sizeof m);
        c.pid.summax = m.pid.summax = 5; c.pid.summin = m.pid.summin = -4; c.pid.outmax = m.pid.outmax = 3; c.pid.outmin = m.pid.outmin = -3;
        a_pid_neuro_init(&c); m.init();
        CHECK_OBJ("pid_neuro", "init", c, m);
        a_pid_neuro_set_kpid(&c, (a_real)2, (a_real)1.5, (a_real)0.25, (a_real)0.75); m.set_kpid((a_real)2, (a_real)1.5, (a_real)0.25, (a_real)0.75);
        CHECK_OBJ("pid_neuro", "set_kpid", c, m);
        a_pid_neuro_set_wpid(&c, (a_real)0.5, (a_real)0.125, (a_real)0.25); m.set_wpid((a_real)0.5, (a_real)0.125, (a_real)0.25);
        CHECK_OBJ("pid_neuro", "set_wpid", c, m);
        for (int k = 0; k < 6; ++k)
        {
            a_real s = (a_real)IN[k][0], f = (a_real)IN[k][1];
            a_real rc = mode == 0 ? a_pid_neuro_run(&c, s, f) : a_pid_neuro_inc(&c, s, f);
            a_real rm = mode == 0 ? m.run(s, f) : m.inc(s, f);
            CHECK_RET("pid_neuro", mode == 0 ? "run" : "inc", rm, rc);
            CHECK_OBJ("pid_neuro", mode == 0 ? "run" : "inc", c, m);
        }
        a_pid_neuro_zero(&c); m.zero();
        CHECK_OBJ("pid_neuro", "zero", c, m);
    }
    // fuzzy: 3 triangular sets on [-3,3], distinct tables for kp, ki, kd
    static const a_real me[] = {A_MF_TRI, -3, -3, 0, A_MF_TRI, -3, 0, 3, A_MF_TRI, 0, 3, 3};
    static const a_real mec[] = {A_MF_TRI, -2, -2, 0, A_MF_TRI, -2, 0, 2, A_MF_TRI, 0, 2, 2};
    static const a_real mkp[9] = {1, 2, 3, 4, 5, 6, 7, 8, 9}, mki[9] = {(a_real)0.1, (a_real)0.2, (a_real)0.3, (a_real)0.4, (a_real)0.5, (a_real)0.6, (a_real)0.7, (a_real)0.8, (a_real)0.9}, mkd[9] = {-1, -2, -3, -4, -5, -6, -7, -8, -9};
    for (int mode = 0; mode < 3; ++mode)
    {
        a_pid_fuzzy c, m;
        memset(&c, 0, sizeof c); memset(&m, 0, sizeof m);
        c.pid.summax = m.pid.summax = 5; c.pid.summin = m.pid.summin = -4; c.pid.outmax = m.pid.outmax = 30; c.pid.outmin = m.pid.outmin = -30;
        std::vector<unsigned char> b1(A_PID_FUZZY_BFUZZ(2), 0), b2(A_PID_FUZZY_BFUZZ(2), 0);
        a_pid_fuzzy_init(&c); m.init();
        a_pid_fuzzy_set_opr(&c, A_PID_FUZZY_CAP_ALGEBRA); m.set_opr(A_PID_FUZZY_CAP_ALGEBRA);
        a_pid_fuzzy_set_rule(&c, 3, me, mec, mkp, mki, mkd); m.set_rule(3, me, mec, mkp, mki, mkd);
        a_pid_fuzzy_set_kpid(&c, (a_real)1.5, (a_real)0.25, (a_real)0.75); m.set_kpid((a_real)1.5, (a_real)0.25, (a_real)0.75);
        a_pid_fuzzy_set_bfuzz(&c, b1.data(), 2); m.set_bfuzz(b2.data(), 2);
        ++n_eval;
        if (m.bfuzz() != (void *)b2.data() || a_pid_fuzzy_bfuzz(&c) != (void *)b1.data()) { differ("pid_fuzzy", "bfuzz", "it does not return the buffer that was set"); }
        ++n_eval;
        if (c.opr != m.opr || c.nrule != m.nrule || c.me != m.me || c.mec != m.mec || c.mkp != m.mkp || c.mki != m.mki || c.mkd != m.mkd || c.kp != m.kp || c.ki != m.ki || c.kd != m.kd || c.nfuzz != m.nfuzz)
        {
            differ("pid_fuzzy", "set_opr/set_rule/set_kpid/set_bfuzz", "the configured controllers differ");
        }
        for (int k = 0; k < 6; ++k)
        {
            a_real s = (a_real)IN[k][0], f = (a_real)IN[k][1];
            a_real rc = mode == 0 ? a_pid_fuzzy_run(&c, s, f) : mode == 1 ? a_pid_fuzzy_pos(&c, s, f) : a_pid_fuzzy_inc(&c, s, f);
            a_real rm = mode == 0 ? m.run(s, f) : mode == 1 ? m.pos(s, f) : m.inc(s, f);
            CHECK_RET("pid_fuzzy", mode == 0 ? "run" : mode == 1 ? "pos" : "inc", rm, rc);
            CHECK_OBJ("pid_fuzzy", mode == 0 ? "run" : mode == 1 ? "pos" : "inc", c.pid, m.pid);
        }
        a_pid_fuzzy_zero(&c); m.zero();
        CHECK_OBJ("pid_fuzzy", "zero", c.pid, m.pid);
    }
    ++n_eval;
    if (A_PID_FUZZY_BFUZZ(1 + 1) != A_PID_FUZZY_BFUZZ(2) || A_PID_FUZZY_BFUZZ(2) != 2 * 2 * sizeof(unsigned int) + (2 + 2) * 2 * sizeof(a_real)) { differ("pid_fuzzy", "A_PID_FUZZY_BFUZZ(compound)", "the documented buffer size is not 2N indices + (2+N)N values"); }
    R.part("C++ members of a_pid, a_pid_neuro, a_pid_fuzzy (init, setters, run/pos/inc over a 6-step history, zero) next to the C functions with pairwise distinct arguments", n_eval, n_eval);
}

int main(int argc, char **argv)
{
    vx::Args args(argc, argv);
    R.init(args);
    std::string mod = args.get("module", "poly");
    return vx::run_contained([&] {
        n_eval = 0;
        if (mod == "poly") { mod_poly(); }
        else if (mod == "traj") { mod_traj(); }
        else if (mod == "filt") { mod_filt(); }
        else if (mod == "pid") { mod_pid(); }
        R.sample("{\"module\":\"" + mod + "\",\"rule\":\"member(args...) and C function(args...) on objects pre-filled with the same stale bytes: objects byte-identical, results bit-identical\"}");
        R.finish(true, "every C++ member wrapper of the module executed next to its C function");
    }, 30.0);
}
