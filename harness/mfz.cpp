// mfz.cpp — C13: membership functions, fuzzy operators and the gain scheduling of the fuzzy PID
// controller against an independent long-double reference.  DESIGN.md §4.C13.
#include "../engine/grid.hpp"
#include "fuzzy_ref.hpp"
#include <algorithm>

extern "C" {
#include "a/pid_fuzzy.h"
}

typedef fref::L L;
static grid::Run R;
#if A_SIZE_REAL + 0 == 4
static const double EPS = FLT_EPSILON;
#else
static const double EPS = DBL_EPSILON;
#endif
static std::string num(double v)
{
    char b[40];
    snprintf(b, sizeof b, "%.17g", v);
    return b;
}
static const char *MFN[14] = {"nul", "gauss", "gauss2", "gbell", "sig", "dsig", "psig", "trap", "tri", "lins", "linz", "s", "z", "pi"};

static a_real call_specific(int e, a_real x, const a_real *p)
{
    switch (e)
    {
    case A_MF_GAUSS: return a_mf_gauss(x, p[0], p[1]);
    case A_MF_GAUSS2: return a_mf_gauss2(x, p[0], p[1], p[2], p[3]);
    case A_MF_GBELL: return a_mf_gbell(x, p[0], p[1], p[2]);
    case A_MF_SIG: return a_mf_sig(x, p[0], p[1]);
    case A_MF_DSIG: return a_mf_dsig(x, p[0], p[1], p[2], p[3]);
    case A_MF_PSIG: return a_mf_psig(x, p[0], p[1], p[2], p[3]);
    case A_MF_TRAP: return a_mf_trap(x, p[0], p[1], p[2], p[3]);
    case A_MF_TRI: return a_mf_tri(x, p[0], p[1], p[2]);
    case A_MF_LINS: return a_mf_lins(x, p[0], p[1]);
    case A_MF_LINZ: return a_mf_linz(x, p[0], p[1]);
    case A_MF_S: return a_mf_s(x, p[0], p[1]);
    case A_MF_Z: return a_mf_z(x, p[0], p[1]);
    case A_MF_PI: return a_mf_pi(x, p[0], p[1], p[2], p[3]);
    }
    return 0;
}

static uint64_t n_eval, n_nt;
// one (kind, parameter tuple): evaluated on the whole abscissa lattice derived from its parameters
static void one_mf(int e, const std::vector<double> &par, const std::vector<double> &brk)
{
    a_real p[4] = {0, 0, 0, 0};
    L lp[4] = {0, 0, 0, 0};
    for (size_t i = 0; i < par.size(); ++i) { p[i] = (a_real)par[i]; lp[i] = (L)p[i]; }
    // abscissae: every break point, one ulp on either side, midpoints and quarter points between consecutive break points, far points
    std::vector<a_real> xs;
    std::vector<double> b = brk;
    std::sort(b.begin(), b.end());
    for (size_t i = 0; i < b.size(); ++i)
    {
        a_real v = (a_real)b[i];
        xs.push_back(v);
        xs.push_back(std::nextafter(v, (a_real)INFINITY));
        xs.push_back(std::nextafter(v, (a_real)-INFINITY));
        if (i + 1 < b.size() && b[i + 1] > b[i])
        {
            for (double f : {0.25, 0.5, 0.75}) { xs.push_back((a_real)(b[i] + f * (b[i + 1] - b[i]))); }
        }
    }
    for (double f : {-1e3, -7.5, 7.5, 1e3}) { xs.push_back((a_real)f); }
    std::sort(xs.begin(), xs.end());
    xs.erase(std::unique(xs.begin(), xs.end()), xs.end());
    std::string pj = "[";
    for (size_t i = 0; i < par.size(); ++i) { pj += (i ? "," : "") + num(par[i]); }
    pj += "]";
    bool piecewise = e == A_MF_TRAP || e == A_MF_TRI || e == A_MF_LINS || e == A_MF_LINZ;
    bool degenerate = false;
    for (size_t i = 0; i + 1 < par.size(); ++i) { if (piecewise && par[i] == par[i + 1]) { degenerate = true; } }
    std::string cls = std::string(MFN[e]) + (degenerate ? "|tie" : "|regular");
    a_real prev = 0;
    L prevref = 0;
    bool have_prev = false;
    for (a_real x : xs)
    {
        a_real y = call_specific(e, x, p);
        L want = fref::mf(e, (L)x, lp);
        ++n_eval;
        n_nt += want > 0 && want < 1;
        std::string in = "{\"mf\":\"" + std::string(MFN[e]) + "\",\"params\":" + pj + ",\"x\":" + num((double)x) + "}";
        if (!(y >= 0 && y <= 1)) { R.viol("mf|" + cls + "|range", std::string("a_mf_") + MFN[e] + "(" + num((double)x) + "; " + pj + ") = " + num((double)y) + " is outside [0,1] or not a number", in); return; }
        // documented shape (the reference is continuous wherever the flank has non-zero width, so this also checks continuity at x +- 1 ulp)
        double tol = (piecewise ? 4 : 64) * EPS * (1 + (double)fabsl(want));
        if (e == A_MF_DSIG) { tol *= 4; }
        if (!(std::fabs((double)((L)y - want)) <= tol)) { R.viol("mf|" + cls + "|shape", std::string("a_mf_") + MFN[e] + "(" + num((double)x) + "; " + pj + ") = " + num((double)y) + ", the documented shape gives " + num((double)want), in); return; }
        if (want == 1 && e != A_MF_GAUSS && e != A_MF_GBELL && e != A_MF_SIG && e != A_MF_PSIG && e != A_MF_DSIG && y != 1) { R.viol("mf|" + cls + "|core", std::string("a_mf_") + MFN[e] + " is not exactly 1 on its core at x=" + num((double)x), in); return; }
        // monotone on each flank: whenever the reference strictly orders two neighbouring lattice points, the library must not invert them
        if (have_prev)
        {
            double slack = piecewise ? 0 : 8 * EPS;
            if (prevref < want && (double)y < (double)prev - slack) { R.viol("mf|" + cls + "|monotone", std::string("a_mf_") + MFN[e] + " decreases on a rising flank near x=" + num((double)x), in); return; }
            if (prevref > want && (double)y > (double)prev + slack) { R.viol("mf|" + cls + "|monotone", std::string("a_mf_") + MFN[e] + " increases on a falling flank near x=" + num((double)x), in); return; }
        }
        prev = y;
        prevref = want;
        have_prev = true;
        // dispatcher
        a_real yd = a_mf((unsigned)e, x, p);
        if (!(yd == y)) { R.viol(std::string("mf|") + MFN[e] + "|dispatcher", std::string("a_mf(") + MFN[e] + ", x, params) = " + num((double)yd) + " differs from a_mf_" + MFN[e] + " = " + num((double)y), in); return; }
        // complementary pairs
        if (e == A_MF_S) { a_real z = a_mf_z(x, p[0], p[1]); if (!(std::fabs((double)y + (double)z - 1) <= 8 * EPS)) { R.viol("mf|s+z|complement", "a_mf_s + a_mf_z != 1 at x=" + num((double)x), in); return; } }
        if (e == A_MF_LINS) { a_real z = a_mf_linz(x, p[0], p[1]); if (!(std::fabs((double)y + (double)z - 1) <= 4 * EPS)) { R.viol("mf|" + cls.substr(0, cls.find('|')) + "+linz|complement" + (degenerate ? "|tie" : ""), "a_mf_lins + a_mf_linz != 1 at x=" + num((double)x) + " (lins " + num((double)y) + ", linz " + num((double)z) + ")", in); return; } }
    }
}

static void membership(bool thorough)
{
    n_eval = n_nt = 0;
    static const double V[7] = {-2, -1, -0.5, 0, 1, 1.5, 3};
    uint64_t item = 0;
    // piecewise-linear families: every a <= b <= c <= d including ties
    for (int a = 0; a < 7; ++a)
    {
        for (int b = a; b < 7; ++b)
        {
            if (R.shard.mine(item++))
            {
                one_mf(A_MF_LINS, {V[a], V[b]}, {V[a], V[b]});
                one_mf(A_MF_LINZ, {V[a], V[b]}, {V[a], V[b]});
                if (a < b) { one_mf(A_MF_S, {V[a], V[b]}, {V[a], (V[a] + V[b]) / 2, V[b]}); one_mf(A_MF_Z, {V[a], V[b]}, {V[a], (V[a] + V[b]) / 2, V[b]}); }
            }
            for (int c = b; c < 7; ++c)
            {
                if (R.shard.mine(item++)) { one_mf(A_MF_TRI, {V[a], V[b], V[c]}, {V[a], V[b], V[c]}); }
                for (int d = c; d < 7; ++d)
                {
                    if (!R.shard.mine(item++)) { continue; }
                    one_mf(A_MF_TRAP, {V[a], V[b], V[c], V[d]}, {V[a], V[b], V[c], V[d]});
                    if (a < b && c < d) { one_mf(A_MF_PI, {V[a], V[b], V[c], V[d]}, {V[a], (V[a] + V[b]) / 2, V[b], V[c], (V[c] + V[d]) / 2, V[d]}); }
                }
            }
        }
    }
    // smooth families: non-zero widths; equal slopes and ordered centres for the difference of sigmoids
    static const double W[3] = {0.5, 1, 2}, SL[4] = {1, 4, -1, -4}, BP[7] = {1, 2, 3, 0.5, 0.75, 1.25, 2.5}; // bell exponents need not be integers
    for (double s1 : W)
    {
        for (int c1 = 0; c1 < 7; ++c1)
        {
            if (R.shard.mine(item++)) { one_mf(A_MF_GAUSS, {s1, V[c1]}, {V[c1] - s1, V[c1], V[c1] + s1, V[c1] + 3 * s1}); }
            for (double bp : BP) { if (R.shard.mine(item++)) { one_mf(A_MF_GBELL, {s1, bp, V[c1]}, {V[c1] - s1, V[c1], V[c1] + s1}); } }
            for (double s2 : W) { for (int c2 = c1; c2 < 7; ++c2) { if (R.shard.mine(item++)) { one_mf(A_MF_GAUSS2, {s1, V[c1], s2, V[c2]}, {V[c1] - s1, V[c1], V[c2], V[c2] + s2}); } } }
        }
    }
    // extreme but legal widths: a near-crisp set (width far below 1) and a set on a huge universe; squaring the numerator and the
    // denominator separately would under- or overflow although their ratio is ordinary
    {
        const bool f32 = EPS == (double)FLT_EPSILON;
        const double tiny = f32 ? 1e-25 : 1e-170, huge = f32 ? 1e20 : 1e160;
        for (double c0 : {0.0, 1.5})
        {
            if (!R.shard.mine(item++)) { continue; }
            one_mf(A_MF_GAUSS, {tiny, c0}, {c0 - tiny, c0, c0 + tiny});
            one_mf(A_MF_GAUSS, {huge, c0}, {c0 - huge, c0, c0 + huge});
            one_mf(A_MF_GAUSS2, {tiny, c0, tiny, c0 + 1}, {c0 - tiny, c0, c0 + 1, c0 + 1 + tiny});
            one_mf(A_MF_GAUSS2, {huge, c0, huge, c0 + 1}, {c0 - huge, c0, c0 + 1, c0 + 1 + huge});
            one_mf(A_MF_GBELL, {tiny, 2, c0}, {c0 - tiny, c0, c0 + tiny});
            one_mf(A_MF_GBELL, {huge, 2, c0}, {c0 - huge, c0, c0 + huge});
        }
    }
    // parameters near the top of the real type's range, widths ordinary relative to their magnitude: a sum of two parameters overflows
    // although every difference and every quotient of differences is representable (both signs)
    {
        const double T = EPS == (double)FLT_EPSILON ? 1e38 : 1e308;
        for (double sg : {1.0, -1.0})
        {
            if (!R.shard.mine(item++)) { continue; }
            double q[4] = {1.0 * T, 1.2 * T, 1.4 * T, 1.6 * T};
            if (sg < 0) { for (int i = 0; i < 4; ++i) { q[i] = -(1.0 + 0.2 * (3 - i)) * T; } }
            one_mf(A_MF_LINS, {q[0], q[2]}, {q[0], q[2]});
            one_mf(A_MF_LINZ, {q[0], q[2]}, {q[0], q[2]});
            one_mf(A_MF_S, {q[0], q[2]}, {q[0], q[0] / 2 + q[2] / 2, q[2]});
            one_mf(A_MF_Z, {q[0], q[2]}, {q[0], q[0] / 2 + q[2] / 2, q[2]});
            one_mf(A_MF_TRI, {q[0], q[1], q[3]}, {q[0], q[1], q[3]});
            one_mf(A_MF_TRAP, {q[0], q[1], q[2], q[3]}, {q[0], q[1], q[2], q[3]});
            one_mf(A_MF_PI, {q[0], q[1], q[2], q[3]}, {q[0], q[0] / 2 + q[1] / 2, q[1], q[2], q[2] / 2 + q[3] / 2, q[3]});
        }
    }
    for (double a1 : SL)
    {
        for (int c1 = 0; c1 < 7; ++c1)
        {
            if (R.shard.mine(item++)) { one_mf(A_MF_SIG, {a1, V[c1]}, {V[c1] - 1, V[c1], V[c1] + 1}); }
            for (double a2 : SL) { for (int c2 = 0; c2 < 7; c2 += thorough ? 1 : 2) { if (R.shard.mine(item++)) { one_mf(A_MF_PSIG, {a1, V[c1], a2, V[c2]}, {V[c1], V[c2], (V[c1] + V[c2]) / 2}); } } }
            if (a1 > 0) { for (int c2 = c1; c2 < 7; ++c2) { if (R.shard.mine(item++)) { one_mf(A_MF_DSIG, {a1, V[c1], a1, V[c2]}, {V[c1], V[c2], (V[c1] + V[c2]) / 2}); } } }
        }
    }
    // dispatcher on the terminator and on out-of-range selectors
    if (R.shard.idx == 0)
    {
        a_real p[4] = {0, 1, 2, 3};
        for (unsigned e : {0u, 14u, 15u, 255u, 0xFFFFFFFFu}) { ++n_eval; if (a_mf(e, 1, p) != 0) { R.viol("mf|dispatcher|unknown-kind", "a_mf with an unknown kind must return 0", std::to_string(e)); } }
    }
    R.part("13 membership function kinds: every a<=b<=c<=d from {-2,-1,-1/2,0,1,1.5,3} INCLUDING ties for tri/trap/lins/linz, non-zero widths for the smooth kinds, equal slopes + ordered centres for dsig; x = every break point, +-1 ulp, quarter points, +-7.5, +-1e3; range, documented shape, exact core, flank monotonicity, dispatcher, S/Z and ramp complements", n_eval, n_nt);
    R.sample("{\"mf\":\"tri\",\"params\":[0,1,1],\"x\":1,\"value\":" + num((double)a_mf_tri(1, 0, 1, 1)) + ",\"note\":\"right shoulder: the peak coincides with the foot\"}");
}

// ---------------------------------------------------------------- operators
static void operators()
{
    uint64_t n = 0, nt = 0;
    if (R.shard.idx != 0) { R.part("operators (shard 0 only)", 0, 0); return; }
    typedef a_real (*op2)(a_real, a_real);
    // called by their plain spelling (a function-like macro of the same name in the header would be what runs)
#define SPO(f) [](a_real a_, a_real b_) -> a_real { return f(a_, b_); }
    struct O { const char *name; op2 f; int kind; int sel; } ops[7] = {
        {"cap", SPO(a_fuzzy_cap), 0, A_PID_FUZZY_CAP}, {"cap_algebra", SPO(a_fuzzy_cap_algebra), 0, A_PID_FUZZY_CAP_ALGEBRA}, {"cap_bounded", SPO(a_fuzzy_cap_bounded), 0, A_PID_FUZZY_CAP_BOUNDED},
        {"cup", SPO(a_fuzzy_cup), 1, A_PID_FUZZY_CUP}, {"cup_algebra", SPO(a_fuzzy_cup_algebra), 1, A_PID_FUZZY_CUP_ALGEBRA}, {"cup_bounded", SPO(a_fuzzy_cup_bounded), 1, A_PID_FUZZY_CUP_BOUNDED}, {"equ", SPO(a_fuzzy_equ), 2, A_PID_FUZZY_EQU}};
    const int G = 16;
    for (auto &o : ops)
    {
        for (int i = 0; i <= G; ++i)
        {
            for (int j = 0; j <= G; ++j)
            {
                a_real a = (a_real)i / G, b = (a_real)j / G, v = o.f(a, b);
                ++n; nt += i && j && i < G && j < G;
                std::string in = "{\"op\":\"" + std::string(o.name) + "\",\"a\":" + num((double)a) + ",\"b\":" + num((double)b) + "}";
                std::string sig = std::string("fuzzy|") + o.name;
                double mn = std::min((double)a, (double)b), mx = std::max((double)a, (double)b), slack = o.kind == 2 ? 4 * EPS : 0;
                if (!(v >= 0 && v <= 1)) { R.viol(sig + "|range", std::string("a_fuzzy_") + o.name + " outside [0,1]", in); continue; }
                if (v != o.f(b, a)) { R.viol(sig + "|commutative", std::string("a_fuzzy_") + o.name + " is not commutative", in); continue; }
                if (o.kind == 0 && (double)v > mn) { R.viol(sig + "|bound", "an intersection exceeds min(a,b)", in); continue; }
                if (o.kind == 1 && (double)v < mx) { R.viol(sig + "|bound", "a union is below max(a,b)", in); continue; }
                // the equilibrium (compensatory) operator is the geometric mean of the algebraic product and the algebraic sum: it lies between those two
                if (o.kind == 2 && ((double)v < (double)a * (double)b - slack || (double)v > (double)a + (double)b - (double)a * (double)b + slack)) { R.viol(sig + "|bound", "the equilibrium operator is not between the algebraic product and the algebraic sum", in); continue; }
                (void)mn; (void)mx;
                if (i < G && (double)o.f((a_real)(i + 1) / G, b) < (double)v - slack) { R.viol(sig + "|monotone", std::string("a_fuzzy_") + o.name + " decreases when its first argument grows", in); continue; }
                if (j < G && (double)o.f(a, (a_real)(j + 1) / G) < (double)v - slack) { R.viol(sig + "|monotone", std::string("a_fuzzy_") + o.name + " decreases when its second argument grows", in); continue; }
                L want = fref::opr(o.sel, (L)a, (L)b);
                if (!(std::fabs((double)((L)v - want)) <= 4 * EPS)) { R.viol(sig + "|definition", std::string("a_fuzzy_") + o.name + "(" + num((double)a) + "," + num((double)b) + ") = " + num((double)v) + ", defined as " + num((double)want), in); continue; }
            }
            a_real a = (a_real)i / G;
            std::string in = "{\"op\":\"" + std::string(o.name) + "\",\"a\":" + num((double)a) + "}";
            if (o.kind == 0 && (o.f(a, 1) != a || o.f(a, 0) != 0)) { R.viol(std::string("fuzzy|") + o.name + "|boundary", "cap(a,1) must be a and cap(a,0) must be 0", in); }
            if (o.kind == 1 && (o.f(a, 0) != a || o.f(a, 1) != 1)) { R.viol(std::string("fuzzy|") + o.name + "|boundary", "cup(a,0) must be a and cup(a,1) must be 1", in); }
            if (a_fuzzy_not(a_fuzzy_not(a)) != a) { R.viol("fuzzy|not|involution", "not(not(a)) != a", in); }
        }
        // the selector of the fuzzy controller returns exactly these functions
    }
    // the parametrised compensatory operator: (ab)^(1-gamma) * (a+b-ab)^gamma for gamma in [0,1]; gamma = 1/2 is a_fuzzy_equ
    for (double g : {0.0, 0.25, 0.5, 0.75, 1.0})
    {
        for (int i = 0; i <= G; ++i)
        {
            for (int j = 0; j <= G; ++j)
            {
                a_real a = (a_real)i / G, b = (a_real)j / G, v = a_fuzzy_equ_((a_real)g, a, b);
                ++n; nt += i && j;
                std::string in = "{\"op\":\"equ_\",\"gamma\":" + num(g) + ",\"a\":" + num((double)a) + ",\"b\":" + num((double)b) + "}";
                L prod = (L)a * (L)b, sum = (L)a + (L)b - prod, want = powl(prod, 1 - (L)g) * powl(sum, (L)g);
                if (!(v >= 0 && v <= 1 + 4 * (a_real)EPS)) { R.viol("fuzzy|equ_|range", "a_fuzzy_equ_ = " + num((double)v) + " is outside [0,1] or not a number", in); continue; }
                if (v != a_fuzzy_equ_((a_real)g, b, a)) { R.viol("fuzzy|equ_|commutative", "a_fuzzy_equ_ is not commutative", in); continue; }
                if (!(std::fabs((double)((L)v - want)) <= 8 * EPS)) { R.viol("fuzzy|equ_|definition", "a_fuzzy_equ_(" + num(g) + "; " + num((double)a) + ", " + num((double)b) + ") = " + num((double)v) + ", defined as " + num((double)want), in); continue; }
                if (g == 0.5 && !(std::fabs((double)v - (double)a_fuzzy_equ(a, b)) <= 8 * EPS)) { R.viol("fuzzy|equ_|half", "a_fuzzy_equ_(1/2, a, b) differs from a_fuzzy_equ(a, b)", in); continue; }
            }
        }
    }
    static const unsigned SEL[7] = {A_PID_FUZZY_CAP, A_PID_FUZZY_CAP_ALGEBRA, A_PID_FUZZY_CAP_BOUNDED, A_PID_FUZZY_CUP, A_PID_FUZZY_CUP_ALGEBRA, A_PID_FUZZY_CUP_BOUNDED, A_PID_FUZZY_EQU};
    for (int k = 0; k < 7; ++k)
    {
        op2 f = a_pid_fuzzy_opr(SEL[k]);
        bool same = f != nullptr;
        for (int i = 0; i <= G && same; ++i) { for (int j = 0; j <= G; ++j) { ++n; if (f((a_real)i / G, (a_real)j / G) != ops[k].f((a_real)i / G, (a_real)j / G)) { same = false; break; } } }
        if (!same) { R.viol(std::string("fuzzy|selector|") + ops[k].name, "a_pid_fuzzy_opr does not return the operator it names", std::to_string(SEL[k])); }
    }
    R.part("seven operators + not + the parametrised compensatory operator (5 values of gamma) on all pairs from {0,1/16,...,1}^2: range, commutativity, monotonicity in each argument, cap<=min, cup>=max, equ between, boundary cases, definition, selector", n, nt);
}

// ---------------------------------------------------------------- inference
#define TRI A_MF_TRI
static const a_real m3e[] = {TRI, -1, -1, 0, TRI, -1, 0, 1, TRI, 0, 1, 1};
static const a_real m3ec[] = {TRI, -2, -2, 0, TRI, -2, 0, 2, TRI, 0, 2, 2};
static const a_real m3kp[] = {-4, -4, -4, -4, 4, 4, 4, 4, 4};
static const a_real m3ki[] = {0, 0, 0, 0.5, 0.5, 0.5, 0, 0, 0};
static const a_real m3kd[] = {-1, -1, 0, 0, 0, 0, 0, 1, 1};
static const a_real m5e[] = {A_MF_TRAP, -9, -9, -2, -1, TRI, -2, -1, 0, TRI, -1, 0, 1, TRI, 0, 1, 2, A_MF_TRAP, 1, 2, 9, 9};
static const a_real m5k[] = {-2, -2, -1, 0, 0, -2, -1, -1, 0, 1, -1, -1, 0, 1, 1, -1, 0, 1, 1, 2, 0, 0, 1, 2, 2};
static const a_real w3e[] = {TRI, -4, -1, 2, TRI, -3, 0, 3, TRI, -2, 1, 4};
static const a_real w3k[] = {-1, 0, 1, 0, 1, 2, 1, 2, 3};
// a table that is not sorted by position (left shoulder, right shoulder, middle): the active sets need not be neighbours in table order
static const a_real u3e[] = {TRI, -1, -1, 0, TRI, 0, 1, 1, TRI, -1, 0, 1};
static const a_real u3k[] = {-2, 3, 0, 1, -1, 2, 4, 0, -3};
// two enormously wide ramps and one ordinary triangle: on the whole input lattice the ramps fire with degrees around 1e-9 (far above
// the activity threshold epsilon, far from crossing it), so away from the triangle the total firing strength of product-type rules is
// positive but around 1e-18 - a normalisation guarded by "sum > epsilon" instead of "sum > 0" gives up there
static const a_real n3e[] = {A_MF_LINS, -8, (a_real)1e10, A_MF_LINZ, (a_real)-1e10, 8, A_MF_TRI, -1, 0, 1};
static const a_real g3e[] = {A_MF_GAUSS, 1, -1, A_MF_GBELL, 1, 2, 0, A_MF_GAUSS, 1, 1};
static const a_real m7e[] = {TRI, -1.5, -1.5, -1, TRI, -1.5, -1, -.5, TRI, -1, -.5, 0, TRI, -.5, 0, .5, TRI, 0, .5, 1, TRI, .5, 1, 1.5, TRI, 1, 1.5, 1.5};
static const a_real m7kp[] = {-3, -3, -2, -2, -1, 0, 0, -3, -3, -2, -1, -1, 0, 1, -2, -2, -2, -1, 0, 1, 1, -2, -2, -1, 0, 1, 2, 2, -1, -1, 0, 1, 1, 2, 2, -1, 0, 1, 2, 2, 2, 3, 0, 0, 2, 2, 2, 3, 3};
static const a_real mixe[] = {A_MF_LINZ, -2, -1, A_MF_PI, -2, -1, 1, 2, A_MF_LINS, 1, 2}; // ramps at both ends, pi-shaped centre
// tables that mix kinds with 2, 3 and 4 parameters (the table walker steps over each set by the parameter count of its kind); every one of
// the 13 kinds occurs in one of the two
// (the smooth sets are wide: over the whole lattice their degrees stay far above the activation threshold, so that no set sits on it)
static const a_real k5e[] = {A_MF_PSIG, 2, -1.5, -2, -0.5, A_MF_GAUSS2, 1.5, -0.5, 1.5, 0.5, A_MF_DSIG, 2, 0.25, 2, 1.25, A_MF_TRAP, 0.5, 1, 1.5, 2, A_MF_PI, -2, -1.5, -1, -0.5};
static const a_real k8e[] = {A_MF_GBELL, 1.5, 2, -1.5, A_MF_TRI, -2, -1, 0, A_MF_SIG, 1, 0.5, A_MF_GAUSS, 1.5, 0, A_MF_S, 0, 1.5, A_MF_Z, -1.5, 0, A_MF_LINS, 0.5, 2, A_MF_LINZ, -2, -0.5};
static const a_real k8k[64] = {-2, -1, 0, 1, 2, -2, -1, 0, -1, 0, 1, 2, -2, -1, 0, 1, 0, 1, 2, -2, -1, 0, 1, 2, 1, 2, -2, -1, 0, 1, 2, -2,
                               2, -2, -1, 0, 1, 2, -2, -1, -2, -1, 0, 1, 2, -2, -1, 0, -1, 0, 1, 2, -2, -1, 0, 1, 0, 1, 2, -2, -1, 0, 1, 2};
// narrow triangles with gaps between them: at most one set fires on each axis, often with degrees that sum to less than one (the bounded
// product then gives the only candidate rule the strength zero: no rule fires, the gains stay at their base values)
static const a_real gap3e[] = {A_MF_TRI, -2, -1.5, -1, A_MF_TRI, -0.5, 0, 0.5, A_MF_TRI, 1, 1.5, 2};
struct Base { const char *name; unsigned n, active; const a_real *me, *mec, *kp, *ki, *kd; };
static const Base BASES[12] = {
    {"3x3 shoulder triangles (test/pid_fuzzy.h)", 3, 2, m3e, m3ec, m3kp, m3ki, m3kd},
    {"5x5 trapezoid shoulders", 5, 2, m5e, m5e, m5k, m5k, nullptr},
    {"3x3 wide triangles, 3 active", 3, 3, w3e, w3e, w3k, nullptr, w3k},
    {"3x3 gaussian/bell, all active", 3, 3, g3e, g3e, w3k, w3k, w3k},
    {"7x7 triangles (test/pid_fuzzy.h)", 7, 2, m7e, m7e, m7kp, m7kp, m7kp},
    {"3x3 ramps + pi", 3, 2, mixe, mixe, w3k, w3k, w3k},
    {"3x3 shoulder triangles without a kp table", 3, 2, m3e, m3ec, nullptr, m3ki, m3kd},
    {"3x3 unsorted table (left, right, middle)", 3, 2, u3e, u3e, u3k, u3k, u3k},
    {"2 huge ramps + triangle (tiny firing strengths)", 3, 3, n3e, n3e, u3k, u3k, u3k},
    {"5 sets of the four-parameter kinds (psig, gauss2, dsig, trap, pi)", 5, 5, k5e, k5e, m5k, m5k, m5k},
    {"8 sets of the two- and three-parameter kinds (gbell, tri, sig, gauss, s, z, lins, linz)", 8, 8, k8e, k8e, k8k, k8k, k8k},
    {"3 narrow triangles with gaps (one set active at most)", 3, 1, gap3e, gap3e, u3k, u3k, u3k},
};
static const unsigned OPRS[7] = {A_PID_FUZZY_EQU, A_PID_FUZZY_CAP, A_PID_FUZZY_CAP_ALGEBRA, A_PID_FUZZY_CAP_BOUNDED, A_PID_FUZZY_CUP, A_PID_FUZZY_CUP_ALGEBRA, A_PID_FUZZY_CUP_BOUNDED};
static const char *OPRN[7] = {"equ", "cap", "cap_algebra", "cap_bounded", "cup", "cup_algebra", "cup_bounded"};

static void inference(bool thorough)
{
    uint64_t n = 0, nt = 0, item = 0;
    int G = thorough ? 161 : 41;
    // the documented buffer size, also when the argument is a compound expression
    if (R.shard.idx == 0)
    {
        for (unsigned k = 0; k < 8; ++k)
        {
            ++n;
            size_t want = 2 * (k + 1) * sizeof(unsigned int) + (2 + (k + 1)) * (k + 1) * sizeof(a_real);
            if (A_PID_FUZZY_BFUZZ(k + 1) != want || A_PID_FUZZY_BFUZZ(k + 1) != A_PID_FUZZY_BFUZZ((k + 1))) { R.viol("infer|bfuzz-macro", "A_PID_FUZZY_BFUZZ(k + 1) is not 2N indices + (2+N)N values for N = " + std::to_string(k + 1), std::to_string(k)); }
        }
    }
    for (const Base &B : BASES)
    {
        for (int o = 0; o < 7; ++o)
        {
            if (!R.shard.mine(item++)) { continue; }
            vx::tick();
            // with degrees around 1e-8 the operators written with a cancelling difference (1-(1-a)(1-b), a+b-1) lose half their digits by
            // their own documented formula: the tiny-strength base is run with the five operators that stay accurate there
            if (B.me == n3e && (OPRS[o] == A_PID_FUZZY_EQU || OPRS[o] == A_PID_FUZZY_CAP_BOUNDED)) { continue; }
            std::vector<unsigned char> raw(A_PID_FUZZY_BFUZZ(B.active) + 128, 0xCB);
            a_pid_fuzzy c;
            memset(&c, 0, sizeof c);
            c.pid.summin = -10; c.pid.summax = 10; c.pid.outmin = -10; c.pid.outmax = 10;
            a_pid_fuzzy_init(&c);
            a_pid_fuzzy_set_opr(&c, OPRS[o]);
            a_pid_fuzzy_set_rule(&c, B.n, B.me, B.mec, B.kp, B.ki, B.kd);
            a_pid_fuzzy_set_kpid(&c, 10, 1, (a_real)0.25);
            a_pid_fuzzy_set_bfuzz(&c, raw.data() + 64, B.active);
            // the rule tables taken away again: a controller that was scheduling gains goes back to its base gains at the next step
            // (the gains are "the base gains plus a weighted mean of the consequents of the active rules": no table, no correction)
            {
                a_pid_fuzzy_zero(&c);
                a_pid_fuzzy_run(&c, (a_real)0.25, 0);
                a_pid_fuzzy_run(&c, (a_real)-0.5, 0);
                a_pid_fuzzy_set_rule(&c, B.n, B.me, B.mec, nullptr, nullptr, nullptr);
                a_pid_fuzzy_run(&c, (a_real)0.75, 0);
                ++n;
                if (c.pid.kp != 10 || c.pid.ki != 1 || c.pid.kd != (a_real)0.25)
                {
                    R.viol(std::string("infer|") + OPRN[o] + "|tables-detached", "after the rule tables were detached the next step left the gains at (" + num((double)c.pid.kp) + ", " + num((double)c.pid.ki) + ", " + num((double)c.pid.kd) + ") instead of the base gains (10, 1, 0.25)",
                           "{\"base\":\"" + std::string(B.name) + "\",\"operator\":\"" + OPRN[o] + "\"}");
                }
                a_pid_fuzzy_set_rule(&c, B.n, B.me, B.mec, B.kp, B.ki, B.kd);
            }
            for (int i = 0; i < G; ++i)
            {
                for (int j = 0; j < G; ++j)
                {
                    // lattice spanning beyond the universe of discourse on both sides, so that "no set active" occurs
                    double e = -5 + 10.0 * i / (G - 1), ec = -5 + 10.0 * j / (G - 1);
                    a_pid_fuzzy_zero(&c);
                    c.pid.err = (a_real)(e - ec); // the controller forms ec = e(k) - e(k-1)
                    a_real ecr = (a_real)e - c.pid.err;
                    a_pid_fuzzy_run(&c, (a_real)e, 0);
                    fref::Gains g = fref::infer(B.n, B.me, B.mec, B.kp, B.ki, B.kd, (int)OPRS[o], (L)(a_real)e, (L)ecr, (L)EPS);
                    ++n;
                    nt += g.any;
                    std::string in = "{\"base\":\"" + std::string(B.name) + "\",\"operator\":\"" + OPRN[o] + "\",\"e\":" + num(e) + ",\"ec\":" + num((double)ecr) + "}";
                    std::string sig = std::string("infer|") + OPRN[o] + "|";
                    bool ok = true;
                    for (size_t q = 0; q < 64; ++q) { if (raw[q] != 0xCB || raw[64 + A_PID_FUZZY_BFUZZ(B.active) + q] != 0xCB) { ok = false; } }
                    if (!ok) { R.viol(sig + "buffer-overrun", "the scratch buffer of A_PID_FUZZY_BFUZZ(" + std::to_string(B.active) + ") bytes was overrun with at most " + std::to_string(B.active) + " sets active", in); memset(raw.data(), 0xCB, raw.size()); continue; }
                    double got[3] = {(double)c.pid.kp - 10, (double)c.pid.ki - 1, (double)c.pid.kd - 0.25};
                    // the scheduled gains are a function of THIS step's (e, ec) and the tables only: a controller that has been through
                    // all the previous lattice points must schedule exactly what a freshly initialised one does (no stale gains)
                    {
                        std::vector<unsigned char> raw2(A_PID_FUZZY_BFUZZ(B.active) + 16, 0);
                        a_pid_fuzzy f;
                        memset(&f, 0, sizeof f);
                        f.pid.summin = -10; f.pid.summax = 10; f.pid.outmin = -10; f.pid.outmax = 10;
                        a_pid_fuzzy_init(&f);
                        a_pid_fuzzy_set_opr(&f, OPRS[o]);
                        a_pid_fuzzy_set_rule(&f, B.n, B.me, B.mec, B.kp, B.ki, B.kd);
                        a_pid_fuzzy_set_kpid(&f, 10, 1, (a_real)0.25);
                        a_pid_fuzzy_set_bfuzz(&f, raw2.data(), B.active);
                        f.pid.err = (a_real)(e - ec);
                        a_pid_fuzzy_run(&f, (a_real)e, 0);
                        if (std::isfinite((double)f.pid.kp) && std::isfinite((double)c.pid.kp) && (f.pid.kp != c.pid.kp || f.pid.ki != c.pid.ki || f.pid.kd != c.pid.kd))
                        {
                            R.viol(sig + "history-dependent", "the gains scheduled for this (e, ec) depend on earlier steps: a used controller gives (" + num((double)c.pid.kp) + ", " + num((double)c.pid.ki) + ", " + num((double)c.pid.kd) + "), a fresh one (" + num((double)f.pid.kp) + ", " + num((double)f.pid.ki) + ", " + num((double)f.pid.kd) + ") (" + std::to_string(g.ne) + "x" + std::to_string(g.nec) + " sets active, total firing strength " + num((double)g.strength) + ")", in);
                            continue;
                        }
                    }
                    L want[3] = {g.kp, g.ki, g.kd};
                    const a_real *T[3] = {B.kp, B.ki, B.kd};
                    static const char *gn[3] = {"kp", "ki", "kd"};
                    for (int t = 0; t < 3; ++t)
                    {
                        if (!std::isfinite(got[t])) { R.viol(sig + (g.any ? "not-finite" : "not-finite|zero-strength"), std::string("the scheduled ") + gn[t] + " is not finite (" + std::to_string(g.ne) + "x" + std::to_string(g.nec) + " sets active, total firing strength " + num((double)g.strength) + ")", in); break; }
                        if (!T[t]) { if (got[t] != 0) { R.viol(sig + "no-table", std::string("without a rule table ") + gn[t] + " must stay at its base value", in); } continue; }
                        double tol = 256 * EPS * (1 + std::fabs((double)want[t])) + 64 * EPS * 10;
                        if (g.any)
                        {
                            if (!(got[t] >= (double)g.lo[t] - tol && got[t] <= (double)g.hi[t] + tol)) { R.viol(sig + "outside-consequents", std::string("the ") + gn[t] + " correction " + num(got[t]) + " is not between the smallest and largest consequent of the active rules [" + num((double)g.lo[t]) + "," + num((double)g.hi[t]) + "]", in); break; }
                            if (!(std::fabs(got[t] - (double)want[t]) <= tol)) { R.viol(sig + "weighted-mean", std::string("the ") + gn[t] + " correction " + num(got[t]) + " is not the weighted mean of the active consequents " + num((double)want[t]) + " (" + std::to_string(g.ne) + "x" + std::to_string(g.nec) + " sets active)", in); break; }
                        }
                        else
                        {
                            // no set active on one axis, or sets active whose every joint strength is exactly zero (bounded product of degrees that
                            // sum to at most one): no rule fires, the gains are the base gains
                            if (got[t] != 0) { R.viol(sig + ((g.ne == 0 || g.nec == 0) ? "no-rule-active" : "zero-strength"), std::string((g.ne == 0 || g.nec == 0) ? "no rule is active" : "every active pair of sets has joint strength zero") + ", yet " + gn[t] + " deviates from its base value by " + num(got[t]), in); break; }
                        }
                    }
                }
            }
        }
    }
    R.part(std::string("gain scheduling: 8 rule bases (an unsorted table whose active sets are not neighbours, shoulder triangles, trapezoid shoulders, 3 simultaneously active triangles, gaussian/bell, 7x7, ramps+pi, one without a kp table; each of kp/ki/kd absent in one base) x 7 operators x ") + std::to_string(G) + "x" + std::to_string(G) + " (e, ec) lattice spanning beyond the universe; buffer of exactly A_PID_FUZZY_BFUZZ(active) bytes between canaries", n, nt);
    R.sample("{\"base\":\"3x3 shoulder triangles\",\"operator\":\"cap_bounded\",\"e\":0.3,\"ec\":0.8,\"note\":\"every pairwise bounded product is 0: total firing strength 0, gains must stay finite\"}");
}

// ---------------------------------------------------------------- the dispatcher called again after the parameter array changed in place
static __attribute__((noinline)) void mf_twice(a_real *p, a_real x, a_real *out)
{
    out[0] = a_mf(A_MF_TRI, x, p);
    out[1] = a_mf(A_MF_TRAP, x, p);
    out[2] = a_mf(A_MF_GAUSS, x, p + 4);
    p[0] -= 1; p[1] -= 1; p[2] -= 1; p[3] -= 1; p[5] += 1;
    out[3] = a_mf(A_MF_TRI, x, p);
    out[4] = a_mf(A_MF_TRAP, x, p);
    out[5] = a_mf(A_MF_GAUSS, x, p + 4);
}
static void mf_reread()
{
    if (R.shard.idx != 0) { return; }
    a_real p[6] = {0, 1, 2, 4, 1, 0.5}, out[6];
    a_real *volatile vp = p;
    mf_twice(vp, (a_real)0.5, out);
    a_real want[6] = {a_mf_tri((a_real)0.5, 0, 1, 2), a_mf_trap((a_real)0.5, 0, 1, 2, 4), a_mf_gauss((a_real)0.5, 1, (a_real)0.5),
                      a_mf_tri((a_real)0.5, -1, 0, 1), a_mf_trap((a_real)0.5, -1, 0, 1, 3), a_mf_gauss((a_real)0.5, 1, (a_real)1.5)};
    for (int i = 0; i < 6; ++i)
    {
        ++n_eval;
        if (out[i] != want[i]) { R.viol("mf|dispatcher|reread", std::string("a_mf called") + (i >= 3 ? " again with the same pointer after the parameter array changed in place" : "") + " returned " + num((double)out[i]) + ", the specific function on the current parameters gives " + num((double)want[i]), "{\"call\":" + std::to_string(i) + "}"); }
    }
}

int main(int argc, char **argv)
{
    vx::Args args(argc, argv);
    R.init(args);
    bool thorough = R.tier == "thorough";
    return vx::run_contained([&] {
        membership(thorough);
        mf_reread();
        operators();
        inference(thorough);
        R.finish(true, "every listed domain enumerated");
    }, 60.0);
}
