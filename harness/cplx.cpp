// cplx.cpp — C10: complex arithmetic and functions of src/complex.c against libquadmath on an argument
// lattice, in the build configuration selected by the -D flags of the job.  DESIGN.md §4.C10.
//
// Tolerance at a point: K * (eps*|w| + spread) where spread is the change of the quad reference under
// perturbations of 4 eps |z| of the argument (i.e. eps * condition * |w| measured, not assumed).  Points at
// which the reference is discontinuous under those perturbations (branch cuts) or not finite (poles,
// overflow) are excluded by that rule, as the property excludes them.
#include "../engine/grid.hpp"
#include <limits>
#include <quadmath.h>
#include <cmath>
#include <cfloat>
#include <map>
#include <cstring>

extern "C" {
#include "a/complex.h"
#include "a/math.h"
}

typedef __float128 Q;
typedef __complex128 C;
static grid::Run R;
#if A_SIZE_REAL + 0 == 4
static const double EPS = FLT_EPSILON;
static const int EXPS[] = {-30, -10, -3, -1, 0, 1, 3, 10, 30};
static const int XEXPS[] = {-120, -70, 70, 120};
static const double RMAX = FLT_MAX, RMIN = FLT_MIN;
#else
static const double EPS = DBL_EPSILON;
static const int EXPS[] = {-60, -30, -10, -3, -1, 0, 1, 3, 10, 30, 60};
static const int XEXPS[] = {-1000, -520, 520, 1000};
static const double RMAX = DBL_MAX, RMIN = DBL_MIN;
#endif
static const double KTOL = 32;

static std::string num(double v)
{
    char b[40];
    snprintf(b, sizeof b, "%.17g", v);
    return b;
}
static C mk(Q re, Q im)
{
    C z;
    __real__ z = re;
    __imag__ z = im;
    return z;
}
static C tocq(a_complex z) { return mk((Q)z.real, (Q)z.imag); }
static bool finc(C z) { return finiteq(crealq(z)) && finiteq(cimagq(z)); }

typedef C (*ref1)(C);
typedef void (*lib1)(a_complex *, a_complex);
typedef void (*lib1_)(a_complex *);

static C r_inv(C z) { return 1 / z; }
static C r_log2(C z) { return clogq(z) / M_LN2q; }
static C r_sec(C z) { return 1 / ccosq(z); }
static C r_csc(C z) { return 1 / csinq(z); }
static C r_cot(C z) { return 1 / ctanq(z); }
static C r_asec(C z) { return cacosq(1 / z); }
static C r_acsc(C z) { return casinq(1 / z); }
static C r_acot(C z) { return catanq(1 / z); }
static C r_sech(C z) { return 1 / ccoshq(z); }
static C r_csch(C z) { return 1 / csinhq(z); }
static C r_coth(C z) { return 1 / ctanhq(z); }
static C r_asech(C z) { return cacoshq(1 / z); }
static C r_acsch(C z) { return casinhq(1 / z); }
static C r_acoth(C z) { return catanhq(1 / z); }
static C r_neg(C z) { return -z; }
static C r_conj(C z) { return conjq(z); }

// every library function is called by its plain spelling inside a capture-less lambda, so that a function-like macro of the same
// name in the header (which a caller writing f(x) would get) is what runs, not only the out-of-line symbol a function pointer binds to
#define SP1(f) [](a_complex *r_, a_complex z_) { f(r_, z_); }
#define SP1_(f) [](a_complex *r_) { f(r_); }
#define SPS(f) [](a_complex *r_, a_complex z_, a_real s_) { f(r_, z_, s_); }
#define SPS_(f) [](a_complex *r_, a_real s_) { f(r_, s_); }
#define SPB(f) [](a_complex *r_, a_complex x_, a_complex y_) { f(r_, x_, y_); }
#define SPB_(f) [](a_complex *r_, a_complex y_) { f(r_, y_); }
struct Fn
{
    const char *name;
    lib1 f;
    lib1_ f_;
    ref1 r;
};
static const Fn FNS[] = {
    {"sqrt", SP1(a_complex_sqrt), SP1_(a_complex_sqrt_), csqrtq}, {"exp", SP1(a_complex_exp), SP1_(a_complex_exp_), cexpq}, {"log", SP1(a_complex_log), SP1_(a_complex_log_), clogq},
    {"log2", SP1(a_complex_log2), SP1_(a_complex_log2_), r_log2}, {"log10", SP1(a_complex_log10), SP1_(a_complex_log10_), clog10q},
    {"sin", SP1(a_complex_sin), SP1_(a_complex_sin_), csinq}, {"cos", SP1(a_complex_cos), SP1_(a_complex_cos_), ccosq}, {"tan", SP1(a_complex_tan), SP1_(a_complex_tan_), ctanq},
    {"sec", SP1(a_complex_sec), SP1_(a_complex_sec_), r_sec}, {"csc", SP1(a_complex_csc), SP1_(a_complex_csc_), r_csc}, {"cot", SP1(a_complex_cot), SP1_(a_complex_cot_), r_cot},
    {"asin", SP1(a_complex_asin), SP1_(a_complex_asin_), casinq}, {"acos", SP1(a_complex_acos), SP1_(a_complex_acos_), cacosq}, {"atan", SP1(a_complex_atan), SP1_(a_complex_atan_), catanq},
    {"asec", SP1(a_complex_asec), SP1_(a_complex_asec_), r_asec}, {"acsc", SP1(a_complex_acsc), SP1_(a_complex_acsc_), r_acsc}, {"acot", SP1(a_complex_acot), SP1_(a_complex_acot_), r_acot},
    {"sinh", SP1(a_complex_sinh), SP1_(a_complex_sinh_), csinhq}, {"cosh", SP1(a_complex_cosh), SP1_(a_complex_cosh_), ccoshq}, {"tanh", SP1(a_complex_tanh), SP1_(a_complex_tanh_), ctanhq},
    {"sech", SP1(a_complex_sech), SP1_(a_complex_sech_), r_sech}, {"csch", SP1(a_complex_csch), SP1_(a_complex_csch_), r_csch}, {"coth", SP1(a_complex_coth), SP1_(a_complex_coth_), r_coth},
    {"asinh", SP1(a_complex_asinh), SP1_(a_complex_asinh_), casinhq}, {"acosh", SP1(a_complex_acosh), SP1_(a_complex_acosh_), cacoshq}, {"atanh", SP1(a_complex_atanh), SP1_(a_complex_atanh_), catanhq},
    {"asech", SP1(a_complex_asech), SP1_(a_complex_asech_), r_asech}, {"acsch", SP1(a_complex_acsch), SP1_(a_complex_acsch_), r_acsch}, {"acoth", SP1(a_complex_acoth), SP1_(a_complex_acoth_), r_acoth},
    {"inv", SP1(a_complex_inv), SP1_(a_complex_inv_), r_inv}, {"neg", SP1(a_complex_neg), SP1_(a_complex_neg_), r_neg}, {"conj", SP1(a_complex_conj), SP1_(a_complex_conj_), r_conj},
};

static std::vector<a_real> axis;
// magnitudes beyond 2^+-64 (2^+-400 in double): exercised for field arithmetic, modulus, argument, square root and logarithms only;
// the transcendental families are checked on magnitudes 2^-60..2^60 (their fallback bodies square or exponentiate their argument)
static bool extreme(a_real v) { double a = std::fabs((double)v); return a != 0 && (a > std::ldexp(1.0, EPS == (double)FLT_EPSILON ? 64 : 400) || a < std::ldexp(1.0, EPS == (double)FLT_EPSILON ? -64 : -400)); }
static void build_axis()
{
    static const double M[4] = {1, 1.25, 1.5, 1.9375};
    std::vector<double> v{0};
    for (int e : EXPS) { for (double m : M) { v.push_back(std::ldexp(m, e)); v.push_back(-std::ldexp(m, e)); } }
    // magnitudes whose square over- or underflows: field arithmetic, modulus and reciprocal must still be exact to rounding there
    for (int e : XEXPS) { for (double m : {1.0, 1.5}) { v.push_back(std::ldexp(m, e)); v.push_back(-std::ldexp(m, e)); } }
    // the band where exp(-2|y|) drops below the rounding unit (|y| about 8.3 float, 18.4 double: "sinh and cosh agree") and the band
    // where exp(|y|) leaves the range (88.7 float, 709.8 double), both sides of each
    for (int e : {4, 5}) { for (double m : M) { v.push_back(std::ldexp(m, e)); v.push_back(-std::ldexp(m, e)); } }
    for (int e : {6, 9}) { for (double m : {1.25, 1.5}) { v.push_back(std::ldexp(m, e)); v.push_back(-std::ldexp(m, e)); } }
    // every constant the fallback bodies branch on, one ulp on either side
    for (double c : {1.0, 1.5, 0.6417, 0.1, 0.5, 2.0, 1.5707963267948966, 3.141592653589793, 0.25})
    {
        for (double s : {1.0, -1.0})
        {
            a_real x = (a_real)(s * c);
            v.push_back((double)std::nextafter(x, (a_real)INFINITY));
            v.push_back((double)std::nextafter(x, (a_real)-INFINITY));
        }
    }
    for (double d : v) { axis.push_back((a_real)d); }
    std::sort(axis.begin(), axis.end());
    axis.erase(std::unique(axis.begin(), axis.end()), axis.end());
    // a negative zero coordinate (what multiplying or dividing a real number by the imaginary unit produces): the point (-0, y) lies on the
    // imaginary axis, away from every cut of arg / log / pow, and its argument is +-pi/2 by the sign of y
    axis.push_back((a_real)-0.0);
}

static std::map<std::string, double> worst;
static uint64_t n_eval, n_checked, n_excluded;

// spread of the reference under perturbations of relative size d of |z| in each coordinate; returns false if not finite
template <class F>
static bool spread_of(F f, C z, Q d, Q &sp)
{
    C w = f(z);
    if (!finc(w)) { return false; }
    Q a = cabsq(z);
    if (a == 0) { a = RMIN; }
    sp = 0;
    const Q dr[4] = {d * a, -d * a, 0, 0}, di[4] = {0, 0, d * a, -d * a};
    for (int k = 0; k < 4; ++k)
    {
        C wk = f(mk(crealq(z) + dr[k], cimagq(z) + di[k]));
        if (!finc(wk)) { return false; }
        sp = fmaxq(sp, cabsq(wk - w));
    }
    return true;
}
// the central rule: returns 0 ok, 1 violation, 2 excluded (cut / pole / out of range)
template <class F>
static int judge(F f, C z, C lib, double &ratio, C &want)
{
    want = f(z);
    if (!finc(want)) { return 2; }
    Q aw = cabsq(want);
    if (aw > (Q)RMAX / 4) { return 2; }                    // the true result is not representable
    if (aw < (Q)RMIN * 4 && cabsq(z) != 0)
    {
        // the true result underflows: its relative accuracy means nothing, but the answer is still "practically zero" - a finite number of
        // the size of the smallest normal one at most.  (aw == 0 exactly: an intermediate of the reference may have overflowed: excluded)
        if (aw == 0) { return 2; }
        if (!finc(lib) || cabsq(lib) > (Q)RMIN * 64) { ratio = 1e300; return 1; }
        ratio = 0;
        return 0;
    }
    Q s1, s2;
    if (!spread_of(f, z, 4 * (Q)EPS, s1) || !spread_of(f, z, (Q)EPS / 4, s2)) { return 2; }
    // a smooth function changes 16 times less under a 16 times smaller perturbation; a jump does not
    if (s1 > 1e-9q * (1 + aw) && s2 > s1 / 4) { return 2; }
    if (s1 > 0.25q * aw + 1e-3q) { return 2; }           // hopelessly ill-conditioned at this point (condition number beyond 1/(16 eps))
    if (!finc(lib)) { ratio = 1e300; return 1; }
    Q tol = (Q)EPS * aw + s1 + (Q)RMIN * 16;
    ratio = (double)(cabsq(lib - want) / tol);
    return ratio <= KTOL ? 0 : 1;
}
static void report(const std::string &fn, const std::string &form, int rc, double ratio, const std::string &args, C lib, C want)
{
    ++n_eval;
    if (rc == 2) { ++n_excluded; return; }
    ++n_checked;
    double &w = worst[fn];
    if (ratio > w) { w = ratio; }
    if (rc == 1)
    {
        R.viol("complex|" + fn + "|" + form, "a_complex_" + fn + "(" + args + ") = (" + num((double)crealq(lib)) + ", " + num((double)cimagq(lib)) + ") but the principal value is (" + num((double)crealq(want)) + ", " + num((double)cimagq(want)) + "): error " + num(ratio) + " x (eps*|w| + conditioning), tolerated " + num(KTOL),
               "{\"fn\":\"" + fn + "\",\"args\":\"" + args + "\"}");
    }
}
// out-parameters are pre-filled with stale, finite, non-zero data: a field the function forgets to write then shows as a wrong value
static const a_complex STALE = {(a_real)777.25, (a_real)-555.5};
static bool same_r(a_real a, a_real b) { return a == b || (a != a && b != b); }
static bool same_c(a_complex a, a_complex b) { return same_r(a.real, b.real) && same_r(a.imag, b.imag); }
static std::string zs(a_complex z) { return num((double)z.real) + (z.imag < 0 || (z.imag == 0 && std::signbit((double)z.imag)) ? "" : "+") + num((double)z.imag) + "i"; }

static void unary_all()
{
    uint64_t item = 0;
    for (const Fn &F : FNS)
    {
        for (a_real re : axis)
        {
            if (!R.shard.mine(item++)) { continue; }
            vx::tick();
            bool wide = !strcmp(F.name, "sqrt") || !strcmp(F.name, "log") || !strcmp(F.name, "log2") || !strcmp(F.name, "log10") || !strcmp(F.name, "inv") || !strcmp(F.name, "neg") || !strcmp(F.name, "conj");
            for (a_real im : axis)
            {
                if (!wide && (extreme(re) || extreme(im))) { continue; }
                a_complex z = {re, im}, w = STALE, w2 = z;
                F.f(&w, z);
                F.f_(&w2);
                C want;
                double ratio = 0;
                int rc = judge(F.r, tocq(z), tocq(w), ratio, want);
                report(F.name, "value", rc, ratio, zs(z), tocq(w), want);
                if (rc != 2 && (memcmp(&w.real, &w2.real, sizeof w.real) != 0 || memcmp(&w.imag, &w2.imag, sizeof w.imag) != 0) && !(w.real == w2.real && w.imag == w2.imag))
                {
                    R.viol(std::string("complex|") + F.name + "|in-place", std::string("a_complex_") + F.name + "_ (in place) and a_complex_" + F.name + " disagree at " + zs(z), "{\"fn\":\"" + std::string(F.name) + "\",\"args\":\"" + zs(z) + "\"}");
                }
            }
        }
    }
}

// ---- real-valued functions of a complex argument, polar construction, real-argument variants
static void misc_all()
{
    uint64_t item = 0;
    for (a_real re : axis)
    {
        if (!R.shard.mine(item++)) { continue; }
        for (a_real im : axis)
        {
            a_complex z = {re, im};
            {
                // construction, comparison and projection: rect stores both parts, eq/ne compare both parts, the Riemann projection of a
                // finite number is the number itself
                a_complex r0 = STALE, pj = STALE, pk = z;
                a_complex_rect(&r0, re, im);
                a_complex_proj(&pj, z);
                a_complex_proj_(&pk);
                a_complex other = {re, (a_real)(im + 1)}, other2 = {(a_real)(re + 1), im};
                bool d1 = other.imag != im, d2 = other2.real != re; // (adding 1 may be absorbed for huge values)
                if (!(r0.real == re && r0.imag == im)) { R.viol("complex|rect|value", "a_complex_rect does not store the two parts", "{\"z\":\"" + zs(z) + "\"}"); }
                if (!a_complex_eq(z, r0) || a_complex_ne(z, r0) || (d1 && (a_complex_eq(z, other) || !a_complex_ne(z, other))) || (d2 && (a_complex_eq(z, other2) || !a_complex_ne(z, other2)))) { R.viol("complex|eq|value", "a_complex_eq / a_complex_ne do not compare both parts", "{\"z\":\"" + zs(z) + "\"}"); }
                if (!(pj.real == re && pj.imag == im && pk.real == re && pk.imag == im)) { R.viol("complex|proj|finite", "the projection of a finite number is not the number itself", "{\"z\":\"" + zs(z) + "\"}"); }
            }
            C zq = tocq(z), want;
            double ratio;
            auto as_c = [](Q v) { return mk(v, 0); };
            int rc = judge([](C t) { return mk(cabsq(t), 0); }, zq, as_c(a_complex_abs(z)), ratio, want);
            report("abs", "value", rc, ratio, zs(z), as_c(a_complex_abs(z)), want);
            rc = judge([](C t) { return mk(crealq(t) * crealq(t) + cimagq(t) * cimagq(t), 0); }, zq, as_c(a_complex_abs2(z)), ratio, want);
            report("abs2", "value", rc, ratio, zs(z), as_c(a_complex_abs2(z)), want);
            if (re != 0 || im != 0)
            {
                rc = judge([](C t) { return mk(logq(cabsq(t)), 0); }, zq, as_c(a_complex_logabs(z)), ratio, want);
                report("logabs", "value", rc, ratio, zs(z), as_c(a_complex_logabs(z)), want);
                rc = judge([](C t) { return mk(cargq(t), 0); }, zq, as_c(a_complex_arg(z)), ratio, want);
                report("arg", "value", rc, ratio, zs(z), as_c(a_complex_arg(z)), want);
            }
            // polar(rho, theta) with rho = |re|, theta = im
            if (std::fabs((double)im) <= 64 && !extreme(re))
            {
                a_complex p = STALE;
                a_complex_polar(&p, re, im);
                rc = judge([](C t) { return crealq(t) * mk(cosq(cimagq(t)), sinq(cimagq(t))); }, zq, tocq(p), ratio, want);
                report("polar", "value", rc, ratio, "rho=" + num((double)re) + ",theta=" + num((double)im), tocq(p), want);
            }
        }
        // real-argument variants inside their real domain (outside it the argument lies on a branch cut)
        if (extreme(re)) { continue; }
        a_real x = re;
        a_complex w;
        C want;
        double ratio;
        int rc;
        C xq = mk((Q)x, 0);
        w = STALE; a_complex_sqrt_real(&w, x);
        rc = judge(csqrtq, mk((Q)x, 0), tocq(w), ratio, want);
        if (x >= 0) { report("sqrt_real", "value", rc, ratio, num((double)x), tocq(w), want); }
        else if (!(w.real == 0 && std::fabs((double)w.imag - std::sqrt(-(double)x)) <= 4 * EPS * std::sqrt(-(double)x))) { R.viol("complex|sqrt_real|negative", "a_complex_sqrt_real of a negative number is not i*sqrt(|x|)", "{\"x\":" + num((double)x) + "}"); }
        if (std::fabs((double)x) <= 1)
        {
            w = STALE; a_complex_asin_real(&w, x); rc = judge(casinq, xq, tocq(w), ratio, want); report("asin_real", "value", rc, ratio, num((double)x), tocq(w), want);
            w = STALE; a_complex_acos_real(&w, x); rc = judge(cacosq, xq, tocq(w), ratio, want); report("acos_real", "value", rc, ratio, num((double)x), tocq(w), want);
        }
        if (std::fabs((double)x) < 1) { w = STALE; a_complex_atanh_real(&w, x); rc = judge(catanhq, xq, tocq(w), ratio, want); report("atanh_real", "value", rc, ratio, num((double)x), tocq(w), want); }
        if (x >= 1) { w = STALE; a_complex_acosh_real(&w, x); rc = judge(cacoshq, xq, tocq(w), ratio, want); report("acosh_real", "value", rc, ratio, num((double)x), tocq(w), want); }
        if (std::fabs((double)x) >= 1)
        {
            w = STALE; a_complex_asec_real(&w, x); rc = judge(r_asec, xq, tocq(w), ratio, want); report("asec_real", "value", rc, ratio, num((double)x), tocq(w), want);
            w = STALE; a_complex_acsc_real(&w, x); rc = judge(r_acsc, xq, tocq(w), ratio, want); report("acsc_real", "value", rc, ratio, num((double)x), tocq(w), want);
        }
    }
}

// ---- binary operations on a coarser lattice of operand pairs
static void binary_all()
{
    // division by a subnormal real scalar whose reciprocal overflows: the quotient of two tiny numbers is ordinary
    if (R.shard.idx == 0)
    {
        const a_real d = std::numeric_limits<a_real>::denorm_min();
        for (a_real sc : {(a_real)(d * 4), (a_real)(-d * 4), (a_real)(d * 1024)})
        {
            for (int k1 = -3; k1 <= 3; ++k1)
            {
                for (int k2 = -3; k2 <= 3; ++k2)
                {
                    a_complex x = {(a_real)(sc * k1 * 3), (a_real)(sc * k2 * 5)}, w = STALE, wi = x;
                    a_complex_div_real(&w, x, sc);
                    a_complex_div_real_(&wi, sc);
                    ++n_eval; ++n_checked;
                    if (!(w.real == (a_real)(k1 * 3) && w.imag == (a_real)(k2 * 5)) || !same_c(w, wi))
                    {
                        R.viol("complex|div_real|subnormal-divisor", "a_complex_div_real((" + num((double)x.real) + ", " + num((double)x.imag) + "), " + num((double)sc) + ") = (" + num((double)w.real) + ", " + num((double)w.imag) + ") but the quotient is exactly (" + std::to_string(k1 * 3) + ", " + std::to_string(k2 * 5) + ")", "{\"fn\":\"div_real\"}");
                    }
                }
            }
        }
    }
    std::vector<a_real> ax;
    for (size_t i = 0; i < axis.size(); i += 5) { ax.push_back(axis[i]); }
    for (double d : {0.0, 1.0, -1.0, 0.5, 3.0}) { ax.push_back((a_real)d); }
    std::sort(ax.begin(), ax.end());
    ax.erase(std::unique(ax.begin(), ax.end()), ax.end());
    uint64_t item = 0;
    for (a_real xr : ax)
    {
        for (a_real xi : ax)
        {
            if (!R.shard.mine(item++)) { continue; }
            vx::tick();
            a_complex x = {xr, xi};
            C xq = tocq(x);
            for (a_real yr : ax)
            {
                // real- and imaginary-scalar forms
                a_real s = yr;
                a_complex w, w2;
                C want;
                double ratio;
                int rc;
                struct SF { const char *n; void (*f)(a_complex *, a_complex, a_real); void (*f_)(a_complex *, a_real); int op; bool imag; };
                static const SF sf[8] = {{"add_real", SPS(a_complex_add_real), SPS_(a_complex_add_real_), 0, false}, {"sub_real", SPS(a_complex_sub_real), SPS_(a_complex_sub_real_), 1, false}, {"mul_real", SPS(a_complex_mul_real), SPS_(a_complex_mul_real_), 2, false}, {"div_real", SPS(a_complex_div_real), SPS_(a_complex_div_real_), 3, false},
                                         {"add_imag", SPS(a_complex_add_imag), SPS_(a_complex_add_imag_), 0, true}, {"sub_imag", SPS(a_complex_sub_imag), SPS_(a_complex_sub_imag_), 1, true}, {"mul_imag", SPS(a_complex_mul_imag), SPS_(a_complex_mul_imag_), 2, true}, {"div_imag", SPS(a_complex_div_imag), SPS_(a_complex_div_imag_), 3, true}};
                for (const SF &q : sf)
                {
                    if (q.op == 3 && s == 0) { continue; }
                    w = STALE;
                    q.f(&w, x, s);
                    w2 = x;
                    q.f_(&w2, s);
                    C sc = q.imag ? mk(0, (Q)s) : mk((Q)s, 0);
                    int op = q.op;
                    rc = judge([sc, op](C t) { return op == 0 ? t + sc : op == 1 ? t - sc : op == 2 ? t * sc : t / sc; }, xq, tocq(w), ratio, want);
                    report(q.n, "value", rc, ratio, zs(x) + ", " + num((double)s), tocq(w), want);
                    if (rc != 2 && !(w.real == w2.real && w.imag == w2.imag)) { R.viol(std::string("complex|") + q.n + "|in-place", std::string("a_complex_") + q.n + "_ and a_complex_" + q.n + " disagree", "{\"fn\":\"" + std::string(q.n) + "\"}"); }
                }
                // multiply then divide by the same scalar is the identity
                if (s != 0 && std::fabs((double)s) < 1e10 && std::fabs((double)s) > 1e-10 && !extreme(xr) && !extreme(xi))
                {
                    a_complex t = STALE;
                    a_complex_mul_real(&t, x, s); a_complex_div_real_(&t, s);
                    rc = judge([](C u) { return u; }, xq, tocq(t), ratio, want);
                    report("mul_real/div_real", "identity", rc, ratio / 2, zs(x) + ", " + num((double)s), tocq(t), want);
                    a_complex_mul_imag(&t, x, s); a_complex_div_imag_(&t, s);
                    rc = judge([](C u) { return u; }, xq, tocq(t), ratio, want);
                    report("mul_imag/div_imag", "identity", rc, ratio / 2, zs(x) + ", " + num((double)s), tocq(t), want);
                }
                w = STALE;
                a_complex_pow_real(&w, x, s);
                { a_complex wi = x; a_complex_pow_real_(&wi, s); if (!same_c(w, wi)) { R.viol("complex|pow_real|in-place", "a_complex_pow_real_ (in place) and a_complex_pow_real disagree", "{\"fn\":\"pow_real\"}"); } }
                if ((xr != 0 || xi != 0) && !extreme(xr) && !extreme(xi) && !extreme(s))
                {
                    Q sq = s;
                    rc = judge([sq](C t) { return cpowq(t, mk(sq, 0)); }, xq, tocq(w), ratio, want);
                    // the exponent is an argument too: its rounding-level perturbation is part of the conditioning
                    if (rc == 1) { C w2q = cpowq(xq, mk(sq * (1 + 4 * (Q)EPS), 0)); Q extra = cabsq(w2q - want); if (cabsq(tocq(w) - want) <= KTOL * ((Q)EPS * cabsq(want) + extra)) { rc = 0; } }
                    report("pow_real", "value", rc, ratio, zs(x) + " ^ " + num((double)s), tocq(w), want);
                }
                for (a_real yi : ax)
                {
                    a_complex y = {yr, yi};
                    C yq = tocq(y);
                    struct BF { const char *n; void (*f)(a_complex *, a_complex, a_complex); void (*f_)(a_complex *, a_complex); int op; };
                    static const BF bf[4] = {{"add", SPB(a_complex_add), SPB_(a_complex_add_), 0}, {"sub", SPB(a_complex_sub), SPB_(a_complex_sub_), 1}, {"mul", SPB(a_complex_mul), SPB_(a_complex_mul_), 2}, {"div", SPB(a_complex_div), SPB_(a_complex_div_), 3}};
                    for (const BF &q : bf)
                    {
                        if (q.op == 3 && yr == 0 && yi == 0) { continue; }
                        w = STALE;
                        q.f(&w, x, y);
                        w2 = x;
                        q.f_(&w2, y);
                        int op = q.op;
                        rc = judge([yq, op](C t) { return op == 0 ? t + yq : op == 1 ? t - yq : op == 2 ? t * yq : t / yq; }, xq, tocq(w), ratio, want);
                        if (rc == 1 && (op == 0 || op == 1 || op == 2))
                        {
                            // componentwise cancellation in the second operand is conditioning too
                            C w2q = op == 0 ? xq + yq * (1 + 4 * (Q)EPS) : op == 1 ? xq - yq * (1 + 4 * (Q)EPS) : xq * mk(crealq(yq) * (1 + 4 * (Q)EPS), cimagq(yq) * (1 - 4 * (Q)EPS));
                            Q extra = cabsq(w2q - want);
                            if (cabsq(tocq(w) - want) <= KTOL * ((Q)EPS * cabsq(want) + extra)) { rc = 0; }
                        }
                        report(q.n, "value", rc, ratio, zs(x) + ", " + zs(y), tocq(w), want);
                        if (rc != 2 && !(w.real == w2.real && w.imag == w2.imag)) { R.viol(std::string("complex|") + q.n + "|in-place", std::string("a_complex_") + q.n + "_ and a_complex_" + q.n + " disagree", "{\"fn\":\"" + std::string(q.n) + "\"}"); }
                    }
                    if ((xr != 0 || xi != 0) && std::fabs((double)yr) <= 64 && std::fabs((double)yi) <= 64 && !extreme(xr) && !extreme(xi) && !extreme(yr) && !extreme(yi))
                    {
                        w = STALE; a_complex_pow(&w, x, y);
                        { a_complex wi = x; a_complex_pow_(&wi, y); if (!same_c(w, wi)) { R.viol("complex|pow|in-place", "a_complex_pow_ (in place) and a_complex_pow disagree", "{\"fn\":\"pow\"}"); } }
                        rc = judge([yq](C t) { return cpowq(t, yq); }, xq, tocq(w), ratio, want);
                        if (rc == 1) { C w2q = cpowq(xq, yq * (1 + 4 * (Q)EPS)); Q extra = cabsq(w2q - want); if (cabsq(tocq(w) - want) <= KTOL * ((Q)EPS * cabsq(want) + extra)) { rc = 0; } }
                        report("pow", "value", rc, ratio, zs(x) + " ^ " + zs(y), tocq(w), want);
                        if (!(yr == 1 && yi == 0) && !(yr == 0 && yi == 0))
                        {
                            w = STALE; a_complex_logb(&w, x, y);
                            { a_complex wi = x; a_complex_logb_(&wi, y); if (!same_c(w, wi)) { R.viol("complex|logb|in-place", "a_complex_logb_ (in place) and a_complex_logb disagree", "{\"fn\":\"logb\"}"); } }
                            rc = judge([yq](C t) { return clogq(t) / clogq(yq); }, xq, tocq(w), ratio, want);
                            if (rc == 1) { C w2q = clogq(xq) / clogq(yq * (1 + 4 * (Q)EPS)); Q extra = cabsq(w2q - want); if (cabsq(tocq(w) - want) <= KTOL * ((Q)EPS * cabsq(want) + extra)) { rc = 0; } }
                            report("logb", "value", rc, ratio, zs(x) + " base " + zs(y), tocq(w), want);
                        }
                    }
                }
            }
            // inverse pairs: exp(log z) = z, log(exp z) = z in the principal strip, inv(inv z) = z
            if ((xr != 0 || xi != 0) && !extreme(xr) && !extreme(xi))
            {
                a_complex t;
                C want;
                double ratio;
                a_complex_log(&t, x); a_complex_exp_(&t);
                int rc = judge([](C u) { return u; }, xq, tocq(t), ratio, want);
                // exp amplifies the rounding of log by |log z|
                Q amp = 1 + cabsq(clogq(xq));
                report("exp(log)", "identity", rc == 1 && ratio <= KTOL * (double)amp ? 0 : rc, ratio / (double)amp, zs(x), tocq(t), want);
                a_complex_inv(&t, x); a_complex_inv_(&t);
                rc = judge([](C u) { return u; }, xq, tocq(t), ratio, want);
                report("inv(inv)", "identity", rc, ratio / 2, zs(x), tocq(t), want);
                if (std::fabs((double)xi) < 3.14 && std::fabs((double)xr) < 30)
                {
                    a_complex_exp(&t, x); a_complex_log_(&t);
                    rc = judge([](C u) { return u; }, xq, tocq(t), ratio, want);
                    Q amp2 = 1 + 1 / fmaxq(cabsq(xq), 1e-30q);
                    report("log(exp)", "identity", rc == 1 && ratio <= KTOL * (double)amp2 ? 0 : rc, ratio / (double)amp2, zs(x), tocq(t), want);
                }
            }
        }
    }
}

int main(int argc, char **argv)
{
    vx::Args args(argc, argv);
    R.init(args);
    build_axis();
    return vx::run_contained([&] {
        n_eval = n_checked = n_excluded = 0;
        unary_all();
        misc_all();
        uint64_t e1 = n_eval, c1 = n_checked;
        R.part("32 unary functions (two-argument and in-place forms) + abs/abs2/logabs/arg/polar + 7 real-argument variants on the full " + std::to_string(axis.size()) + "x" + std::to_string(axis.size()) + " argument lattice (0, +-m*2^e, branch constants +-1 ulp; all four quadrants and both axes)", e1, c1);
        n_eval = n_checked = 0;
        binary_all();
        R.part("field arithmetic incl. real- and imaginary-scalar forms, pow, pow_real, logb, and the inverse pairs (mul/div by the same scalar, exp/log, inv/inv) on operand pairs of a coarser lattice", n_eval, n_checked);
        vx::stat("excluded_by_cut_pole_rule", (long long)n_excluded);
        std::string w = "{";
        for (auto &kv : worst) { w += (w.size() > 1 ? "," : "") + vx::jstr(kv.first) + ":" + num(kv.second); }
        vx::info("worst_error_ratio", w + "}");
        R.sample("{\"fn\":\"sqrt\",\"z\":\"-3-4i\",\"principal_value\":\"1-2i\",\"rule\":\"|lib - csqrtq(z)| <= 16*(eps*|w| + change of csqrtq under perturbations of 4 eps |z|)\"}");
        R.finish(true, "every lattice point evaluated");
    }, 300.0);
}
