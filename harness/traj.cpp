// traj.cpp — C14: trapezoidal and bell-shaped (double-S) velocity-profile trajectories.
// Every feasible request of a stated lattice is planned by the real generator; whenever it reports a
// positive duration the plan is interrogated on a time lattice.  DESIGN.md §4.C14.
#include "../engine/grid.hpp"
#include <cmath>
#include <cfloat>
#include <algorithm>

extern "C" {
#include "a/trajtrap.h"
#include "a/trajbell.h"
}

static grid::Run R;
#if A_SIZE_REAL + 0 == 4
static const double EPS = FLT_EPSILON;
#else
static const double EPS = DBL_EPSILON;
#endif
static std::string num(double v)
{
    char b[40];
    snprintf(b, sizeof b, "%.17g", v);
    return b;
}
static double worst[12];
static const char *WN[12] = {"trap_pos_jump", "trap_vel_jump", "trap_end_pos", "trap_end_vel", "trap_deriv", "bell_pos_jump", "bell_vel_jump", "bell_acc_jump", "bell_end_pos", "bell_end_vel", "bell_deriv", "bell_limit_excess"};
static inline void note(int i, double v) { if (v > worst[i]) { worst[i] = v; } }
static a_real below(a_real x) { return std::nextafter(x, (a_real)-INFINITY); }

static uint64_t n_req, n_plan, n_eval;

// ---------------------------------------------------------------- trapezoid
static void trap_one(double vm, double ac, double de, double p0, double p1, double v0, double v1)
{
    a_trajtrap c;
    memset(&c, 0x41, sizeof c); // stale, finite, plausible data from an earlier plan: a field the generator forgets to write shows
    a_real T = a_trajtrap_gen(&c, (a_real)vm, (a_real)ac, (a_real)de, (a_real)p0, (a_real)p1, (a_real)v0, (a_real)v1);
    ++n_req;
    if (!(T > 0)) { return; }
    ++n_plan;
    double vm_given = vm;
    vm = std::fabs(vm); // the limit is a magnitude: a negative value means the same limit
    std::string in = "{\"vm\":" + num(vm_given) + ",\"ac\":" + num(ac) + ",\"de\":" + num(de) + ",\"p0\":" + num(p0) + ",\"p1\":" + num(p1) + ",\"v0\":" + num(v0) + ",\"v1\":" + num(v1) + "}";
    double dir = p1 >= p0 ? 1 : -1;
    std::string d = dir > 0 ? "forward" : "reverse";
    double scale = std::fabs(p1 - p0) + std::fabs(p0) + vm * (double)T, tolp = 1e3 * EPS * scale, tolv = 1e3 * EPS * (vm + std::fabs((double)c.vc));
    if (!std::isfinite((double)T)) { R.viol("trap|" + d + "|duration", "the reported duration is not finite", in); return; }
    if (!((double)c.ta >= -tolp && c.ta <= c.td + (a_real)tolp && c.td <= c.t + (a_real)tolp)) { R.viol("trap|" + d + "|phases", "phase times are not ordered 0 <= ta <= td <= t: " + num((double)c.ta) + ", " + num((double)c.td) + ", " + num((double)c.t), in); return; }
    double v0c = std::max(-vm, std::min(vm, v0));
    // start, end and held states
    if ((double)a_trajtrap_pos(&c, 0) != (double)(a_real)p0 || (double)a_trajtrap_vel(&c, 0) != (double)(a_real)v0c) { R.viol("trap|" + d + "|start", "the motion does not start at the initial position with the clamped initial velocity", in); return; }
    for (double q : {-1.0, -(double)T, 0.0})
    {
        if ((double)a_trajtrap_pos(&c, (a_real)q) != (double)(a_real)p0 || (double)a_trajtrap_vel(&c, (a_real)q) != (double)c.v0) { R.viol("trap|" + d + "|hold-before", "a query at or before the start does not hold the initial state", in); return; }
    }
    for (double q : {(double)T, (double)T + 1, 10 * (double)T})
    {
        if ((double)a_trajtrap_pos(&c, (a_real)q) != (double)(a_real)p1 || (double)a_trajtrap_vel(&c, (a_real)q) != (double)c.v1) { R.viol("trap|" + d + "|hold-after", "a query at or after the end does not hold the final state", in); return; }
    }
    {
        a_real te = below(T);
        double ep = std::fabs((double)a_trajtrap_pos(&c, te) - p1), ev = std::fabs((double)a_trajtrap_vel(&c, te) - (double)c.v1);
        note(2, ep / (EPS * scale));
        note(3, ev / (EPS * (vm + 1)));
        if (!(ep <= 1e4 * EPS * scale)) { R.viol("trap|" + d + "|end-position", "the motion ends at " + num((double)a_trajtrap_pos(&c, te)) + " instead of the final position " + num(p1), in); return; }
        // (the instant one ulp before T is not T: the velocity still differs from the final one by the deceleration times that ulp)
        if (!(ev <= 1e4 * EPS * (vm + 1) + 2 * std::max(std::fabs((double)c.ac), std::fabs((double)c.de)) * ((double)T - (double)te))) { R.viol("trap|" + d + "|end-velocity", "the velocity just before the end is " + num((double)a_trajtrap_vel(&c, te)) + " but the recorded final velocity is " + num((double)c.v1), in); return; }
    }
    // continuity across the phase boundaries
    for (a_real tb : {c.ta, c.td})
    {
        if (!(tb > 0 && tb < T)) { continue; }
        a_real tl = below(tb);
        double jp = std::fabs((double)a_trajtrap_pos(&c, tb) - (double)a_trajtrap_pos(&c, tl)), jv = std::fabs((double)a_trajtrap_vel(&c, tb) - (double)a_trajtrap_vel(&c, tl));
        note(0, jp / (EPS * scale));
        note(1, jv / (EPS * (vm + 1)));
        if (!(jp <= 1e4 * EPS * scale)) { R.viol("trap|" + d + "|position-jump", "position jumps by " + num(jp) + " across the phase boundary t=" + num((double)tb), in); return; }
        if (!(jv <= 1e4 * EPS * (vm + 1))) { R.viol("trap|" + d + "|velocity-jump", "velocity jumps by " + num(jv) + " across the phase boundary t=" + num((double)tb), in); return; }
    }
    // speed limit and derivative consistency on a time lattice of every phase
    double seg[4] = {0, (double)c.ta, (double)c.td, (double)T};
    for (int s = 0; s < 3; ++s)
    {
        double a = seg[s], b = seg[s + 1];
        if (!(b > a)) { continue; }
        for (int i = 0; i <= 32; ++i)
        {
            double t = a + (b - a) * i / 32;
            double v = (double)a_trajtrap_vel(&c, (a_real)t);
            ++n_eval;
            if (!(std::fabs(v) <= vm * (1 + 1e4 * EPS))) { R.viol("trap|" + d + "|speed-limit", "speed " + num(std::fabs(v)) + " exceeds the velocity limit " + num(vm) + " at t=" + num(t), in); return; }
            if (i > 0 && i < 32)
            {
                double h = (b - a) / 128;
                a_real xl = (a_real)(t - h), xr = (a_real)(t + h);
                double w = (double)xr - (double)xl;
                if (!(w > 0.5 * h)) { continue; } // the real type cannot resolve this segment at this time
                double dp = ((double)a_trajtrap_pos(&c, xr) - (double)a_trajtrap_pos(&c, xl)) / w;
                double dv = ((double)a_trajtrap_vel(&c, xr) - (double)a_trajtrap_vel(&c, xl)) / w;
                double tm = ((double)xr + (double)xl) / 2;
                double vmid = (double)a_trajtrap_vel(&c, (a_real)tm), acc = (double)a_trajtrap_acc(&c, (a_real)tm);
                double fd = EPS == (double)FLT_EPSILON ? 2e-2 : 1e-6;
                double e1 = std::fabs(dp - vmid), b1 = fd * (vm + 1) + 1e3 * EPS * scale / w + (std::fabs(ac) + std::fabs(de)) * EPS * tm * 8;
                double e2 = std::fabs(dv - acc), b2 = fd * (std::fabs(ac) + std::fabs(de)) + 1e3 * EPS * (vm + 1) / w;
                note(4, std::max(e1 / b1, e2 / b2));
                if (!(e1 <= b1)) { R.viol("trap|" + d + "|derivative", "the velocity output is not the derivative of the position output at t=" + num(tm) + " (" + num(vmid) + " vs " + num(dp) + ")", in); return; }
                if (!(e2 <= b2)) { R.viol("trap|" + d + "|derivative", "the acceleration output is not the derivative of the velocity output at t=" + num(tm), in); return; }
            }
        }
    }
}

// ---------------------------------------------------------------- bell / double-S
// textbook feasibility (Biagiotti & Melchiorri, eq. 3.17-3.19) in the direction of travel
static bool bell_feasible(double jm, double am, double q, double v0, double v1)
{
    double tj = std::min(std::sqrt(std::fabs(v1 - v0) / jm), am / jm);
    if (tj < am / jm) { return q > tj * (v0 + v1); }
    return q > 0.5 * (v0 + v1) * (tj + std::fabs(v1 - v0) / am);
}
static void bell_one(double jm, double am, double vm, double p0, double p1, double v0, double v1)
{
    a_trajbell c;
    memset(&c, 0x41, sizeof c); // stale, finite, plausible data from an earlier plan: a field the generator forgets to write shows
    a_real T = a_trajbell_gen(&c, (a_real)jm, (a_real)am, (a_real)vm, (a_real)p0, (a_real)p1, (a_real)v0, (a_real)v1);
    ++n_req;
    if (!(T > 0)) { return; }
    ++n_plan;
    std::string in0 = "{\"jm\":" + num(jm) + ",\"am\":" + num(am) + ",\"vm\":" + num(vm);
    jm = std::fabs(jm); am = std::fabs(am); vm = std::fabs(vm); // limits are magnitudes: a negative value means the same limit
    std::string in = in0 + ",\"p0\":" + num(p0) + ",\"p1\":" + num(p1) + ",\"v0\":" + num(v0) + ",\"v1\":" + num(v1) + "}";
    std::string d = std::string(p1 >= p0 ? "forward" : "reverse") + (c.tv > 0 ? "|cruise" : "|no-cruise");
    double scale = std::fabs(p1 - p0) + std::fabs(p0) + vm * (double)T;
    double K = EPS == (double)FLT_EPSILON ? 2e4 : 2e5; // 100x the worst value observed on the unchanged tree (~1200 eps); // the no-cruise branch bisects the acceleration down to eps: results carry ~1e-10 relative error
    if (!std::isfinite((double)T)) { R.viol("bell|" + d + "|duration", "the reported duration is not finite", in); return; }
    double ta = (double)c.ta, td = (double)c.td, tv = (double)c.tv, taj = (double)c.taj, tdj = (double)c.tdj, tt = (double)T;
    double tolt = K * EPS * (tt + 1);
    if (!(ta >= -tolt && td >= -tolt && tv >= -tolt && taj >= -tolt && tdj >= -tolt)) { R.viol("bell|" + d + "|phases", "a phase duration is negative: ta=" + num(ta) + " tv=" + num(tv) + " td=" + num(td) + " taj=" + num(taj) + " tdj=" + num(tdj), in); return; }
    if (!(std::fabs(ta + tv + td - tt) <= tolt)) { R.viol("bell|" + d + "|phases", "phase durations do not add up to the total", in); return; }
    if (!(2 * taj <= ta + tolt && 2 * tdj <= td + tolt)) { R.viol("bell|" + d + "|phases", "a constant-jerk interval is longer than half of its phase: ta=" + num(ta) + " taj=" + num(taj) + " td=" + num(td) + " tdj=" + num(tdj), in); return; }
    double v0c = std::max(-vm, std::min(vm, v0));
    double tolp = std::max(K * EPS * scale, (EPS == (double)FLT_EPSILON ? 1e-3 : 1e-7) * std::fabs(p1 - p0)); // continuity to rounding, also for very short motions
    if ((double)a_trajbell_pos(&c, 0) != (double)(a_real)p0 || std::fabs((double)a_trajbell_vel(&c, 0) - (double)(a_real)v0c) > K * EPS * (vm + 1)) { R.viol("bell|" + d + "|start", "the motion does not start at the initial position with the clamped initial velocity", in); return; }
    for (double q : {-1.0, -tt, 0.0})
    {
        if ((double)a_trajbell_pos(&c, (a_real)q) != (double)(a_real)p0 || (double)a_trajbell_vel(&c, (a_real)q) != (double)c.v0) { R.viol("bell|" + d + "|hold-before", "a query at or before the start does not hold the initial state", in); return; }
    }
    for (double q : {tt, tt + 1, 10 * tt})
    {
        if ((double)a_trajbell_pos(&c, (a_real)q) != (double)(a_real)p1 || (double)a_trajbell_vel(&c, (a_real)q) != (double)c.v1) { R.viol("bell|" + d + "|hold-after", "a query at or after the end does not hold the final state", in); return; }
    }
    {
        a_real te = below(T);
        double ep = std::fabs((double)a_trajbell_pos(&c, te) - p1), ev = std::fabs((double)a_trajbell_vel(&c, te) - (double)c.v1);
        note(8, ep / (EPS * scale));
        note(9, ev / (EPS * (vm + 1)));
        if (!(ep <= tolp)) { R.viol("bell|" + d + "|end-position", "the motion ends at " + num((double)a_trajbell_pos(&c, te)) + " instead of the final position " + num(p1), in); return; }
        if (!(ev <= K * EPS * (vm + 1) + 2 * am * ((double)T - (double)te))) { R.viol("bell|" + d + "|end-velocity", "the velocity just before the end is " + num((double)a_trajbell_vel(&c, te)) + " but the recorded final velocity is " + num((double)c.v1), in); return; }
    }
    double tb[8] = {0, taj, ta - taj, ta, ta + tv, tt - td + tdj, tt - tdj, tt};
    for (int i = 1; i < 7; ++i)
    {
        a_real x = (a_real)tb[i];
        if (!(x > 0 && x < T)) { continue; }
        a_real xl = below(x);
        double jp = std::fabs((double)a_trajbell_pos(&c, x) - (double)a_trajbell_pos(&c, xl)), jv = std::fabs((double)a_trajbell_vel(&c, x) - (double)a_trajbell_vel(&c, xl)), ja = std::fabs((double)a_trajbell_acc(&c, x) - (double)a_trajbell_acc(&c, xl));
        note(5, jp / (EPS * scale));
        note(6, jv / (EPS * (vm + 1)));
        note(7, ja / (EPS * (am + 1)));
        if (!(jp <= tolp)) { R.viol("bell|" + d + "|position-jump", "position jumps by " + num(jp) + " across the phase boundary t=" + num((double)x), in); return; }
        if (!(jv <= K * EPS * (vm + 1))) { R.viol("bell|" + d + "|velocity-jump", "velocity jumps by " + num(jv) + " across the phase boundary t=" + num((double)x), in); return; }
        if (!(ja <= K * EPS * (am + 1))) { R.viol("bell|" + d + "|acceleration-jump", "acceleration jumps by " + num(ja) + " across the phase boundary t=" + num((double)x), in); return; }
    }
    for (int s = 0; s < 7; ++s)
    {
        double a = tb[s], b = tb[s + 1];
        if (!(b > a + 4 * EPS * tt)) { continue; }
        for (int i = 0; i <= 16; ++i)
        {
            double t = a + (b - a) * i / 16;
            double v = (double)a_trajbell_vel(&c, (a_real)t), ac = (double)a_trajbell_acc(&c, (a_real)t), je = (double)a_trajbell_jer(&c, (a_real)t);
            ++n_eval;
            double ex = std::max({std::fabs(v) / vm - 1, std::fabs(ac) / am - 1, std::fabs(je) / jm - 1});
            note(11, ex / EPS);
            if (!(std::fabs(v) <= vm * (1 + K * EPS))) { R.viol("bell|" + d + "|speed-limit", "speed " + num(std::fabs(v)) + " exceeds the velocity limit " + num(vm) + " at t=" + num(t), in); return; }
            if (!(std::fabs(ac) <= am * (1 + K * EPS))) { R.viol("bell|" + d + "|acceleration-limit", "acceleration " + num(std::fabs(ac)) + " exceeds the limit " + num(am) + " at t=" + num(t), in); return; }
            if (!(std::fabs(je) <= jm * (1 + K * EPS))) { R.viol("bell|" + d + "|jerk-limit", "jerk " + num(std::fabs(je)) + " exceeds the limit " + num(jm) + " at t=" + num(t), in); return; }
            if (i > 0 && i < 16)
            {
                double h = (b - a) / 64;
                a_real xl = (a_real)(t - h), xr = (a_real)(t + h);
                double w = (double)xr - (double)xl;
                if (!(w > 0.5 * h)) { continue; } // the real type cannot resolve this segment at this time
                double dp = ((double)a_trajbell_pos(&c, xr) - (double)a_trajbell_pos(&c, xl)) / w;
                double dv = ((double)a_trajbell_vel(&c, xr) - (double)a_trajbell_vel(&c, xl)) / w;
                double da = ((double)a_trajbell_acc(&c, xr) - (double)a_trajbell_acc(&c, xl)) / w;
                double tm = ((double)xr + (double)xl) / 2;
                v = (double)a_trajbell_vel(&c, (a_real)tm); ac = (double)a_trajbell_acc(&c, (a_real)tm); je = (double)a_trajbell_jer(&c, (a_real)tm);
                h = w / 2;
                double fd = EPS == (double)FLT_EPSILON ? 5e-2 : 1e-5;
                // truncation of the central difference: h^2/6 * next derivative; round-off: eps * magnitude / h
                double ut = 8 * EPS * (tm + 1);
                double e1 = std::fabs(dp - v), b1 = fd * (vm + 1) + h * h * jm + 1e3 * EPS * scale / h + am * ut;
                double e2 = std::fabs(dv - ac), b2 = fd * (am + 1) + 1e3 * EPS * (vm + 1) / h + jm * ut;
                double e3 = std::fabs(da - je), b3 = fd * (jm + 1) + 1e3 * EPS * (am + 1) / h;
                note(10, std::max({e1 / b1, e2 / b2, e3 / b3}));
                if (!(e1 <= b1)) { R.viol("bell|" + d + "|derivative", "the velocity output is not the derivative of the position output at t=" + num(t) + " (" + num(v) + " vs " + num(dp) + ")", in); return; }
                if (!(e2 <= b2)) { R.viol("bell|" + d + "|derivative", "the acceleration output is not the derivative of the velocity output at t=" + num(t) + " (" + num(ac) + " vs " + num(dv) + ")", in); return; }
                if (!(e3 <= b3)) { R.viol("bell|" + d + "|derivative", "the jerk output is not the derivative of the acceleration output at t=" + num(t) + " (" + num(je) + " vs " + num(da) + ")", in); return; }
            }
        }
    }
}

// ---------------------------------------------------------------- evaluation again after the plan changed in place
// gen on the same object between two evaluations at the same time: straight-line code through opaque pointers at -O2
static __attribute__((noinline)) void plan_twice(a_trajtrap *t, a_trajbell *b, a_real x, a_real *out)
{
    a_trajtrap_gen(t, 2, 2, -2, 0, 4, 0, 0);
    a_trajbell_gen(b, 4, 2, 2, 0, 4, 0, 0);
    out[0] = a_trajtrap_pos(t, x); out[1] = a_trajtrap_vel(t, x); out[2] = a_trajtrap_acc(t, x);
    out[3] = a_trajbell_pos(b, x); out[4] = a_trajbell_vel(b, x); out[5] = a_trajbell_acc(b, x); out[6] = a_trajbell_jer(b, x);
    a_trajtrap_gen(t, 1, 1, -1, 7, 10, 0, 0);
    a_trajbell_gen(b, 2, 1, 1, 7, 10, 0, 0);
    out[7] = a_trajtrap_pos(t, x); out[8] = a_trajtrap_vel(t, x); out[9] = a_trajtrap_acc(t, x);
    out[10] = a_trajbell_pos(b, x); out[11] = a_trajbell_vel(b, x); out[12] = a_trajbell_acc(b, x); out[13] = a_trajbell_jer(b, x);
}
static void reread()
{
    if (R.shard.idx != 0) { return; }
    a_trajtrap t, t1, t2;
    a_trajbell b, b1, b2;
    memset(&t, 0x41, sizeof t); memset(&t1, 0x41, sizeof t1); memset(&t2, 0x41, sizeof t2);
    memset(&b, 0x41, sizeof b); memset(&b1, 0x41, sizeof b1); memset(&b2, 0x41, sizeof b2);
    a_real out[14];
    a_trajtrap *volatile vt = &t;
    a_trajbell *volatile vb = &b;
    const a_real x = (a_real)0.75;
    plan_twice(vt, vb, x, out);
    // the reference objects are planned once each and evaluated separately
    a_trajtrap_gen(&t1, 2, 2, -2, 0, 4, 0, 0); a_trajbell_gen(&b1, 4, 2, 2, 0, 4, 0, 0);
    a_trajtrap_gen(&t2, 1, 1, -1, 7, 10, 0, 0); a_trajbell_gen(&b2, 2, 1, 1, 7, 10, 0, 0);
    a_real want[14] = {a_trajtrap_pos(&t1, x), a_trajtrap_vel(&t1, x), a_trajtrap_acc(&t1, x), a_trajbell_pos(&b1, x), a_trajbell_vel(&b1, x), a_trajbell_acc(&b1, x), a_trajbell_jer(&b1, x),
                       a_trajtrap_pos(&t2, x), a_trajtrap_vel(&t2, x), a_trajtrap_acc(&t2, x), a_trajbell_pos(&b2, x), a_trajbell_vel(&b2, x), a_trajbell_acc(&b2, x), a_trajbell_jer(&b2, x)};
    static const char *FN[7] = {"a_trajtrap_pos", "a_trajtrap_vel", "a_trajtrap_acc", "a_trajbell_pos", "a_trajbell_vel", "a_trajbell_acc", "a_trajbell_jer"};
    int differ = 0; // the two plans must be told apart by the evaluation point, or the test says nothing
    for (int i = 0; i < 7; ++i) { differ += want[i] != want[i + 7]; }
    if (differ < 4) { vx::info("traj_reread", "\"weak: the two plans agree at the evaluation point\""); }
    for (int i = 0; i < 14; ++i)
    {
        if (out[i] != want[i]) { R.viol(std::string(FN[i % 7]) + "|reread", std::string(FN[i % 7]) + (i >= 7 ? " evaluated again on an object that was re-planned in place" : " on a freshly planned object") + " returned " + num((double)out[i]) + ", a separately planned object gives " + num((double)want[i]), "{\"call\":" + std::to_string(i) + "}"); }
    }
}

int main(int argc, char **argv)
{
    vx::Args args(argc, argv);
    R.init(args);
    bool thorough = R.tier == "thorough";
    return vx::run_contained([&] {
        reread();
        std::vector<double> DIST = {0.125, 0.25, 0.5, 0.75, 1, 1.5, 2.25, 3, 4.5, 6, 9};
        std::vector<double> TV = {0.5, 1.0, 2.0, 3.0}, TA = {0.5, 1.0, 2.0, 3.0}, BJ = {1.0, 2.0, 4.0, 8.0, 30.0}, BA = {0.5, 1.0, 2.0, 3.0, 10.0}, BV = {0.5, 1.0, 2.0, 3.0, 5.0};
        if (thorough)
        {
            for (double v : {0.01, 0.03, 0.1, 0.4, 1.25, 2.0, 7.5, 13.0, 20.0, 50.0, 100.0}) { DIST.push_back(v); }
            for (double v : {0.3, 0.75, 1.25, 1.7, 4.0, 6.0, 10.0}) { TV.push_back(v); }
            for (double v : {0.3, 0.75, 1.5, 4.0, 7.0, 12.0}) { TA.push_back(v); }
            for (double v : {0.25, 0.5, 3.0, 6.0, 16.0, 60.0, 100.0}) { BJ.push_back(v); }
            for (double v : {0.2, 0.75, 1.5, 5.0, 20.0}) { BA.push_back(v); }
            for (double v : {0.25, 0.75, 1.5, 4.0, 10.0, 20.0}) { BV.push_back(v); }
        }
        std::vector<double> P0 = thorough ? std::vector<double>{0, 7, -3} : std::vector<double>{0, 7};
        uint64_t item = 0;
        // ---- trapezoid: acceleration signs match the direction of travel
        n_req = n_plan = n_eval = 0;
        for (double vm : TV)
        {
            std::vector<double> VB = {0, 0.25, -0.25, 0.5, -0.5, 1, -1, 2, -2, vm, -vm, 1.25 * vm, -1.25 * vm};
            for (double A : TA)
            {
                for (double D : TA)
                {
                    if (!R.shard.mine(item++)) { continue; }
                    vx::tick();
                    for (double dist : DIST)
                    {
                        for (int dir = -1; dir <= 1; dir += 2)
                        {
                            for (double p0 : P0)
                            {
                                for (double v0 : VB)
                                {
                                    if (std::fabs(v0) > 1.25 * vm) { continue; }
                                    for (double v1 : VB)
                                    {
                                        if (std::fabs(v1) > 1.25 * vm) { continue; }
                                        trap_one(vm, dir * A, -dir * D, p0, p0 + dir * dist, v0, v1);
                                        trap_one(-vm, dir * A, -dir * D, p0, p0 + dir * dist, v0, v1); // the same limit given with a negative sign
                                        // the same request in units 4096 times smaller / larger (exact scaling of every length: the plan's
                                        // times are the same, nothing in the definition is tied to unit scale)
                                        if (p0 == 0) { for (double sc : {1.0 / 4096, 4096.0}) { trap_one(vm * sc, dir * A * sc, -dir * D * sc, 0, dir * dist * sc, v0 * sc, v1 * sc); } }
                                    }
                                }
                            }
                        }
                    }
                }
            }
        }
        R.part(std::string("trapezoid: vm in {1/2,1,2,3") + (thorough ? ",0.3,0.75,1.25,1.7,4,6,10" : "") + "} x |ac|,|de| in {1/2,1,2,3" + (thorough ? ",0.3,0.75,1.5,4,7,12" : "") + "} (signs matching the direction) x " + std::to_string(DIST.size()) + " distances x both directions x p0 x 13^2 boundary velocities (inside, at and 25% beyond the limit): requests " + std::to_string(n_req) + ", plans with positive duration " + std::to_string(n_plan) + "; each plan: phase order, start/end/held states, continuity at phase boundaries, speed limit and derivative consistency on a 33-point lattice per phase", n_req, n_plan);
        vx::stat("trap_plans", (long long)n_plan);
        uint64_t evals = n_eval;
        // ---- bell
        n_req = n_plan = n_eval = 0;
        for (double jm : BJ)
        {
            for (double am : BA)
            {
                for (double vm : BV)
                {
                    if (!R.shard.mine(item++)) { continue; }
                    vx::tick();
                    std::vector<double> VB = {0, 0.25, -0.25, 0.5, -0.5, 1, -1, 2, -2, vm, -vm};
                    for (double dist : DIST)
                    {
                        for (int dir = -1; dir <= 1; dir += 2)
                        {
                            for (double p0 : P0)
                            {
                                for (double v0 : VB)
                                {
                                    if (std::fabs(v0) > vm) { continue; }
                                    for (double v1 : VB)
                                    {
                                        if (std::fabs(v1) > vm) { continue; }
                                        if (!bell_feasible(jm, am, dist, dir * v0, dir * v1)) { continue; }
                                        bell_one(jm, am, vm, p0, p0 + dir * dist, v0, v1);
                                        if (p0 == 0 && v0 >= 0 && v1 >= 0) { for (double sc : {1.0 / 4096, 4096.0}) { bell_one(jm * sc, am * sc, vm * sc, 0, dir * dist * sc, v0 * sc, v1 * sc); } }
                                        if (p0 == 0) { bell_one(-jm, am, vm, p0, p0 + dir * dist, v0, v1); bell_one(jm, -am, vm, p0, p0 + dir * dist, v0, v1); bell_one(jm, am, -vm, p0, p0 + dir * dist, v0, v1); }
                                    }
                                }
                            }
                        }
                    }
                }
            }
        }
        R.part(std::string("bell (double-S): jm in {1,2,4,8,30") + (thorough ? ",0.5,100" : "") + "} x am in {1/2,1,2,3,10" + (thorough ? ",0.2" : "") + "} x vm in {1/2,1,2,3,5" + (thorough ? ",10" : "") + "} x " + std::to_string(DIST.size()) + " distances x both directions x p0 x boundary velocities inside the limit, filtered by the textbook feasibility condition: requests " + std::to_string(n_req) + ", plans " + std::to_string(n_plan) + "; each plan: phase durations, start/end/held states, continuity of position/velocity/acceleration at the 6 phase boundaries, velocity/acceleration/jerk limits and derivative consistency on a 17-point lattice per segment", n_req, n_plan);
        vx::stat("bell_plans", (long long)n_plan);
        vx::stat("lattice_evaluations", (long long)(evals + n_eval));
        std::string w = "{";
        for (int i = 0; i < 12; ++i) { w += (i ? "," : "") + std::string("\"") + WN[i] + "\":" + num(worst[i]); }
        vx::info("worst_observed_eps", w + "}");
        R.sample("{\"generator\":\"trajbell\",\"jm\":3,\"am\":2,\"vm\":3,\"p0\":0,\"p1\":10,\"v0\":0,\"v1\":0,\"checks\":\"7 segments, 6 boundaries, limits and derivatives on 17 points per segment\"}");
        R.finish(true, "every request of the lattice planned");
    }, 120.0);
}
