// real.cpp — C11: real special functions (library fallbacks called by symbol, and the names as bound by the
// build configuration), atan2, Euclidean norms, coordinate conversions, reductions and block movers.
// DESIGN.md §4.C11.
#include "../engine/grid.hpp"
#include <quadmath.h>
#include <cmath>
#include <limits>
#include <cfloat>
#include <cstring>

extern "C" {
#include "a/math.h"
}

// the names as the configuration binds them (libm when the switch is on, otherwise the fallback)
static a_real b_asinh(a_real x) { return a_real_asinh(x); }
static a_real b_acosh(a_real x) { return a_real_acosh(x); }
static a_real b_atanh(a_real x) { return a_real_atanh(x); }
static a_real b_expm1(a_real x) { return a_real_expm1(x); }
static a_real b_log1p(a_real x) { return a_real_log1p(x); }
static a_real b_atan2(a_real y, a_real x) { return a_real_atan2(y, x); }
static a_real b_hypot(a_real x, a_real y) { return a_real_hypot(x, y); }
// the fallback bodies are always compiled in src/math.c under these symbols
#undef a_real_asinh
#undef a_real_acosh
#undef a_real_atanh
#undef a_real_expm1
#undef a_real_log1p
#undef a_real_atan2
extern "C" {
a_real a_real_asinh(a_real);
a_real a_real_acosh(a_real);
a_real a_real_atanh(a_real);
a_real a_real_expm1(a_real);
a_real a_real_log1p(a_real);
a_real a_real_atan2(a_real, a_real);
}

typedef __float128 Q;
static grid::Run R;
#if A_SIZE_REAL + 0 == 4
static const double EPS = FLT_EPSILON;
static const double RMAX = FLT_MAX, RMIN = FLT_MIN;
typedef uint32_t bits_t;
#define RNAME "f32"
#else
static const double EPS = DBL_EPSILON;
static const double RMAX = DBL_MAX, RMIN = DBL_MIN;
typedef uint64_t bits_t;
#define RNAME "f64"
#endif
static std::string num(double v)
{
    char b[40];
    snprintf(b, sizeof b, "%.17g", v);
    return b;
}
static double worst[16], worst_raw[16];

// ---------------------------------------------------------------- univariate helpers
// Reference type of the univariate sweep: __float128 (libquadmath) for the double build; for the float build the host's double
// libm, whose error (< 1 ulp of double = 2^-29 float eps) is far below the float budget and which makes the COMPLETE sweep of all
// 2^32 arguments affordable (about 20x faster than libquadmath).
#if A_SIZE_REAL + 0 == 4
typedef double UQ;
static UQ r_asinh(UQ x) { return std::asinh(x); }
static UQ r_acosh(UQ x) { return std::acosh(x); }
static UQ r_atanh(UQ x) { return std::atanh(x); }
static UQ r_expm1(UQ x) { return std::expm1(x); }
static UQ r_log1p(UQ x) { return std::log1p(x); }
static inline UQ u_abs(UQ v) { return std::fabs(v); }
static inline bool u_fin(UQ v) { return std::isfinite(v); }
#else
typedef Q UQ;
static UQ r_asinh(UQ x) { return asinhq(x); }
static UQ r_acosh(UQ x) { return acoshq(x); }
static UQ r_atanh(UQ x) { return atanhq(x); }
static UQ r_expm1(UQ x) { return expm1q(x); }
static UQ r_log1p(UQ x) { return log1pq(x); }
static inline UQ u_abs(UQ v) { return fabsq(v); }
static inline bool u_fin(UQ v) { return finiteq(v) != 0; }
#endif
struct U1
{
    const char *name;
    a_real (*fallback)(a_real);
    a_real (*bound)(a_real);
    UQ (*ref)(UQ);
    bool (*dom)(double);
};
static bool d_all(double) { return true; }
static bool d_acosh(double x) { return x >= 1; }
static bool d_atanh(double x) { return std::fabs(x) < 1; }
static bool d_log1p(double x) { return x > -1; }
static const U1 UNI[5] = {
    {"asinh", [](a_real x_) -> a_real { return a_real_asinh(x_); }, b_asinh, r_asinh, d_all}, {"acosh", [](a_real x_) -> a_real { return a_real_acosh(x_); }, b_acosh, r_acosh, d_acosh}, {"atanh", [](a_real x_) -> a_real { return a_real_atanh(x_); }, b_atanh, r_atanh, d_atanh},
    {"expm1", [](a_real x_) -> a_real { return a_real_expm1(x_); }, b_expm1, r_expm1, d_all}, {"log1p", [](a_real x_) -> a_real { return a_real_log1p(x_); }, b_log1p, r_log1p, d_log1p}};

static uint64_t n_eval, n_nt;
static const double ULPS = 8; // tolerated error in units of eps*|w| (worst observed on the unchanged tree is recorded in the evidence)
static void uni_one(int f, a_real x)
{
    const U1 &u = UNI[f];
    if (!std::isfinite((double)x) || !u.dom((double)x)) { return; }
    UQ want = u.ref((UQ)x);
    if (!u_fin(want) || u_abs(want) > (UQ)RMAX / 2) { return; }
    if (want != 0 && u_abs(want) < (UQ)RMIN * 2) { return; } // subnormal results carry absolute, not relative, precision
    // the conditioning of the function with respect to a half-ulp change of its argument is part of the budget
    UQ w2 = u.ref((UQ)x * (1 + (UQ)EPS / 2));
    double cond = u_fin(w2) && want != 0 ? (double)(u_abs(w2 - want) / ((UQ)EPS * u_abs(want))) : 0;
    for (int which = 0; which < 2; ++which)
    {
        a_real got = which ? u.bound(x) : u.fallback(x);
        ++n_eval;
        n_nt += want != 0;
        double err = want == 0 ? (got == 0 ? 0 : 1e300) : (double)(u_abs((UQ)got - want) / ((UQ)EPS * u_abs(want)));
        // the argument is an exact floating-point number, so the statement's "small multiple of machine precision" needs no conditioning
        // allowance here (the worst raw error on the unchanged tree is ~2 eps); the conditioning is only reported
        double ratio = err;
        (void)cond;
        if (ratio > worst[f * 2 + which]) { worst[f * 2 + which] = ratio; }
        if (err > worst_raw[f * 2 + which]) { worst_raw[f * 2 + which] = err; }
        if (!(ratio <= ULPS))
        {
            R.viol(std::string("real|") + u.name + "|" + (which ? "bound" : "fallback"), std::string(which ? "a_real_" : "fallback a_real_") + u.name + "(" + num((double)x) + ") = " + num((double)got) + " but the value is " + num((double)want) + ": " + num(err) + " eps (conditioning " + num(cond) + "), tolerated " + num(ULPS),
                   "{\"fn\":\"" + std::string(u.name) + "\",\"x\":" + num((double)x) + "}");
        }
    }
}
static a_real from_bits(bits_t b)
{
    a_real x;
    memcpy(&x, &b, sizeof x);
    return x;
}
static void univariate(bool thorough)
{
    vx::mark("asinh/acosh/atanh/expm1/log1p sweep");
    n_eval = n_nt = 0;
#if A_SIZE_REAL + 0 == 4
    // float: the complete set of bit patterns in thorough; in quick every pattern whose low 11 mantissa bits are zero (2^21 values)
    uint64_t lo, hi;
    if (thorough)
    {
        R.shard.range(1ull << 32, lo, hi);
        for (uint64_t b = lo; b < hi; ++b) { a_real x = from_bits((bits_t)b); for (int f = 0; f < 5; ++f) { uni_one(f, x); } R.tick(); }
    }
    else
    {
        R.shard.range(1ull << 21, lo, hi);
        for (uint64_t b = lo; b < hi; ++b) { a_real x = from_bits((bits_t)(b << 11)); for (int f = 0; f < 5; ++f) { uni_one(f, x); } R.tick(); }
    }
    std::string dom = thorough ? "ALL 2^32 float bit patterns" : "every float bit pattern with the low 11 mantissa bits zero (2^21 values)";
#else
    // double: every (sign, exponent, top k mantissa bits) pattern
    int k = thorough ? 10 : 6;
    uint64_t total = 1ull << (12 + k), lo, hi;
    R.shard.range(total, lo, hi);
    for (uint64_t b = lo; b < hi; ++b) { a_real x = from_bits((bits_t)(b << (52 - k))); for (int f = 0; f < 5; ++f) { uni_one(f, x); } R.tick(); }
    std::string dom = "every double bit pattern (sign, 11-bit exponent, top " + std::to_string(k) + " mantissa bits)";
#endif
    // every branch constant of the fallback bodies +- 2 ulp
    if (R.shard.idx == 0)
    {
        double se = std::sqrt(EPS);
        for (double c : {se, 1 / se, 2.0, 1.0, 0.5, EPS, se * 1.0000001, 0.25, 1e-10, 1e-5})
        {
            for (double s : {1.0, -1.0})
            {
                a_real x = (a_real)(s * c);
                a_real up = x, dn = x;
                for (int i = 0; i < 3; ++i)
                {
                    for (int f = 0; f < 5; ++f) { uni_one(f, up); uni_one(f, dn); }
                    up = std::nextafter(up, (a_real)INFINITY);
                    dn = std::nextafter(dn, (a_real)-INFINITY);
                }
            }
        }
    }
    R.part("asinh, acosh, atanh, expm1, log1p (" RNAME "): the fallback bodies by symbol and the names as bound by this configuration, on " + dom + " plus every branch constant (sqrt eps, 1/sqrt eps, 2, 1, 1/2, eps) +-2 ulp", n_eval, n_nt);
}

// ---------------------------------------------------------------- lattices for the multivariate functions
static std::vector<a_real> axis()
{
    std::vector<double> v{0};
    static const int E[] = {-1000, -600, -100, -30, -10, -1, 0, 1, 10, 30, 100, 600, 1000};
    static const int EF[] = {-120, -60, -30, -10, -1, 0, 1, 10, 30, 60, 120};
    if (EPS == (double)FLT_EPSILON) { for (int e : EF) { for (double m : {1.0, 1.5}) { v.push_back(std::ldexp(m, e)); v.push_back(-std::ldexp(m, e)); } } }
    else { for (int e : E) { for (double m : {1.0, 1.5}) { v.push_back(std::ldexp(m, e)); v.push_back(-std::ldexp(m, e)); } } }
    for (double d : {3.0, -3.0, 0.1, -0.1, (double)RMAX, -(double)RMAX, (double)RMIN, -(double)RMIN}) { v.push_back(d); }
    std::vector<a_real> a;
    for (double d : v) { a.push_back((a_real)d); }
    std::sort(a.begin(), a.end());
    a.erase(std::unique(a.begin(), a.end()), a.end());
    return a;
}

static void multivariate()
{
    uint64_t n = 0, nt = 0;
    std::vector<a_real> A = axis();
    uint64_t item = 0;
    for (a_real y : A)
    {
        if (!R.shard.mine(item++)) { continue; }
        for (a_real x : A)
        {
            std::string in = "{\"y\":" + num((double)y) + ",\"x\":" + num((double)x) + "}";
            // atan2: all quadrants and exact axis points (signed zeros are not part of the statement)
            if (x != 0 || y != 0)
            {
                Q want = atan2q((Q)y, (Q)x);
                for (int which = 0; which < 2; ++which)
                {
                    a_real got = which ? b_atan2(y, x) : a_real_atan2(y, x);
                    ++n; ++nt;
                    double err = (double)(fabsq((Q)got - want) / ((Q)EPS * fmaxq(fabsq(want), (Q)RMIN)));
                    if (fabsq(want) < (Q)RMIN * 2) { err = fabsq((Q)got - want) <= (Q)RMIN ? 0 : err; }
                    if (err > worst[10 + which]) { worst[10 + which] = err; }
                    const char *cls = x == 0 ? "on-y-axis" : y == 0 ? "on-x-axis" : x > 0 ? (y > 0 ? "q1" : "q4") : (y > 0 ? "q2" : "q3");
                    if (!(err <= ULPS)) { R.viol(std::string("real|atan2|") + (which ? "bound|" : "fallback|") + cls, std::string(which ? "a_real_atan2" : "fallback a_real_atan2") + "(" + num((double)y) + ", " + num((double)x) + ") = " + num((double)got) + " but the angle is " + num((double)want), in); }
                }
            }
            // two-component norm and its libm-bound counterpart
            {
                Q want = sqrtq((Q)x * x + (Q)y * y);
                bool representable = want <= (Q)RMAX && (want == 0 || want >= (Q)RMIN);
                for (int which = 0; which < 2; ++which)
                {
                    a_real got = which ? b_hypot(x, y) : a_real_norm2(x, y);
                    ++n; nt += x != 0 && y != 0;
                    if (representable)
                    {
                        double err = want == 0 ? (got == 0 ? 0 : 1e300) : (double)(fabsq((Q)got - want) / ((Q)EPS * want));
                        if (err > worst[12]) { worst[12] = err; }
                        if (!(err <= 4)) { R.viol(std::string("real|norm2|") + (which ? "hypot-bound" : "value") + (std::fabs((double)x) > 1e150 || std::fabs((double)y) > 1e150 || (x != 0 && std::fabs((double)x) < 1e-150) ? "|extreme" : ""), std::string(which ? "a_real_hypot" : "a_real_norm2") + "(" + num((double)x) + ", " + num((double)y) + ") = " + num((double)got) + " but the norm is " + num((double)want) + " (representable: no overflow or underflow is allowed)", in); }
                    }
                }
            }
            // polar coordinates and back
            {
                a_real rho, th, bx, by;
                a_real_cart2pol(x, y, &rho, &th);
                a_real_pol2cart(rho, th, &bx, &by);
                ++n;
                Q wr = sqrtq((Q)x * x + (Q)y * y);
                if (wr <= (Q)RMAX && wr >= (Q)RMIN)
                {
                    ++nt;
                    if (!((double)(fabsq((Q)rho - wr) / ((Q)EPS * wr)) <= 4)) { R.viol("real|cart2pol|rho", "cart2pol radius " + num((double)rho) + " is not the norm " + num((double)wr), in); }
                    if (!(fabsq((Q)th - atan2q((Q)y, (Q)x)) <= ULPS * (Q)EPS * 4)) { R.viol("real|cart2pol|theta", "cart2pol angle " + num((double)th) + " is not atan2(y, x)", in); }
                    double tol = 16 * EPS * (double)wr;
                    if (!(std::fabs((double)bx - (double)x) <= tol && std::fabs((double)by - (double)y) <= tol)) { R.viol("real|pol2cart|roundtrip", "pol2cart(cart2pol(x, y)) = (" + num((double)bx) + ", " + num((double)by) + ")", in); }
                }
            }
        }
    }
    // polar / spherical to cartesian directly, for angles of many turns: x = rho cos(theta), y = rho sin(theta) (the angle is an exact
    // floating-point number; nothing in the definition reduces it with a rounded value of 2 pi first)
    if (R.shard.idx == 0)
    {
        // each returned coordinate is a value of its own: rho*cos(theta) and rho*sin(theta) to a few ulp of THAT coordinate (one subnormal
        // spacing of slack), for tiny angles and angles next to a multiple of pi/2 as well, where one coordinate is far below rho
        for (double td : {0.5, -1.0, 3.0, 7.0, -10.0, 100.0, 1000.0, -12345.678, 1e6, -3e6, 1e-20, -3e-9, 1e-30, 1.5707963267948966, -1.5707963267948966, 3.141592653589793, 4.71238898038469, 1.5707963705062866, 3.1415927410125732})
        {
            for (double rd : {1.0, 2.5, 1e-3})
            {
                a_real th = (a_real)td, rho = (a_real)rd, bx, by, bz;
                a_real_pol2cart(rho, th, &bx, &by);
                Q wx = (Q)rho * cosq((Q)th), wy = (Q)rho * sinq((Q)th);
                ++n; ++nt;
                std::string in = "{\"rho\":" + num((double)rho) + ",\"theta\":" + num((double)th) + "}";
                double tol = 8 * EPS * (double)rho;
                auto near1 = [&](a_real got, Q want) { return fabsq((Q)got - want) <= 8 * (Q)EPS * fabsq(want) + (Q)RMIN * (Q)EPS; };
                if (!(near1(bx, wx) && near1(by, wy))) { R.viol("real|pol2cart|coordinate", "pol2cart(" + num((double)rho) + ", " + num((double)th) + ") = (" + num((double)bx) + ", " + num((double)by) + ") but rho*cos(theta), rho*sin(theta) = (" + num((double)wx) + ", " + num((double)wy) + "): a coordinate is off by more than 8 eps of its own size", in); }
                if (!(fabsq((Q)bx - wx) <= tol && fabsq((Q)by - wy) <= tol)) { R.viol("real|pol2cart|value", "pol2cart(" + num((double)rho) + ", " + num((double)th) + ") = (" + num((double)bx) + ", " + num((double)by) + ") but rho*cos(theta), rho*sin(theta) = (" + num((double)wx) + ", " + num((double)wy) + ")", in); }
                for (double ad : {0.25, -1.0, 50.0, -1000.0, 1e-20, -1.5707963267948966})
                {
                    a_real al = (a_real)ad;
                    a_real_sph2cart(rho, th, al, &bx, &by, &bz);
                    Q c = (Q)rho * cosq((Q)al);
                    Q sx = c * cosq((Q)th), sy = c * sinq((Q)th), sz = (Q)rho * sinq((Q)al);
                    ++n; ++nt;
                    if (!(near1(bx, sx) && near1(by, sy) && near1(bz, sz))) { R.viol("real|sph2cart|coordinate", "sph2cart(" + num((double)rho) + ", " + num((double)th) + ", " + num((double)al) + ") = (" + num((double)bx) + ", " + num((double)by) + ", " + num((double)bz) + "): a coordinate is off by more than 8 eps of its own size from (rho cos(alpha) cos(theta), rho cos(alpha) sin(theta), rho sin(alpha))", in); }
                    if (!(fabsq((Q)bx - sx) <= tol && fabsq((Q)by - sy) <= tol && fabsq((Q)bz - sz) <= tol)) { R.viol("real|sph2cart|value", "sph2cart(" + num((double)rho) + ", " + num((double)th) + ", " + num((double)al) + ") is not (rho cos(alpha) cos(theta), rho cos(alpha) sin(theta), rho sin(alpha))", in); }
                }
            }
        }
    }
    // three components, n components with strides, spherical coordinates: tuples over a smaller set
    std::vector<a_real> S;
    for (double d : {0.0, 1.0, 3.0, -4.0, (double)RMIN * 8, (EPS == (double)FLT_EPSILON ? 1e-30 : 1e-200), (EPS == (double)FLT_EPSILON ? 1e30 : 1e200), (double)RMAX / 4, -(double)RMAX / 2,
                     1e-3, -1e-5, (EPS == (double)FLT_EPSILON ? 1e-6 : 1e-9)}) { S.push_back((a_real)d); } // the small ratios put points close to a pole / an axis
    size_t ns = S.size();
    for (size_t i = 0; i < ns; ++i)
    {
        if (!R.shard.mine(item++)) { continue; }
        for (size_t j = 0; j < ns; ++j)
        {
            for (size_t k = 0; k < ns; ++k)
            {
                a_real x = S[i], y = S[j], z = S[k];
                std::string in = "{\"x\":" + num((double)x) + ",\"y\":" + num((double)y) + ",\"z\":" + num((double)z) + "}";
                Q want = sqrtq((Q)x * x + (Q)y * y + (Q)z * z);
                bool rep = want <= (Q)RMAX && (want == 0 || want >= (Q)RMIN);
                ++n; nt += rep && want != 0;
                if (rep)
                {
                    a_real got = a_real_norm3(x, y, z);
                    double err = want == 0 ? (got == 0 ? 0 : 1e300) : (double)(fabsq((Q)got - want) / ((Q)EPS * want));
                    if (err > worst[13]) { worst[13] = err; }
                    if (!(err <= 6)) { R.viol("real|norm3|value", "a_real_norm3 = " + num((double)got) + " but the norm is " + num((double)want), in); }
                    // the same three values as a vector, contiguous and strided
                    for (size_t c = 1; c <= 3; ++c)
                    {
                        std::vector<a_real> buf(3 * c + 2, (a_real)RMAX); // the gaps hold huge values: reading them changes the result
                        buf[0] = x; buf[c] = y; buf[2 * c] = z;
                        a_real g = c == 1 ? a_real_norm(3, buf.data()) : a_real_norm_(3, buf.data(), c);
                        a_real g2 = a_real_norm_(3, buf.data(), c);
                        ++n;
                        for (a_real v : {g, g2})
                        {
                            double e2 = want == 0 ? (v == 0 ? 0 : 1e300) : (double)(fabsq((Q)v - want) / ((Q)EPS * want));
                            if (e2 > worst[14]) { worst[14] = e2; }
                            if (!(e2 <= 8)) { R.viol(std::string("real|norm|") + (c == 1 ? "contiguous" : "strided"), "a_real_norm" + std::string(c == 1 ? "" : "_") + " over 3 components with stride " + std::to_string(c) + " = " + num((double)v) + " but the norm is " + num((double)want), in); }
                        }
                    }
                    if (want >= (Q)RMIN * 1e6 && want <= (Q)RMAX / 1e6)
                    {
                        a_real rho, th, al, bx, by, bz;
                        a_real_cart2sph(x, y, z, &rho, &th, &al);
                        a_real_sph2cart(rho, th, al, &bx, &by, &bz);
                        double tol = 32 * EPS * (double)want;
                        if (!((double)(fabsq((Q)rho - want) / ((Q)EPS * want)) <= 8)) { R.viol("real|cart2sph|rho", "cart2sph radius is not the norm", in); }
                        // azimuth = atan2(y, x), elevation = atan2(z, hypot(x, y)): both to a few eps of pi (absolute: they are angles)
                        {
                            Q wth = atan2q((Q)y, (Q)x), wal = atan2q((Q)z, sqrtq((Q)x * x + (Q)y * y));
                            if (!(fabsq((Q)th - wth) <= ULPS * (Q)EPS * fmaxq(fabsq(wth), (Q)1e-3))) { R.viol("real|cart2sph|theta", "cart2sph azimuth " + num((double)th) + " is not atan2(y, x) = " + num((double)wth), in); }
                            if (!(fabsq((Q)al - wal) <= ULPS * (Q)EPS * fmaxq(fabsq(wal), (Q)1e-3))) { R.viol("real|cart2sph|alpha", "cart2sph elevation " + num((double)al) + " is not atan2(z, hypot(x, y)) = " + num((double)wal), in); }
                        }
                        if (!(std::fabs((double)bx - (double)x) <= tol && std::fabs((double)by - (double)y) <= tol && std::fabs((double)bz - (double)z) <= tol)) { R.viol("real|sph2cart|roundtrip", "sph2cart(cart2sph(x, y, z)) does not return the point", in); }
                    }
                }
            }
        }
    }
    // subnormal components: the true norm is representable (as a subnormal or small normal number), so the result may be neither
    // 0 nor infinite nor NaN; subnormal arithmetic has absolute precision, hence the additive two-quanta allowance
    {
        const a_real d = std::numeric_limits<a_real>::denorm_min();
        std::vector<a_real> T{0, d, 3 * d, 1024 * d, (a_real)((double)RMIN / 1048576 * 3), (a_real)((double)RMIN / 8), (a_real)((double)RMIN / 4), (a_real)((double)RMIN * 0.75), (a_real)RMIN, (a_real)-((double)RMIN / 8)};
        for (a_real x : T)
        {
            if (!R.shard.mine(item++)) { continue; }
            for (a_real y : T)
            {
                for (a_real z : T)
                {
                    std::string in = "{\"x\":" + num((double)x) + ",\"y\":" + num((double)y) + ",\"z\":" + num((double)z) + "}";
                    Q want = sqrtq((Q)x * x + (Q)y * y + (Q)z * z), tol = 8 * (Q)EPS * want + 2 * (Q)d;
                    a_real v[3] = {x, y, z}, sv[7] = {x, (a_real)RMAX, (a_real)RMAX, y, (a_real)RMAX, (a_real)RMAX, z};
                    a_real g[4] = {a_real_norm3(x, y, z), a_real_norm(3, v), a_real_norm_(3, sv, 3), z == 0 ? a_real_norm2(x, y) : a_real_norm3(x, y, z)};
                    static const char *nm[4] = {"a_real_norm3", "a_real_norm", "a_real_norm_", "a_real_norm2"};
                    n += 4; nt += want != 0 ? 4 : 0;
                    for (int w = 0; w < 4; ++w)
                    {
                        if (!(fabsq((Q)g[w] - want) <= tol)) { R.viol(std::string("real|") + (w == 0 ? "norm3" : w == 3 ? "norm2" : "norm") + "|subnormal", std::string(nm[z == 0 || w != 3 ? w : 0]) + " of subnormal components = " + num((double)g[w]) + " but the norm " + num((double)want) + " is representable", in); }
                    }
                }
            }
        }
    }
    R.part("atan2 (fallback and bound) on all pairs of a " + std::to_string(A.size()) + "-value axis incl. exact axis points and extreme magnitudes; norm2/hypot, norm3, norm/norm_ with strides 1..3 (gaps poisoned) incl. values whose square over/underflows and all triples of a 10-value subnormal set; polar and spherical conversions with round trips", n, nt);
}

// ---------------------------------------------------------------- reductions and block movers (small integers: exact)
static void blocks()
{
    vx::mark("reductions and block movers");
    uint64_t n = 0, nt = 0;
    if (R.shard.idx != 0) { R.part("reductions/movers (shard 0)", 0, 0); return; }
    const a_real G = (a_real)-12321;
    for (size_t len = 0; len <= 6; ++len)
    {
        for (size_t c = 1; c <= 3; ++c)
        {
            std::vector<a_real> X(len * c + 4, (a_real)-1234.5), Y(len * c + 4, (a_real)4321.25); // between the strided elements: values of their own, different from the guard cells of every destination
            long s = 0, s1 = 0, s2 = 0, dt = 0;
            for (size_t i = 0; i < len; ++i)
            {
                long xv = (long)(i * 3 + 1) * (i % 2 ? -1 : 1), yv = (long)(7 - 2 * (long)i);
                X[i * c] = (a_real)xv; Y[i * c] = (a_real)yv;
                s += xv; s1 += std::labs(xv); s2 += xv * xv; dt += xv * yv;
            }
            std::string in = "{\"n\":" + std::to_string(len) + ",\"stride\":" + std::to_string(c) + "}";
            std::string cl = len == 0 ? "|n=0" : "";
            ++n; nt += len > 1;
            if (a_real_sum_(len, X.data(), c) != (a_real)s || (c == 1 && a_real_sum(len, X.data()) != (a_real)s)) { R.viol("real|sum" + cl, "sum of " + std::to_string(len) + " elements with stride " + std::to_string(c) + " is wrong", in); }
            if (a_real_sum1_(len, X.data(), c) != (a_real)s1 || (c == 1 && a_real_sum1(len, X.data()) != (a_real)s1)) { R.viol("real|sum1" + cl, "sum of magnitudes is wrong", in); }
            if (a_real_sum2_(len, X.data(), c) != (a_real)s2 || (c == 1 && a_real_sum2(len, X.data()) != (a_real)s2)) { R.viol("real|sum2" + cl, "sum of squares is wrong", in); }
            for (size_t c2 = 1; c2 <= 3; ++c2)
            {
                std::vector<a_real> Y2(len * c2 + 4, G);
                long d2 = 0;
                for (size_t i = 0; i < len; ++i) { long yv = (long)(7 - 2 * (long)i); Y2[i * c2] = (a_real)yv; d2 += (long)X[i * c] * yv; }
                if (a_real_dot_(len, X.data(), c, Y2.data(), c2) != (a_real)d2) { R.viol("real|dot_" + cl, "strided dot product is wrong (strides " + std::to_string(c) + "," + std::to_string(c2) + ")", in); }
                ++n;
            }
            if (c == 1 && a_real_dot(len, X.data(), Y.data()) != (a_real)dt) { R.viol("real|dot" + cl, "dot product is wrong", in); }
            if (len)
            {
                double m = (double)s / (double)len;
                a_real got = c == 1 ? a_real_mean(len, X.data()) : a_real_mean_(len, X.data(), c);
                if (!(std::fabs((double)got - m) <= 8 * EPS * ((double)s1 / (double)len + 1))) { R.viol("real|mean", "mean is wrong", in); }
                if (!(std::fabs((double)a_real_mean_(len, X.data(), c) - m) <= 8 * EPS * ((double)s1 / (double)len + 1))) { R.viol("real|mean_", "strided mean is wrong", in); }
            }
            // copy / swap / fill / zero with guard cells
            {
                std::vector<a_real> D(len * 3 + 8, G);
                a_real *d = D.data() + 2;
                for (size_t dc = 1; dc <= 3; ++dc)
                {
                    std::fill(D.begin(), D.end(), G);
                    a_real_copy_(len, d, dc, X.data(), c);
                    bool ok = true;
                    for (size_t i = 0; i < D.size(); ++i)
                    {
                        size_t off = i - 2;
                        bool slot = i >= 2 && off % dc == 0 && off / dc < len;
                        if (D[i] != (slot ? X[(off / dc) * c] : G)) { ok = false; }
                    }
                    ++n;
                    if (!ok) { R.viol("real|copy_" + cl, "strided copy wrote a wrong value or outside its destination slots", in); }
                }
                if (c == 1)
                {
                    std::fill(D.begin(), D.end(), G);
                    a_real_copy(len, d, X.data());
                    bool ok = true;
                    for (size_t i = 0; i < D.size(); ++i) { if (D[i] != (i >= 2 && i - 2 < len ? X[i - 2] : G)) { ok = false; } }
                    if (!ok) { R.viol("real|copy" + cl, "copy wrote a wrong value or outside its destination", in); }
                    std::vector<a_real> A2 = X, B2 = Y;
                    a_real_swap(len, A2.data(), B2.data());
                    for (size_t i = 0; i < A2.size(); ++i) { if (A2[i] != (i < len ? Y[i] : X[i]) || B2[i] != (i < len ? X[i] : Y[i])) { R.viol("real|swap" + cl, "swap exchanged the wrong elements", in); break; } }
                    std::fill(D.begin(), D.end(), G);
                    a_real_fill(len, d, 9);
                    for (size_t i = 0; i < D.size(); ++i) { if (D[i] != (i >= 2 && i - 2 < len ? (a_real)9 : G)) { R.viol("real|fill" + cl, "fill wrote outside its block or a wrong value", in); break; } }
                    a_real_zero(len, d);
                    for (size_t i = 0; i < D.size(); ++i) { if (D[i] != (i >= 2 && i - 2 < len ? (a_real)0 : G)) { R.viol("real|zero" + cl, "zero wrote outside its block", in); break; } }
                }
                std::vector<a_real> A2 = X, B2 = Y;
                a_real_swap_(len, A2.data(), c, B2.data(), c);
                for (size_t i = 0; i < A2.size(); ++i)
                {
                    bool slot = i % c == 0 && i / c < len;
                    if (A2[i] != (slot ? Y[i] : X[i]) || B2[i] != (slot ? X[i] : Y[i])) { R.viol("real|swap_" + cl, "strided swap exchanged the wrong elements", in); break; }
                }
            }
        }
        // shift registers: push (single and block) and roll (single and block), every cache / shift length 0..7
        std::vector<a_real> base(len);
        for (size_t i = 0; i < len; ++i) { base[i] = (a_real)(10 + i); }
        auto guarded = [&](const std::function<void(a_real *)> &f, const std::vector<a_real> &want, const std::string &sig, const std::string &in) {
            std::vector<a_real> B(len + 6, G);
            for (size_t i = 0; i < B.size(); ++i) { B[i] = G - (a_real)i; } // distinct guard values: these routines are block moves
            std::copy(base.begin(), base.end(), B.begin() + 3);
            f(B.data() + 3);
            ++n; nt += len > 1;
            bool ok = true;
            for (size_t i = 0; i < B.size(); ++i) { if (B[i] != (i >= 3 && i - 3 < len ? want[i - 3] : G - (a_real)i)) { ok = false; } }
            if (!ok) { R.viol(sig, sig + ": the block of " + std::to_string(len) + " elements does not hold the defined contents afterwards (or a neighbour was written)", in); }
        };
        {
            std::vector<a_real> w = base;
            if (len) { w.insert(w.begin(), (a_real)99); w.pop_back(); }
            guarded([&](a_real *p) { a_real_push_fore(p, len, 99); }, w, "real|push_fore", "{\"n\":" + std::to_string(len) + "}");
            w = base;
            if (len) { w.erase(w.begin()); w.push_back((a_real)99); }
            guarded([&](a_real *p) { a_real_push_back(p, len, 99); }, w, "real|push_back", "{\"n\":" + std::to_string(len) + "}");
            w = base;
            if (len) { w.push_back(w.front()); w.erase(w.begin()); }
            guarded([&](a_real *p) { a_real_roll_fore(p, len); }, w, "real|roll_fore", "{\"n\":" + std::to_string(len) + "}");
            w = base;
            if (len) { w.insert(w.begin(), w.back()); w.pop_back(); }
            guarded([&](a_real *p) { a_real_roll_back(p, len); }, w, "real|roll_back", "{\"n\":" + std::to_string(len) + "}");
        }
        for (size_t cn = 0; cn <= 7; ++cn)
        {
            std::vector<a_real> cache(cn);
            for (size_t i = 0; i < cn; ++i) { cache[i] = (a_real)(50 + i); }
            std::string in = "{\"block\":" + std::to_string(len) + ",\"cache\":" + std::to_string(cn) + "}";
            // push_fore_: the newest min(cn, len) cache values enter at the front, older block contents move towards the back
            std::vector<a_real> w = base;
            size_t k = cn < len ? cn : len;
            std::vector<a_real> tail(cache.end() - (long)k, cache.end());
            w.insert(w.begin(), tail.begin(), tail.end());
            w.resize(len);
            guarded([&](a_real *p) { a_real_push_fore_(p, len, cache.data(), cn); }, w, std::string("real|push_fore_") + (cn > len ? "|cache-longer" : ""), in);
            w = base;
            w.insert(w.end(), tail.begin(), tail.end());
            w.erase(w.begin(), w.begin() + (long)k);
            guarded([&](a_real *p) { a_real_push_back_(p, len, cache.data(), cn); }, w, std::string("real|push_back_") + (cn > len ? "|cache-longer" : ""), in);
            // roll_fore_/roll_back_: rotate by cn modulo the block length, using a scratch area of cn elements
            {
                vx::Slot slot = {{3, len, cn, 0, 0, 0}};
                int crashed = vx::enter(slot);
                if (crashed) { R.viol(std::string("real|roll_") + (len == 0 ? "|empty-block|crash" : "|crash"), "a_real_roll_fore_/roll_back_ on a block of " + std::to_string(len) + " elements with shift " + std::to_string(cn) + " killed the process (" + vx::signame(crashed) + ")", in); continue; }
            }
            std::vector<a_real> scratch(cn + 2, G);
            w = base;
            if (len) { std::rotate(w.begin(), w.begin() + (long)(cn % len), w.end()); }
            guarded([&](a_real *p) { a_real_roll_fore_(p, len, scratch.data() + 1, cn); }, w, std::string("real|roll_fore_") + (len == 0 ? "|empty-block" : ""), in);
            if (scratch.front() != G || scratch.back() != G) { R.viol("real|roll_fore_|scratch-overrun", "roll_fore_ wrote outside its scratch area", in); }
            w = base;
            if (len) { std::rotate(w.begin(), w.begin() + (long)((len - cn % len) % len), w.end()); }
            std::fill(scratch.begin(), scratch.end(), G);
            guarded([&](a_real *p) { a_real_roll_back_(p, len, scratch.data() + 1, cn); }, w, std::string("real|roll_back_") + (len == 0 ? "|empty-block" : ""), in);
            if (scratch.front() != G || scratch.back() != G) { R.viol("real|roll_back_|scratch-overrun", "roll_back_ wrote outside its scratch area", in); }
            vx::leave();
        }
    }
    // means of huge values: the mean (sum / n) is representable whenever the data are, even where the plain sum is not
    {
        const a_real H[5] = {(a_real)RMAX, (a_real)-RMAX, (a_real)(RMAX / 2), (a_real)(-RMAX / 2), 1};
        for (size_t len = 1; len <= 3; ++len)
        {
            size_t total = 1;
            for (size_t i = 0; i < len; ++i) { total *= 5; }
            for (size_t code = 0; code < total; ++code)
            {
                for (size_t c = 1; c <= 3; ++c)
                {
                    std::vector<a_real> buf(len * c + 2, (a_real)RMAX);
                    Q sum = 0, sa = 0;
                    size_t cc = code;
                    for (size_t i = 0; i < len; ++i) { a_real v = H[cc % 5]; cc /= 5; buf[i * c] = v; sum += (Q)v; sa += fabsq((Q)v); }
                    Q m = sum / (Q)len;
                    a_real got = c == 1 ? a_real_mean(len, buf.data()) : a_real_mean_(len, buf.data(), c);
                    ++n; ++nt;
                    if (!(fabsq((Q)got - m) <= 8 * (Q)EPS * sa / (Q)len))
                    {
                        R.viol(std::string("real|mean|huge") + (c == 1 ? "" : "|strided"), "the mean of " + std::to_string(len) + " huge values is " + num((double)got) + " but sum/n = " + num((double)m) + " is representable", "{\"len\":" + std::to_string(len) + ",\"code\":" + std::to_string(code) + ",\"stride\":" + std::to_string(c) + "}");
                    }
                }
            }
        }
    }
    R.part("sum/sum1/sum2/mean/dot and strided forms, copy/swap/fill/zero, push_fore/back(_), roll_fore/back(_): every length 0..6, strides 1..3 (pairs of strides for dot_ and copy_), cache/shift lengths 0..7, small-integer contents (exact), guard cells on both sides; means of all vectors of length 1..3 over {+-MAX, +-MAX/2, 1}", n, nt);
}

// ---------------------------------------------------------------- strided swap on one array, fill with signed zeros
// In-place transpose of an n x n matrix: the tail of row i (stride 1) is swapped with the tail of column i (stride n); both start at the
// diagonal element, so the two arguments are the same pointer with different strides.  The elements touched are disjoint apart from the
// shared first one, so the result does not depend on the order of the exchanges.
static void alias_swap_fill()
{
    if (R.shard.idx != 0) { return; }
    uint64_t n = 0;
    for (size_t N = 1; N <= 6; ++N)
    {
        std::vector<a_real> M(N * N + 2, (a_real)-4242.5), T0(N * N);
        for (size_t i = 0; i < N; ++i) { for (size_t j = 0; j < N; ++j) { M[1 + i * N + j] = (a_real)(10 * i + j + 1); T0[j * N + i] = (a_real)(10 * i + j + 1); } }
        for (size_t i = 0; i < N; ++i) { a_real_swap_(N - i, &M[1 + i * N + i], 1, &M[1 + i * N + i], N); }
        ++n;
        bool ok = M[0] == (a_real)-4242.5 && M[N * N + 1] == (a_real)-4242.5;
        for (size_t k = 0; k < N * N; ++k) { ok = ok && M[1 + k] == T0[k]; }
        if (!ok) { R.viol("real|swap_|shared-start", "a_real_swap_ of the tail of a row (stride 1) with the tail of the column starting at the same diagonal element (stride n) does not transpose the " + std::to_string(N) + "x" + std::to_string(N) + " matrix", "{\"n\":" + std::to_string(N) + "}"); }
    }
    for (a_real v : {(a_real)-0.0, (a_real)0.0, (a_real)-2.5})
    {
        a_real d[6] = {7, 7, 7, 7, 7, 7};
        a_real_fill(4, d + 1, v);
        ++n;
        bool ok = d[0] == 7 && d[5] == 7;
        for (int i = 1; i <= 4; ++i) { ok = ok && memcmp(&d[i], &v, sizeof(a_real) == 16 ? 10 : sizeof(a_real)) == 0; }
        if (!ok) { R.viol("real|fill|bits", std::string("a_real_fill with ") + (std::signbit((double)v) && v == 0 ? "-0" : num((double)v)) + " did not store that value bit for bit", "{\"value\":" + num((double)v) + "}"); }
    }
    R.part("strided swap of two ranges of one array that share their first element (in-place transpose, n = 1..6); fill with -0, +0 and an ordinary value compared bit for bit", n, n);
}

// ---------------------------------------------------------------- the same array reduced again after an in-place edit
// straight-line code through an opaque pointer at -O2: every call reads the elements as they are at that moment (a declaration that
// promises the compiler independence from memory would let it reuse the earlier result)
static __attribute__((noinline)) void reduce_twice(a_real *p, a_size n, a_real *q, a_real *out)
{
    out[0] = a_real_sum(n, p); out[1] = a_real_sum1(n, p); out[2] = a_real_sum2(n, p); out[3] = a_real_dot(n, p, q); out[4] = a_real_mean(n, p); out[5] = a_real_norm(n, p);
    out[6] = a_real_sum_(n, p, 1); out[7] = a_real_sum1_(n, p, 1); out[8] = a_real_sum2_(n, p, 1); out[9] = a_real_dot_(n, p, 1, q, 1); out[10] = a_real_mean_(n, p, 1); out[11] = a_real_norm_(n, p, 1);
    p[0] = 4;
    p[n - 1] = -8;
    out[12] = a_real_sum(n, p); out[13] = a_real_sum1(n, p); out[14] = a_real_sum2(n, p); out[15] = a_real_dot(n, p, q); out[16] = a_real_mean(n, p); out[17] = a_real_norm(n, p);
    out[18] = a_real_sum_(n, p, 1); out[19] = a_real_sum1_(n, p, 1); out[20] = a_real_sum2_(n, p, 1); out[21] = a_real_dot_(n, p, 1, q, 1); out[22] = a_real_mean_(n, p, 1); out[23] = a_real_norm_(n, p, 1);
}
static void reread()
{
    if (R.shard.idx != 0) { return; }
    uint64_t n = 0;
    for (a_size len = 2; len <= 9; ++len)
    {
        a_real buf[16], q[16], out[24];
        for (a_size i = 0; i < len; ++i) { buf[i] = (a_real)(1 + (double)i); q[i] = (a_real)(2 - (double)(i % 3)); }
        a_real *volatile vp = buf;
        reduce_twice(vp, len, q, out);
        for (int st = 0; st < 2; ++st)
        {
            double v[16];
            for (a_size i = 0; i < len; ++i) { v[i] = 1 + (double)i; }
            if (st) { v[0] = 4; v[len - 1] = -8; }
            double s = 0, s1 = 0, s2 = 0, d = 0;
            for (a_size i = 0; i < len; ++i) { s += v[i]; s1 += std::fabs(v[i]); s2 += v[i] * v[i]; d += v[i] * (double)q[i]; }
            double want[6] = {s, s1, s2, d, s / (double)len, std::sqrt(s2)};
            static const char *FN[6] = {"sum", "sum1", "sum2", "dot", "mean", "norm"};
            for (int f = 0; f < 12; ++f)
            {
                ++n;
                double got = (double)out[st * 12 + f], w = want[f % 6];
                bool exact = f % 6 < 4; // small integers: exact
                if (exact ? got != w : !(std::fabs(got - w) <= 8 * EPS * (std::fabs(w) + 1)))
                {
                    R.viol(std::string("real|") + FN[f % 6] + (f >= 6 ? "_" : "") + "|reread", std::string("a_real_") + FN[f % 6] + (f >= 6 ? "_" : "") + " called again with the same pointer after the array was edited in place returned " + num(got) + ", the elements give " + num(w), "{\"len\":" + std::to_string(len) + ",\"edit\":" + std::to_string(st) + "}");
                }
            }
        }
    }
    R.part("reductions called again with the same pointers after an in-place edit of the array (straight-line code at -O2)", n, n);
}

int main(int argc, char **argv)
{
    vx::Args args(argc, argv);
    R.init(args);
    bool thorough = R.tier == "thorough";
    return vx::run_contained([&] {
        univariate(thorough);
        multivariate();
        blocks();
        alias_swap_fill();
        reread();
        static const char *wn[16] = {"asinh_fallback", "asinh_bound", "acosh_fallback", "acosh_bound", "atanh_fallback", "atanh_bound", "expm1_fallback", "expm1_bound", "log1p_fallback", "log1p_bound", "atan2_fallback", "atan2_bound", "norm2", "norm3", "norm", ""};
        std::string w = "{";
        for (int i = 0; i < 15; ++i) { w += (i ? "," : "") + std::string("\"") + wn[i] + "\":" + num(worst[i]); }
        vx::info("worst_error_eps", w + "}");
        std::string w2 = "{";
        for (int i = 0; i < 10; ++i) { w2 += (i ? "," : "") + std::string("\"") + wn[i] + "\":" + num(worst_raw[i]); }
        vx::info("worst_raw_error_eps", w2 + "}");
        R.sample("{\"fn\":\"fallback a_real_log1p\",\"x\":1e-10,\"value\":" + num((double)a_real_log1p((a_real)1e-10)) + "}");
        R.finish(true, "every listed domain enumerated");
    }, 600.0);
}
