// bits.cpp — C19: integer square root, gcd/lcm, bit reversal, byte-order accessors.
// Complete enumeration of the 32-bit domains, stated lattices for 64 bit.  DESIGN.md §4.C19.
#include "../engine/grid.hpp"

extern "C" {
#include "a/a.h"
#include "a/math.h"
}

#include <utility>
typedef unsigned __int128 u128;
static bool g_light;
static grid::Run R;

static uint64_t ref_gcd(uint64_t a, uint64_t b) // Stein's binary gcd: independent of the remainder-based implementation
{
    if (!a) { return b; }
    if (!b) { return a; }
    int s = __builtin_ctzll(a | b);
    a >>= __builtin_ctzll(a);
    do {
        b >>= __builtin_ctzll(b);
        if (a > b) { uint64_t t = a; a = b; b = t; }
        b -= a;
    } while (b);
    return a << s;
}

// ---------------------------------------------------------------- sqrt
static void sqrt32_all()
{
    vx::mark("a_u32_sqrt sweep");
    uint64_t lo, hi, n = 0, nt = 0;
    R.shard.range(1ull << 32, lo, hi);
    for (uint64_t x = lo; x < hi; ++x)
    {
        uint64_t r = a_u32_sqrt((a_u32)x);
        ++n;
        nt += x >= 2;
        if (!(r * r <= x && x < (r + 1) * (r + 1)))
        {
            R.viol("u32_sqrt|floor", "a_u32_sqrt(" + std::to_string(x) + ") = " + std::to_string(r) + " is not the largest integer whose square does not exceed the input", std::to_string(x));
        }
        R.tick();
    }
    R.part("a_u32_sqrt: all 2^32 inputs (this shard's range)", n, nt);
    R.sample("{\"fn\":\"a_u32_sqrt\",\"x\":" + std::to_string(lo + 25) + ",\"r\":" + std::to_string(a_u32_sqrt((a_u32)(lo + 25))) + "}");
}
static uint64_t s64n, s64nt;
static inline void sqrt64_one(uint64_t x)
{
    uint64_t r = a_u64_sqrt(x);
    ++s64n;
    s64nt += x >= 2;
    u128 lo = (u128)r * r, hi = (u128)(r + 1) * (r + 1);
    if (!(lo <= x && (u128)x < hi))
    {
        R.viol("u64_sqrt|floor", "a_u64_sqrt(" + std::to_string(x) + ") = " + std::to_string(r) + " is not the largest integer whose square does not exceed the input", grid::hex(x));
    }
}
static void sqrt64_lattice(bool thorough)
{
    vx::mark("a_u64_sqrt lattice");
    s64n = s64nt = 0;
    // the places where a floor square root can change: k^2-1, k^2, k^2+1, k^2+k for every k of the tier's set
    uint64_t lo, hi;
    uint64_t kmax = thorough ? (1ull << 32) : (1ull << 24);
    R.shard.range(kmax, lo, hi);
    for (uint64_t k = lo; k < hi; ++k)
    {
        uint64_t q = k * k;
        sqrt64_one(q);
        if (q) { sqrt64_one(q - 1); }
        sqrt64_one(q + 1);
        sqrt64_one(q + k);
        R.tick();
    }
    if (!thorough)
    {
        // plus the top 2^22 values of k below 2^32, and every k = m*2^e with m < 2^10
        R.shard.range(1ull << 22, lo, hi);
        for (uint64_t i = lo; i < hi; ++i)
        {
            uint64_t k = (1ull << 32) - 1 - i, q = k * k;
            sqrt64_one(q); sqrt64_one(q - 1); sqrt64_one(q + 1); sqrt64_one(q + k);
        }
        for (uint64_t m = 1 + (uint64_t)R.shard.idx; m < 1024; m += (uint64_t)R.shard.n)
        {
            for (int e = 0; e < 32; ++e)
            {
                uint64_t k = m << e;
                if (k >> 32) { break; }
                uint64_t q = k * k;
                sqrt64_one(q); if (q) { sqrt64_one(q - 1); } sqrt64_one(q + 1); sqrt64_one(q + k);
            }
        }
    }
    // every m*2^e (m < 2^16, e <= 48) and the top 2^16 values
    for (uint64_t m = (uint64_t)R.shard.idx; m < 65536; m += (uint64_t)R.shard.n)
    {
        for (int e = 0; e <= 48; ++e) { sqrt64_one(m << e); }
        sqrt64_one(~0ull - m);
    }
    R.part(std::string("a_u64_sqrt: k^2-1,k^2,k^2+1,k^2+k for every k < 2^") + (thorough ? "32" : "24 (+ top 2^22 k, + k=m*2^e)") + ", every m*2^e (m<2^16,e<=48), 2^64-1-j (j<2^16)", s64n, s64nt);
    R.sample("{\"fn\":\"a_u64_sqrt\",\"x\":" + grid::hex(~0ull) + ",\"r\":" + std::to_string(a_u64_sqrt(~0ull)) + "}");
}

// ---------------------------------------------------------------- gcd / lcm
static uint64_t gn, gnt;
static void gcd_check(uint64_t a, uint64_t b, int w)
{
    uint64_t g = w == 32 ? a_u32_gcd((a_u32)a, (a_u32)b) : a_u64_gcd(a, b);
    uint64_t l = w == 32 ? a_u32_lcm((a_u32)a, (a_u32)b) : a_u64_lcm(a, b);
    uint64_t want = ref_gcd(a, b);
    ++gn;
    gnt += a > 1 && b > 1 && a != b;
    std::string in = "[" + grid::hex(a) + "," + grid::hex(b) + "]";
    std::string fn = std::string("u") + (w == 32 ? "32" : "64");
    if (g != want)
    {
        const char *cls = (g && a % (g ? g : 1) == 0 && b % (g ? g : 1) == 0) ? "not-greatest" : "not-a-divisor";
        R.viol(fn + "_gcd|" + cls, "a_" + fn + "_gcd(" + std::to_string(a) + ", " + std::to_string(b) + ") = " + std::to_string(g) + ", the greatest common divisor is " + std::to_string(want), in);
    }
    if ((g == 0) != (a == 0 && b == 0)) { R.viol(fn + "_gcd|zero", "gcd is zero exactly for two zeros", in); }
    if (want)
    {
        u128 prod = (u128)a * b, lw = prod / want;
        u128 lim = w == 32 ? (u128)0xFFFFFFFFu : (u128)~0ull;
        if (lw <= lim && (u128)l != lw)
        {
            R.viol(fn + "_lcm|product", "a_" + fn + "_lcm(" + std::to_string(a) + ", " + std::to_string(b) + ") = " + std::to_string(l) + " but lcm*gcd must equal the product (lcm " + std::to_string((uint64_t)lw) + " is representable)", in);
        }
    }
    else if (l != 0) { R.viol(fn + "_lcm|zero", "lcm(0,0) must be 0", in); }
}
static std::vector<uint64_t> special(int w)
{
    std::vector<uint64_t> s{0, 1, 2, 3, 6, 12, 30, 210, 65521, 65537, 4294967291ull, 4294967295ull, 600000000000ull, 1000000000000ull};
    static const uint64_t ms[] = {1, 3, 5, 7, 9, 15, 17, 255, 257, 65535, 65537, 4294967291ull, 4294967295ull, 4294967311ull};
    for (uint64_t m : ms)
    {
        for (int e = 0; e < 64; ++e)
        {
            u128 v = (u128)m << e;
            if (v >> 64) { break; }
            s.push_back((uint64_t)v);
        }
    }
    for (int k = 1; k < 64; ++k) { s.push_back((1ull << k) - 1); s.push_back((1ull << k) + 1); }
    s.push_back(~0ull);
    s.push_back(~0ull - 58); // 2^64 - 59 is prime
    // the longest remainder chains: consecutive Fibonacci numbers (all quotients 1), Lucas and Pell numbers (quotients 1 / 2),
    // in both argument orders like every pair of this set
    for (int kind = 0; kind < 3; ++kind)
    {
        uint64_t p0 = kind == 1 ? 2 : 0, p1 = 1;
        for (;;)
        {
            u128 nx = kind == 2 ? (u128)2 * p1 + p0 : (u128)p1 + p0;
            if (nx >> 64) { break; }
            p0 = p1; p1 = (uint64_t)nx;
            s.push_back(p1);
        }
    }
    std::vector<uint64_t> out;
    for (uint64_t v : s) { if (w == 64 || v <= 0xFFFFFFFFull) { out.push_back(v); } }
    std::sort(out.begin(), out.end());
    out.erase(std::unique(out.begin(), out.end()), out.end());
    return out;
}
static void gcd_all(bool thorough)
{
    vx::mark("gcd/lcm pairs");
    gn = gnt = 0;
    uint64_t lim = thorough ? 4096 : 2048;
    for (uint64_t a = (uint64_t)R.shard.idx; a < lim; a += (uint64_t)R.shard.n)
    {
        for (uint64_t b = 0; b < lim; ++b) { gcd_check(a, b, 32); gcd_check(a, b, 64); }
        R.tick();
    }
    // brute force on the small square: every common divisor divides the result
    for (uint64_t a = (uint64_t)R.shard.idx; a < 256; a += (uint64_t)R.shard.n)
    {
        for (uint64_t b = 0; b < 256; ++b)
        {
            uint64_t g = a_u32_gcd((a_u32)a, (a_u32)b), g64 = a_u64_gcd(a, b);
            for (uint64_t d = 1; d < 256; ++d)
            {
                bool common = (a % d == 0) && (b % d == 0);
                if (common && (a || b) && (g % d != 0 || g64 % d != 0)) { R.viol("gcd|common-divisor", "a common divisor does not divide the gcd", "[" + std::to_string(a) + "," + std::to_string(b) + "]"); }
            }
            ++gn;
        }
    }
    for (int w = 32; w <= 64; w += 32)
    {
        std::vector<uint64_t> S = special(w);
        for (size_t i = (size_t)R.shard.idx; i < S.size(); i += (size_t)R.shard.n) { for (uint64_t b : S) { gcd_check(S[i], b, w); } }
    }
    R.part(std::string("gcd/lcm u32+u64: all pairs below ") + std::to_string(lim) + ", brute-force common divisors on pairs below 256, all pairs of the special set (0,1,m*2^e,2^k+-1,primes near 2^16/2^32/2^64,max, every Fibonacci, Lucas and Pell number)", gn, gnt);
    R.sample("{\"fn\":\"a_u64_gcd\",\"a\":" + grid::hex(3ull << 33) + ",\"b\":" + grid::hex(1ull << 34) + ",\"g\":" + grid::hex(a_u64_gcd(3ull << 33, 1ull << 34)) + "}");
}

// ---------------------------------------------------------------- bit reversal
static uint8_t REV8[256];
static inline uint64_t ref_rev(uint64_t x, int w)
{
    uint64_t r = 0;
    for (int i = 0; i < w; i += 8) { r |= (uint64_t)REV8[(x >> i) & 0xFF] << (w - 8 - i); }
    return r;
}
static void rev_all()
{
    vx::mark("bit reversal sweep");
    for (int v = 0; v < 256; ++v)
    {
        uint8_t r = 0;
        for (int i = 0; i < 8; ++i) { if (v & (1 << i)) { r |= (uint8_t)(1 << (7 - i)); } }
        REV8[v] = r;
    }
    uint64_t n = 0, nt = 0;
    if (R.shard.idx == 0)
    {
        for (uint32_t x = 0; x < 256; ++x)
        {
            ++n; nt += x != 0 && x != 255;
            if (a_u8_rev((a_u8)x) != REV8[x] || a_u8_rev(a_u8_rev((a_u8)x)) != x) { R.viol("u8_rev|bit-map", "a_u8_rev(" + std::to_string(x) + ")", std::to_string(x)); }
        }
        for (uint32_t x = 0; x < 65536; ++x)
        {
            ++n; nt += x != 0 && x != 65535;
            if (a_u16_rev((a_u16)x) != ref_rev(x, 16) || a_u16_rev(a_u16_rev((a_u16)x)) != x) { R.viol("u16_rev|bit-map", "a_u16_rev(" + std::to_string(x) + ") does not map bit i to bit 15-i", std::to_string(x)); }
        }
    }
    uint64_t lo, hi;
    R.shard.range(1ull << 32, lo, hi);
    if (g_light) { hi = lo + (hi - lo) / 1024; }
    for (uint64_t x = lo; x < hi; ++x)
    {
        a_u32 r = a_u32_rev((a_u32)x);
        ++n; nt += x != 0 && x != 0xFFFFFFFFull;
        if (r != ref_rev(x, 32) || a_u32_rev(r) != x) { R.viol("u32_rev|bit-map", "a_u32_rev(" + std::to_string(x) + ") does not map bit i to bit 31-i (or is not an involution)", grid::hex(x)); }
        R.tick();
    }
    auto one64 = [&](uint64_t x) {
        a_u64 r = a_u64_rev(x);
        ++n; ++nt;
        if (r != ref_rev(x, 64) || a_u64_rev(r) != x) { R.viol("u64_rev|bit-map", "a_u64_rev does not map bit i to bit 63-i (or is not an involution)", grid::hex(x)); }
    };
    if (R.shard.idx == 0)
    {
        for (int i = 0; i < 64; ++i) { for (int j = i; j < 64; ++j) { uint64_t x = (1ull << i) | (1ull << j); one64(x); one64(~x); } }
    }
    for (uint64_t m = (uint64_t)R.shard.idx; m < 65536; m += (uint64_t)R.shard.n) { for (int e = 0; e <= 48; ++e) { one64(m << e); } }
    R.part("bit reversal: u8 all, u16 all, u32 all 2^32 (this shard's range), u64: <=2 bits set, complements, m*2^e (m<2^16,e<=48)", n, nt);
    R.sample("{\"fn\":\"a_u32_rev\",\"x\":\"0x00000001\",\"r\":" + grid::hex(a_u32_rev(1)) + "}");
}

// ---------------------------------------------------------------- byte-order accessors
static uint64_t bn, bnt;
template <int W>
static void order_one(uint64_t x, int off)
{
    const int B = W / 8;
    alignas(16) unsigned char buf[32];
    memset(buf, 0x5A, sizeof buf);
    unsigned char *p = buf + 8 + off;
    uint64_t gl, gb, gl2;
    // little-endian store: byte i holds bits 8i..8i+7, whatever the host order is
    if (W == 16) { a_u16_setl(p, (a_u16)x); gl = a_u16_getl(p); } else if (W == 32) { a_u32_setl(p, (a_u32)x); gl = a_u32_getl(p); } else { a_u64_setl(p, x); gl = a_u64_getl(p); }
    bool ok = gl == x;
    for (int i = 0; i < B; ++i) { ok = ok && p[i] == (unsigned char)(x >> (8 * i)); }
    for (int i = 0; i < 32; ++i) { if ((buf + i < p || buf + i >= p + B) && buf[i] != 0x5A) { ok = false; } }
    // reading the same bytes big-endian gives the byte-swapped value
    if (W == 16) { gb = a_u16_getb(p); } else if (W == 32) { gb = a_u32_getb(p); } else { gb = a_u64_getb(p); }
    uint64_t sw = 0;
    for (int i = 0; i < B; ++i) { sw |= ((x >> (8 * i)) & 0xFF) << (8 * (B - 1 - i)); }
    ok = ok && gb == sw;
    if (!ok) { R.viol(std::string("u") + std::to_string(W) + "_le|layout", "little-endian store/load of a " + std::to_string(W) + "-bit word: layout, round trip, cross-order load or neighbouring bytes wrong", "[" + grid::hex(x) + "," + std::to_string(off) + "]"); }
    memset(buf, 0x5A, sizeof buf);
    if (W == 16) { a_u16_setb(p, (a_u16)x); gb = a_u16_getb(p); gl2 = a_u16_getl(p); } else if (W == 32) { a_u32_setb(p, (a_u32)x); gb = a_u32_getb(p); gl2 = a_u32_getl(p); } else { a_u64_setb(p, x); gb = a_u64_getb(p); gl2 = a_u64_getl(p); }
    ok = gb == x && gl2 == sw;
    for (int i = 0; i < B; ++i) { ok = ok && p[i] == (unsigned char)(x >> (8 * (B - 1 - i))); }
    for (int i = 0; i < 32; ++i) { if ((buf + i < p || buf + i >= p + B) && buf[i] != 0x5A) { ok = false; } }
    if (!ok) { R.viol(std::string("u") + std::to_string(W) + "_be|layout", "big-endian store/load of a " + std::to_string(W) + "-bit word: layout, round trip, cross-order load or neighbouring bytes wrong", "[" + grid::hex(x) + "," + std::to_string(off) + "]"); }
    ++bn;
    bnt += x != 0;
}
static void order_all()
{
    vx::mark("byte-order accessors");
    bn = bnt = 0;
    if (R.shard.idx == 0) { for (uint32_t x = 0; x < 65536; ++x) { for (int off = 0; off < 8; ++off) { order_one<16>(x, off); } } }
    uint64_t lo, hi;
    R.shard.range(1ull << 32, lo, hi);
    if (g_light) { hi = lo + (hi - lo) / 1024; }
    for (uint64_t x = lo; x < hi; ++x)
    {
        order_one<32>(x, (int)(x & 7));
        R.tick();
    }
    auto lat = [&](uint64_t x) { for (int off = 0; off < 8; ++off) { order_one<64>(x, off); order_one<32>(x & 0xFFFFFFFFull, off); } };
    if (R.shard.idx == 0) { for (int i = 0; i < 64; ++i) { for (int j = i; j < 64; ++j) { uint64_t x = (1ull << i) | (1ull << j); lat(x); lat(~x); } } }
    for (uint64_t m = (uint64_t)R.shard.idx; m < 65536; m += (uint64_t)R.shard.n) { for (int e = 0; e <= 48; e += 1) { lat(m << e); } }
    for (int b = 0; b < 8 && R.shard.idx == 0; ++b) { for (int v = 0; v < 256; ++v) { lat((uint64_t)v << (8 * b)); lat(~((uint64_t)v << (8 * b))); lat(0x0102030405060708ull ^ ((uint64_t)v << (8 * b))); } }
    R.part("byte-order accessors: u16 all x 8 offsets, u32 all 2^32 (offset x mod 8), u64 and u32 lattice (<=2 bits, complements, m*2^e, every value of every byte) x 8 offsets", bn, bnt);
    R.sample("{\"fn\":\"a_u64_setb/getl\",\"x\":\"0x0102030405060708\",\"bytes\":\"01 02 03 04 05 06 07 08\"}");
}

// ---------------------------------------------------------------- accessor sequences on shared bytes
// The accessors are defined on BYTES: a store followed by a store of another width (or order) over the same bytes and a load
// must see the bytes as they are.  Straight-line sequences through opaque pointers, compiled with optimisation, are what
// exposes an accessor that reads or writes through a typed pointer (the optimiser may then reorder or merge the accesses)
// or a load that is declared not to depend on memory.  Kinds: 0 u16 le, 1 u16 be, 2 u32 le, 3 u32 be, 4 u64 le, 5 u64 be.
template <int K> static inline __attribute__((always_inline)) void st_k(void *p, uint64_t x)
{
    if (K == 0) { a_u16_setl(p, (a_u16)x); } else if (K == 1) { a_u16_setb(p, (a_u16)x); }
    else if (K == 2) { a_u32_setl(p, (a_u32)x); } else if (K == 3) { a_u32_setb(p, (a_u32)x); }
    else if (K == 4) { a_u64_setl(p, x); } else { a_u64_setb(p, x); }
}
template <int K> static inline __attribute__((always_inline)) uint64_t ld_k(const void *p)
{
    return K == 0 ? a_u16_getl(p) : K == 1 ? a_u16_getb(p) : K == 2 ? a_u32_getl(p) : K == 3 ? a_u32_getb(p) : K == 4 ? a_u64_getl(p) : a_u64_getb(p);
}
static void st_ref(unsigned char *p, int k, uint64_t x)
{
    int B = 2 << (k / 2);
    for (int i = 0; i < B; ++i) { p[(k & 1) ? B - 1 - i : i] = (unsigned char)(x >> (8 * i)); }
}
static uint64_t ld_ref(const unsigned char *p, int k)
{
    int B = 2 << (k / 2);
    uint64_t v = 0;
    for (int i = 0; i < B; ++i) { v |= (uint64_t)p[(k & 1) ? B - 1 - i : i] << (8 * i); }
    return v;
}
// store K1 at p, store K2 at q, load K3 at p
template <int K1, int K2, int K3> static __attribute__((noinline)) uint64_t seq_ssl(void *p, void *q, uint64_t a, uint64_t b)
{
    st_k<K1>(p, a);
    st_k<K2>(q, b);
    return ld_k<K3>(p);
}
// load K3 at p, store K1 at q of (loaded value + c), load K3 at p again: returns the two loads xor-folded with a rotation
template <int K1, int K3> static __attribute__((noinline)) uint64_t seq_lsl(void *p, void *q, uint64_t c, uint64_t *first)
{
    uint64_t x = ld_k<K3>(p);
    st_k<K1>(q, x + c);
    *first = x;
    return ld_k<K3>(p);
}
template <int K> static __attribute__((noinline)) void seq_pun(void *obj, int width, uint64_t *l1, uint64_t *l2)
{
    // the storage of a floating-point object is rewritten natively between two loads of its bytes
    if (width == 4) { *(float *)obj = 1.5f; } else { *(double *)obj = 1.5; }
    *l1 = ld_k<K>(obj);
    if (width == 4) { *(float *)obj = -2.25f; } else { *(double *)obj = -2.25; }
    *l2 = ld_k<K>(obj);
}
static uint64_t sn, snt;
static const uint64_t SEQV[3] = {0x1122334455667788ull, 0xFEDCBA9876543210ull, 0};
typedef uint64_t (*ssl_fn)(void *, void *, uint64_t, uint64_t);
typedef uint64_t (*lsl_fn)(void *, void *, uint64_t, uint64_t *);
typedef void (*pun_fn)(void *, int, uint64_t *, uint64_t *);
template <size_t... I> static void ssl_table(ssl_fn *t, std::index_sequence<I...>) { ((t[I] = seq_ssl<(int)(I / 36), (int)((I / 6) % 6), (int)(I % 6)>), ...); }
template <size_t... I> static void lsl_table(lsl_fn *t, std::index_sequence<I...>) { ((t[I] = seq_lsl<(int)(I / 6), (int)(I % 6)>), ...); }
template <size_t... I> static void pun_table(pun_fn *t, std::index_sequence<I...>) { ((t[I] = seq_pun<(int)I>), ...); }
static void seq_one(int K1, int K2, int K3, ssl_fn ssl, lsl_fn lsl)
{
    for (int off = 0; off < 4; ++off)
    {
        for (int d = -3; d <= 3; ++d)
        {
            for (int va = 0; va < 3; ++va)
            {
                alignas(16) unsigned char buf[40], ref[40];
                for (int i = 0; i < 40; ++i) { buf[i] = ref[i] = (unsigned char)(0xA0 + i); }
                unsigned char *p = buf + 12 + off, *q = buf + 12 + off + d;
                uint64_t a = SEQV[va], b = SEQV[(va + 1) % 3];
                uint64_t got = ssl(p, q, a, b);
                st_ref(ref + 12 + off, K1, a);
                st_ref(ref + 12 + off + d, K2, b);
                uint64_t want = ld_ref(ref + 12 + off, K3);
                ++sn; ++snt;
                if (got != want || memcmp(buf, ref, sizeof buf) != 0)
                {
                    R.viol("accessor-sequence|store-store-load", "store (kind " + std::to_string(K1) + ") at p, store (kind " + std::to_string(K2) + ") at p" + (d < 0 ? "" : "+") + std::to_string(d) + ", load (kind " + std::to_string(K3) + ") at p: loaded " + grid::hex(got) + ", the bytes hold " + grid::hex(want) + " (kinds: 0 u16 le, 1 u16 be, 2 u32 le, 3 u32 be, 4 u64 le, 5 u64 be)",
                           "[" + std::to_string(K1) + "," + std::to_string(K2) + "," + std::to_string(K3) + "," + std::to_string(off) + "," + std::to_string(d) + "]");
                    return;
                }
                if (K2 != 0) { continue; } // the load-store-load form once per (K1, K3)
                uint64_t first = 0;
                uint64_t second = lsl(p, q, 0x0101010101010101ull, &first);
                uint64_t w1 = ld_ref(ref + 12 + off, K3);
                st_ref(ref + 12 + off + d, K1, w1 + 0x0101010101010101ull);
                uint64_t w2 = ld_ref(ref + 12 + off, K3);
                ++sn; ++snt;
                if (first != w1 || second != w2 || memcmp(buf, ref, sizeof buf) != 0)
                {
                    R.viol("accessor-sequence|load-store-load", "load (kind " + std::to_string(K3) + ") at p, store (kind " + std::to_string(K1) + ") at p" + (d < 0 ? "" : "+") + std::to_string(d) + ", load again: second load " + grid::hex(second) + ", the bytes hold " + grid::hex(w2),
                           "[" + std::to_string(K1) + "," + std::to_string(K3) + "," + std::to_string(off) + "," + std::to_string(d) + "]");
                    return;
                }
            }
        }
    }
}
static void pun_one(int K, pun_fn pun)
{
    int width = K < 4 ? 4 : 8;
    if (K < 2) { return; }
    float f4 = 0;
    double f8 = 0;
    uint64_t l1 = 0, l2 = 0, w1, w2;
    pun(width == 4 ? (void *)&f4 : (void *)&f8, width, &l1, &l2);
    unsigned char r[8];
    if (width == 4) { float f = 1.5f; memcpy(r, &f, 4); w1 = ld_ref(r, K); f = -2.25f; memcpy(r, &f, 4); w2 = ld_ref(r, K); }
    else { double f = 1.5; memcpy(r, &f, 8); w1 = ld_ref(r, K); f = -2.25; memcpy(r, &f, 8); w2 = ld_ref(r, K); }
    ++sn; ++snt;
    if (l1 != w1 || l2 != w2) { R.viol("accessor-sequence|float-storage", "loading the bytes of a floating-point object (kind " + std::to_string(K) + ") before and after it is rewritten gives " + grid::hex(l1) + " / " + grid::hex(l2) + ", the bytes hold " + grid::hex(w1) + " / " + grid::hex(w2), "[" + std::to_string(K) + "]"); }
}
static void order_seq()
{
    vx::mark("accessor sequences");
    sn = snt = 0;
    if (R.shard.idx == 0)
    {
        static ssl_fn ssl[216];
        static lsl_fn lsl[36];
        static pun_fn pun[6];
        ssl_table(ssl, std::make_index_sequence<216>());
        lsl_table(lsl, std::make_index_sequence<36>());
        pun_table(pun, std::make_index_sequence<6>());
        for (int i = 0; i < 216; ++i) { seq_one(i / 36, (i / 6) % 6, i % 6, ssl[i], lsl[(i / 36) * 6 + i % 6]); }
        for (int k = 0; k < 6; ++k) { pun_one(k, pun[k]); }
    }
    R.part("accessor sequences on shared bytes: all 6^3 store/store/load and 6^2 load/store/load kind combinations x 4 offsets x 7 overlaps x 3 value pairs, floating-point storage reloaded after a native write", sn, snt);
}

int main(int argc, char **argv)
{
    vx::Args args(argc, argv);
    R.init(args);
    bool thorough = R.tier == "thorough";
    if (args.has("replay-input"))
    {
        printf("replay: re-run the check with --only matching the job; the recorded input is %s\n", args.get("replay-input").c_str());
        return 0;
    }
    return vx::run_contained([&] {
        g_light = args.geti("light", 0) != 0; // accessors and reversal only, without the 2^32 sweeps (sanitizer and out-of-line configurations)
        if (!g_light)
        {
            sqrt32_all();
            sqrt64_lattice(thorough);
            gcd_all(thorough);
        }
        if (args.geti("mathonly", 0) == 0) // the configurations that differ only in src/math.c repeat only the sweeps over src/math.c
        {
            rev_all();
            order_all();
            order_seq();
        }
        R.finish(true, "every listed domain enumerated completely");
    }, 120.0);
}
