// matk.cpp — C09: matrix product, transpose and structure kernels of src/linalg.c against their
// definitions on every small shape, with guard cells around every output.  DESIGN.md §4.C09.
#include "../engine/grid.hpp"
#include <cmath>
#include <cstring>
#include <sys/mman.h>

extern "C" {
#include "a/linalg.h"
}

static grid::Run R;
static const int PAD = 24;            // guard cells on both sides of every output
static const double GUARD = -7777.25; // exactly representable in float and double
static const double STALE = 4242.5;   // the result area holds stale non-zero data before the call

struct Out
{
    std::vector<a_real> buf;
    size_t n;
    // guard cells differ from one another: a block move that runs off the end would otherwise copy guard values onto guard values
    static a_real gv(size_t i) { return (a_real)(GUARD - (double)i); }
    explicit Out(size_t cells) : buf(cells + 2 * PAD, (a_real)GUARD), n(cells)
    {
        for (size_t i = 0; i < (size_t)PAD; ++i) { buf[i] = gv(i); buf[PAD + n + i] = gv(PAD + i); }
        for (size_t i = 0; i < n; ++i) { buf[PAD + i] = (a_real)(STALE + (double)i); }
    }
    a_real *p() { return buf.data() + PAD; }
    bool guards_ok() const
    {
        for (int i = 0; i < PAD; ++i) { if (buf[(size_t)i] != gv((size_t)i) || buf[PAD + n + (size_t)i] != gv((size_t)(PAD + i))) { return false; } }
        return true;
    }
};
static uint64_t n_eval, n_nt;
// argument hygiene: every argument expression of a library call is evaluated exactly once (a function-like macro in the
// header that repeats an argument would evaluate it more often); E1 counts evaluations, HYG compares with the parameter count
static int g_args;
static std::string g_hyg;
#define E1(x) (++g_args, (x))
#define HYG(n, name, call) do { g_args = 0; call; if (g_args != (n) && g_hyg.empty()) { g_hyg = name; } } while (0)
// bit-for-bit equality of two reals (an x87 long double has 10 value bytes followed by padding)
static bool same_bits(a_real a, a_real b) { return memcmp(&a, &b, sizeof(a_real) == 16 ? 10 : sizeof(a_real)) == 0; }
static std::string dims(std::initializer_list<unsigned> d)
{
    std::string s = "[";
    for (unsigned v : d) { s += (s.size() > 1 ? "," : "") + std::to_string(v); }
    return s + "]";
}
static std::string shape(unsigned m, unsigned n) { return m == n ? "square" : m < n ? "wide" : "tall"; }

// index-coded operands: small integers so that products are exact and a wrong index anywhere changes the result
static a_real xval(unsigned i, unsigned j) { return (a_real)(1 + 64 * i + j); }
static const int PRIMES[36] = {2, 3, 5, 7, 11, 13, 17, 19, 23, 29, 31, 37, 41, 43, 47, 53, 59, 61, 67, 71, 73, 79, 83, 89, 97, 101, 103, 107, 109, 113, 127, 131, 137, 139, 149, 151};
static a_real yval(unsigned i, unsigned j) { return (a_real)PRIMES[(i * 6 + j) % 36]; }

typedef void (*mulfn)(a_uint, a_uint, a_uint, a_real const *, a_real const *, a_real *);

// variant v: 0 mulmm (X r x k, Y k x c), 1 mulTm (X k x r, Y k x c), 2 mulmT (X r x k, Y c x k), 3 mulTT (X k x r, Y c x k)
static const char *MUL[4] = {"mulmm", "mulTm", "mulmT", "mulTT"};
static void product(int v, unsigned r, unsigned k, unsigned c, int content, unsigned ei, unsigned ej, unsigned ek, unsigned el)
{
    unsigned xr = (v == 1 || v == 3) ? k : r, xc = (v == 1 || v == 3) ? r : k;
    unsigned yr = (v == 2 || v == 3) ? c : k, yc = (v == 2 || v == 3) ? k : c;
    std::vector<a_real> X((size_t)xr * xc), Y((size_t)yr * yc), X0, Y0;
    for (unsigned i = 0; i < xr; ++i) { for (unsigned j = 0; j < xc; ++j) { X[(size_t)i * xc + j] = content == 0 ? xval(i, j) : (a_real)(i == ei && j == ej); } }
    for (unsigned i = 0; i < yr; ++i) { for (unsigned j = 0; j < yc; ++j) { Y[(size_t)i * yc + j] = content == 0 ? yval(i, j) : (a_real)(i == ek && j == el); } }
#if A_SIZE_REAL + 0 == 16
    // long double reals only: operands that need more than the 53 bits of a double (index code + 2^-50) against an all-ones operand; the
    // products and sums are still exact in the 64-bit significand, so a detour through a narrower type anywhere changes the result
    if (content == 2) { for (unsigned i = 0; i < xr; ++i) { for (unsigned j = 0; j < xc; ++j) { X[(size_t)i * xc + j] = xval(i, j) + (a_real)0x1p-50L; } } for (auto &y : Y) { y = 1; } }
    if (content == 3) { for (unsigned i = 0; i < yr; ++i) { for (unsigned j = 0; j < yc; ++j) { Y[(size_t)i * yc + j] = yval(i, j) + (a_real)0x1p-50L; } } for (auto &x : X) { x = 1; } }
#endif
    if (content == 4)
    {
        // both operands are the same array (A*A^T, A^T*A and the like; the operands are read-only, so this is an ordinary call): one buffer,
        // read through the two shapes
        size_t nb = std::max(X.size(), Y.size());
        X.assign(nb, 0);
        for (size_t t = 0; t < nb; ++t) { X[t] = (a_real)(1 + (t * 7) % 31); }
        Y = X;
    }
    X0 = X;
    Y0 = Y;
    Out Z((size_t)r * c);
    a_real *xp = X.data(), *yp = content == 4 ? X.data() : Y.data();
    switch (v)
    {
    case 0: HYG(6, "mulmm", a_real_mulmm(E1(r), E1(k), E1(c), E1(xp), E1(yp), E1(Z.p()))); break;
    case 1: HYG(6, "mulTm", a_real_mulTm(E1(k), E1(r), E1(c), E1(xp), E1(yp), E1(Z.p()))); break;
    case 2: HYG(6, "mulmT", a_real_mulmT(E1(r), E1(c), E1(k), E1(xp), E1(yp), E1(Z.p()))); break;
    case 3: HYG(6, "mulTT", a_real_mulTT(E1(r), E1(k), E1(c), E1(xp), E1(yp), E1(Z.p()))); break;
    }
    ++n_eval;
    n_nt += (r != c || k != r);
    std::string in = "{\"fn\":\"" + std::string(MUL[v]) + "\",\"row\":" + std::to_string(r) + ",\"inner\":" + std::to_string(k) + ",\"col\":" + std::to_string(c) + ",\"content\":" + (content == 1 ? "\"unit-entries\"" : content == 0 ? "\"index-coded\"" : content == 4 ? "\"both operands are the same array\"" : "\"beyond-double-precision\"") + "}";
    std::string cls = (r == c && c == k) ? "square" : (k == 1 ? "inner1" : "rectangular");
    if (!Z.guards_ok()) { R.viol(std::string(MUL[v]) + "|" + cls + "|overrun", std::string("a_real_") + MUL[v] + " wrote outside the " + std::to_string(r) + "x" + std::to_string(c) + " result array", in); return; }
    if (X != X0 || Y != Y0) { R.viol(std::string(MUL[v]) + "|" + cls + "|input-modified", std::string("a_real_") + MUL[v] + " modified an input operand", in); return; }
    for (unsigned i = 0; i < r; ++i)
    {
        for (unsigned j = 0; j < c; ++j)
        {
            long double want = 0; // exact: small integers (plus, in the long double build, one low-order bit per entry)
            for (unsigned t = 0; t < k; ++t)
            {
                long double a = (long double)((v == 1 || v == 3) ? X[(size_t)t * xc + i] : X[(size_t)i * xc + t]);
                long double b = (long double)((v == 2 || v == 3) ? Y[(size_t)j * yc + t] : Y[(size_t)t * yc + j]);
                want += a * b;
            }
            if (Z.p()[(size_t)i * c + j] != (a_real)want)
            {
                R.viol(std::string(MUL[v]) + "|" + cls + "|value", std::string("a_real_") + MUL[v] + ": entry (" + std::to_string(i) + "," + std::to_string(j) + ") of the " + std::to_string(r) + "x" + std::to_string(c) + " product (inner " + std::to_string(k) + ") is " + std::to_string((double)Z.p()[(size_t)i * c + j]) + ", the definition gives " + std::to_string((double)want) + (content == 2 || content == 3 ? " (they differ below double precision)" : ""), in);
                return;
            }
        }
    }
}

// pattern 2: negative and infinite off-diagonal entries (a discarded part that is multiplied by zero instead of being skipped shows as NaN or -0)
// pattern 0: index-coded entries; pattern 1: signed zeros (+0 above, -0 below the diagonal, 1 on it): "exact" means bit for bit,
// and an implementation that skips "equal" mirrored entries or re-creates zeros instead of copying them is visible only here
static void structure(unsigned m, unsigned n, int pattern = 0)
{
    std::vector<a_real> A((size_t)m * n), A0;
    for (unsigned i = 0; i < m; ++i) { for (unsigned j = 0; j < n; ++j) { A[(size_t)i * n + j] = pattern == 0 ? xval(i, j) : pattern == 1 ? (i < j ? (a_real)0.0 : i > j ? (a_real)-0.0 : (a_real)1) : (i == j ? (a_real)2 : ((i + j) % 3 == 0 ? (a_real)(i < j ? -INFINITY : INFINITY) : (a_real)(-1.5 - (double)(i + 2 * j)))); } }
    A0 = A;
    std::string sh = shape(m, n) + (pattern == 1 ? "|signed-zeros" : pattern == 2 ? "|negative-and-infinite" : "");
    std::string in = "{\"m\":" + std::to_string(m) + ",\"n\":" + std::to_string(n) + "}";
    auto check = [&](const char *fn, Out &O, unsigned rows, unsigned cols, std::function<double(unsigned, unsigned)> want) {
        ++n_eval;
        n_nt += m != n;
        if (!O.guards_ok()) { R.viol(std::string(fn) + "|" + sh + "|overrun", std::string("a_real_") + fn + " wrote outside its " + std::to_string(rows) + "x" + std::to_string(cols) + " result", in); return; }
        bool input_same = true;
        for (size_t q = 0; q < A.size(); ++q) { if (!same_bits(A[q], A0[q])) { input_same = false; } }
        if (!input_same) { R.viol(std::string(fn) + "|" + sh + "|input-modified", std::string("a_real_") + fn + " modified its input", in); return; }
        for (unsigned i = 0; i < rows; ++i)
        {
            for (unsigned j = 0; j < cols; ++j)
            {
                a_real wv = (a_real)want(i, j), gv = O.p()[(size_t)i * cols + j];
                if (!same_bits(gv, wv))
                {
                    R.viol(std::string(fn) + "|" + sh + "|pattern", std::string("a_real_") + fn + " on a " + std::to_string(m) + "x" + std::to_string(n) + " shape: entry (" + std::to_string(i) + "," + std::to_string(j) + ") is " + std::to_string((double)gv) + (std::signbit((double)gv) ? " (sign bit set)" : "") + ", specified " + std::to_string(want(i, j)) + (std::signbit(want(i, j)) ? " (sign bit set)" : ""), in);
                    return;
                }
            }
        }
    };
    auto a = [&](unsigned i, unsigned j) { return (double)A0[(size_t)i * n + j]; };
    { Out T((size_t)m * n); HYG(4, "T2", a_real_T2(E1(m), E1(n), E1(A.data()), E1(T.p()))); check("T2", T, n, m, [&](unsigned i, unsigned j) { return a(j, i); });
      Out B((size_t)m * n); HYG(4, "T2", a_real_T2(E1(n), E1(m), E1(T.p()), E1(B.p()))); check("T2-twice", B, m, n, [&](unsigned i, unsigned j) { return a(i, j); }); }
    { Out E((size_t)m * n); HYG(3, "eye2", a_real_eye2(E1(m), E1(n), E1(E.p()))); check("eye2", E, m, n, [&](unsigned i, unsigned j) { return i == j ? 1.0 : 0.0; }); }
    { Out L((size_t)m * n); HYG(3, "tri2", a_real_tri2(E1(m), E1(n), E1(L.p()))); check("tri2", L, m, n, [&](unsigned i, unsigned j) { return j <= i ? 1.0 : 0.0; }); }
    { Out L((size_t)m * n); HYG(4, "triL2", a_real_triL2(E1(m), E1(n), E1(A.data()), E1(L.p()))); check("triL2", L, m, n, [&](unsigned i, unsigned j) { return j <= i ? a(i, j) : 0.0; }); }
    { Out U((size_t)m * n); HYG(4, "triU2", a_real_triU2(E1(m), E1(n), E1(A.data()), E1(U.p()))); check("triU2", U, m, n, [&](unsigned i, unsigned j) { return j >= i ? a(i, j) : 0.0; }); }
    { unsigned M = m < n ? m : n; Out d(M); HYG(4, "diag2", a_real_diag2(E1(m), E1(n), E1(A.data()), E1(d.p()))); check("diag2", d, 1, M, [&](unsigned, unsigned j) { return a(j, j); }); }
    if (m == n)
    {
        { std::vector<a_real> S = A; Out T((size_t)n * n); memcpy(T.p(), S.data(), sizeof(a_real) * n * n); HYG(2, "T1", a_real_T1(E1(n), E1(T.p()))); check("T1", T, n, n, [&](unsigned i, unsigned j) { return a(j, i); });
          HYG(2, "T1", a_real_T1(E1(n), E1(T.p()))); check("T1-twice", T, n, n, [&](unsigned i, unsigned j) { return a(i, j); }); }
        { Out E((size_t)n * n); HYG(2, "eye1", a_real_eye1(E1(n), E1(E.p()))); check("eye1", E, n, n, [&](unsigned i, unsigned j) { return i == j ? 1.0 : 0.0; }); }
        { Out L((size_t)n * n); HYG(2, "tri1", a_real_tri1(E1(n), E1(L.p()))); check("tri1", L, n, n, [&](unsigned i, unsigned j) { return j <= i ? 1.0 : 0.0; }); }
        { Out L((size_t)n * n); HYG(3, "triL", a_real_triL(E1(n), E1(A.data()), E1(L.p()))); check("triL", L, n, n, [&](unsigned i, unsigned j) { return j <= i ? a(i, j) : 0.0; }); }
        { Out L((size_t)n * n); HYG(3, "triL1", a_real_triL1(E1(n), E1(A.data()), E1(L.p()))); check("triL1", L, n, n, [&](unsigned i, unsigned j) { return j < i ? a(i, j) : (i == j ? 1.0 : 0.0); }); }
        { Out U((size_t)n * n); HYG(3, "triU", a_real_triU(E1(n), E1(A.data()), E1(U.p()))); check("triU", U, n, n, [&](unsigned i, unsigned j) { return j >= i ? a(i, j) : 0.0; }); }
        { Out U((size_t)n * n); HYG(3, "triU1", a_real_triU1(E1(n), E1(A.data()), E1(U.p()))); check("triU1", U, n, n, [&](unsigned i, unsigned j) { return j > i ? a(i, j) : (i == j ? 1.0 : 0.0); }); }
        { std::vector<a_real> dv(n); for (unsigned i = 0; i < n; ++i) { dv[i] = (a_real)(3 + i); } Out D((size_t)n * n); HYG(3, "diag", a_real_diag(E1(n), E1(dv.data()), E1(D.p()))); check("diag", D, n, n, [&](unsigned i, unsigned j) { return i == j ? 3.0 + i : 0.0; }); }
        { Out d(n); HYG(3, "diag1", a_real_diag1(E1(n), E1(A.data()), E1(d.p()))); check("diag1", d, 1, n, [&](unsigned, unsigned j) { return a(j, j); }); }
    }
}

// ---------------------------------------------------------------- orders whose element index leaves 32 bits
// "All dimensions" includes orders beyond 65536, where row * order + column no longer fits the 32-bit type the dimensions are passed in.
// Only the two diagonal extractions touch O(n) elements of such a matrix, so they can be run: the matrix is an untouched (all-zero,
// never resident) anonymous mapping in which only the diagonal is written (one page per entry).  If the address space cannot be
// reserved the part is skipped and reported as such.
static void huge_orders()
{
#if defined(__SANITIZE_ADDRESS__)
    return;
#else
    uint64_t n_done = 0;
    struct Shape { uint64_t m, n; };
    for (Shape sh : {Shape{65537, 65537}, Shape{70001, 70001}, Shape{3, 0x80000005ull}, Shape{65540, 65537}})
    {
        uint64_t M = sh.m < sh.n ? sh.m : sh.n, bytes = sh.m * sh.n * sizeof(a_real);
        void *map = mmap(nullptr, (size_t)bytes, PROT_READ | PROT_WRITE, MAP_PRIVATE | MAP_ANONYMOUS | MAP_NORESERVE, -1, 0);
        if (map == MAP_FAILED) { vx::info_str("huge-order", "the address space for a " + std::to_string(sh.m) + "x" + std::to_string(sh.n) + " matrix could not be reserved: shape skipped"); continue; }
        a_real *A = (a_real *)map;
        for (uint64_t i = 0; i < M; ++i) { A[i * sh.n + i] = (a_real)(double)(i + 1); }
        std::vector<a_real> d((size_t)M + 2, (a_real)-7);
        std::string in = "{\"m\":" + std::to_string(sh.m) + ",\"n\":" + std::to_string(sh.n) + "}";
        for (int fn = 0; fn < 2; ++fn)
        {
            if (fn == 0 && sh.m != sh.n) { continue; }
            std::fill(d.begin(), d.end(), (a_real)-7);
            if (fn == 0) { a_real_diag1((a_uint)sh.n, A, d.data() + 1); } else { a_real_diag2((a_uint)sh.m, (a_uint)sh.n, A, d.data() + 1); }
            ++n_done;
            uint64_t bad = M;
            for (uint64_t i = 0; i < M; ++i) { if (d[(size_t)i + 1] != (a_real)(double)(i + 1)) { bad = i; break; } }
            if (bad < M) { R.viol(std::string(fn ? "diag2" : "diag1") + "|huge-order", std::string("a_real_") + (fn ? "diag2" : "diag1") + " of a " + std::to_string(sh.m) + "x" + std::to_string(sh.n) + " matrix returns " + std::to_string((double)d[(size_t)bad + 1]) + " for diagonal entry " + std::to_string(bad) + ", which holds " + std::to_string(bad + 1) + " (element index " + std::to_string(bad * sh.n + bad) + " does not fit 32 bits)", in); }
            else if (d[0] != (a_real)-7 || d[(size_t)M + 1] != (a_real)-7) { R.viol(std::string(fn ? "diag2" : "diag1") + "|huge-order", "a write outside the result", in); }
        }
        munmap(map, (size_t)bytes);
    }
    n_eval += n_done;
    n_nt += n_done;
    vx::stat("huge_order_extractions", (long long)n_done);
#endif
}

int main(int argc, char **argv)
{
    vx::Args args(argc, argv);
    R.init(args);
    bool thorough = R.tier == "thorough";
    unsigned D = thorough ? 48 : 20, S = thorough ? 64 : 20; // blocked or unrolled implementations have remainders and panel boundaries (8, 16, 32): products up to 20^3 (48^3), structure kernels up to 20x20 (64x64)
    return vx::run_contained([&] {
        n_eval = n_nt = 0;
        uint64_t item = 0;
        for (unsigned r = 1; r <= D; ++r)
        {
            for (unsigned k = 1; k <= D; ++k)
            {
                for (unsigned c = 1; c <= D; ++c)
                {
                    if (!R.shard.mine(item++)) { continue; }
                    for (int v = 0; v < 4; ++v)
                    {
                        product(v, r, k, c, 0, 0, 0, 0, 0);
                        product(v, r, k, c, 4, 0, 0, 0, 0);
#if A_SIZE_REAL + 0 == 16
                        product(v, r, k, c, 2, 0, 0, 0, 0);
                        product(v, r, k, c, 3, 0, 0, 0, 0);
#endif
                        if (r <= 3 && k <= 3 && c <= 3)
                        {
                            // all single-entry operands: with bilinearity this pins every coefficient of the product
                            unsigned xr = (v == 1 || v == 3) ? k : r, xc = (v == 1 || v == 3) ? r : k, yr = (v == 2 || v == 3) ? c : k, yc = (v == 2 || v == 3) ? k : c;
                            for (unsigned i = 0; i < xr; ++i) { for (unsigned j = 0; j < xc; ++j) { for (unsigned p = 0; p < yr; ++p) { for (unsigned q = 0; q < yc; ++q) { product(v, r, k, c, 1, i, j, p, q); } } } }
                        }
                    }
                    vx::tick();
                }
            }
        }
        R.part(std::string("four product variants on every (row, inner, col) in 1..") + std::to_string(D) + "^3 with index-coded operands, plus all single-entry operand pairs for dims <= 3; stale data in the result area, guard cells around it", n_eval, n_nt);
        uint64_t e0 = n_eval, t0 = n_nt;
        for (unsigned m = 1; m <= S; ++m) { for (unsigned n = 1; n <= S; ++n) { if (R.shard.mine(item++)) { structure(m, n); structure(m, n, 1); structure(m, n, 2); } } }
        R.part(std::string("T1/T2/eye/tri/diag/triL/triL1/triU/triU1 and their rectangular forms on every (m, n) in 1..") + std::to_string(S) + "^2 (wide, square, tall), T2 and T1 applied twice", n_eval - e0, n_nt - t0);
        if (R.shard.idx == 0)
        {
            uint64_t e1 = n_eval, t1 = n_nt;
            huge_orders();
            R.part("diagonal extraction (diag1, diag2) from 65537x65537, 70001x70001, 65540x65537 and 3x(2^31+5) matrices held in untouched address space: element indices beyond 32 bits", n_eval - e1, n_nt - t1);
        }
        if (!g_hyg.empty()) { R.viol(g_hyg + "|call|argument-evaluation", "a_real_" + g_hyg + " as spelled through a/linalg.h does not evaluate each argument expression exactly once (a macro repeats or drops an argument)", "{\"fn\":\"a_real_" + g_hyg + "\"}"); }
        R.sample("{\"fn\":\"a_real_mulmT\",\"row\":2,\"col\":3,\"inner\":1,\"X\":\"index-coded 2x1\",\"Y\":\"primes 3x1\",\"check\":\"Z == X*Y^T exactly, 24 guard cells on both sides untouched\"}");
        R.finish(true, "every listed shape enumerated");
    }, 60.0);
}
