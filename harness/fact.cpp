// fact.cpp — C08: LU with partial pivoting, LDL^T and Cholesky of src/linalg_{plu,ldl,llt}.c on complete
// small-integer matrix lattices, with exact rational classification (Bareiss minors) and __float128
// reconstruction.  DESIGN.md §4.C08.
#include "../engine/grid.hpp"
#include <limits>
#include <quadmath.h>
#include <cmath>
#include <cfloat>
#include <algorithm>
#include <numeric>

extern "C" {
#include "a/linalg.h"
}

typedef __float128 Q;
typedef __int128 I;
static grid::Run R;
#if A_SIZE_REAL + 0 == 4
static const double EPS = FLT_EPSILON, RMIN_ = FLT_MIN;
static const int BIGSCALE = 60, SMALLSCALE = 20, UNISCALE = 50, GRADE = 56;
#elif A_SIZE_REAL + 0 == 16
static const double EPS = LDBL_EPSILON, RMIN_ = DBL_MIN;
static const int BIGSCALE = 200, SMALLSCALE = 20, UNISCALE = 700, GRADE = 480; // uniform scaling by 2^+-1400: beyond the range of a double, inside a long double's (and order 10 stays inside __float128)
#else
static const double EPS = DBL_EPSILON, RMIN_ = DBL_MIN;
static const int BIGSCALE = 200, SMALLSCALE = 20, UNISCALE = 300, GRADE = 480;
#endif
static bool fin(a_real v) { return std::isfinite(v); }                                                   // finite in the library's own real type
static bool fits(Q q) { return fabsq(q) <= (Q)std::numeric_limits<a_real>::max(); }                    // representable (no overflow) in that type
static std::string num(double v)
{
    char b[40];
    snprintf(b, sizeof b, "%.17g", v);
    return b;
}
static const int PAD = 16;
static const double GUARD = -9191.5;
struct Buf
{
    std::vector<a_real> v;
    size_t n;
    static a_real gv(size_t i) { return (a_real)(GUARD - (double)i); } // guard cells differ from one another (a shifted copy of guards onto guards must show)
    explicit Buf(size_t k) : v(k + 2 * PAD, (a_real)GUARD), n(k) { for (size_t i = 0; i < n; ++i) { v[PAD + i] = (a_real)(55.5 + (double)i); } for (size_t i = 0; i < (size_t)PAD; ++i) { v[i] = gv(i); v[PAD + n + i] = gv(PAD + i); } }
    a_real *p() { return v.data() + PAD; }
    const a_real *p() const { return v.data() + PAD; }
    bool ok() const
    {
        for (int i = 0; i < PAD; ++i) { if (v[(size_t)i] != gv((size_t)i) || v[PAD + n + (size_t)i] != gv((size_t)(PAD + i))) { return false; } }
        return true;
    }
};

struct Mat
{
    int n;
    std::vector<long> e;   // integer entries
    std::vector<int> rs, cs; // power-of-two row / column scalings (exponents)
    a_real at(int i, int j) const { return (a_real)ldexpl((long double)e[(size_t)(i * n + j)], rs[(size_t)i] + cs[(size_t)j]); }
    std::string json() const
    {
        std::string s = "{\"n\":" + std::to_string(n) + ",\"entries\":[";
        for (size_t i = 0; i < e.size(); ++i) { s += (i ? "," : "") + std::to_string(e[i]); }
        s += "],\"row_scale_exp\":[";
        for (int i = 0; i < n; ++i) { s += (i ? "," : "") + std::to_string(rs[(size_t)i]); }
        s += "],\"col_scale_exp\":[";
        for (int i = 0; i < n; ++i) { s += (i ? "," : "") + std::to_string(cs[(size_t)i]); }
        return s + "]}";
    }
    bool scaled() const { for (int v : rs) { if (v) { return true; } } for (int v : cs) { if (v) { return true; } } return false; }
};
// exact determinant of the leading k x k block of the integer part (Bareiss, fraction free)
static I minor_det(const Mat &M, int k, const std::vector<int> *rows = nullptr)
{
    std::vector<I> a((size_t)(k * k));
    for (int i = 0; i < k; ++i) { for (int j = 0; j < k; ++j) { a[(size_t)(i * k + j)] = M.e[(size_t)((rows ? (*rows)[(size_t)i] : i) * M.n + j)]; } }
    I prev = 1;
    int sgn = 1;
    for (int c = 0; c < k - 1; ++c)
    {
        if (a[(size_t)(c * k + c)] == 0)
        {
            int r = c + 1;
            while (r < k && a[(size_t)(r * k + c)] == 0) { ++r; }
            if (r == k) { return 0; }
            for (int j = 0; j < k; ++j) { std::swap(a[(size_t)(c * k + j)], a[(size_t)(r * k + j)]); }
            sgn = -sgn;
        }
        for (int i = c + 1; i < k; ++i) { for (int j = c + 1; j < k; ++j) { a[(size_t)(i * k + j)] = (a[(size_t)(i * k + j)] * a[(size_t)(c * k + c)] - a[(size_t)(i * k + c)] * a[(size_t)(c * k + j)]) / prev; } }
        prev = a[(size_t)(c * k + c)];
    }
    return sgn * a[(size_t)(k * k - 1)];
}
static Q scale_det(const Mat &M) // product of all row and column scalings as a power of two
{
    int s = 0;
    for (int v : M.rs) { s += v; }
    for (int v : M.cs) { s += v; }
    return ldexpq(1, s);
}
static bool is_perm(const a_uint *p, int n, int &parity)
{
    std::vector<int> seen((size_t)n, 0);
    for (int i = 0; i < n; ++i) { if (p[i] >= (a_uint)n || seen[p[i]]++) { return false; } }
    std::vector<int> vis((size_t)n, 0);
    parity = 1;
    for (int i = 0; i < n; ++i)
    {
        if (vis[(size_t)i]) { continue; }
        int len = 0;
        for (int j = i; !vis[(size_t)j]; j = (int)p[j]) { vis[(size_t)j] = 1; ++len; }
        if (len % 2 == 0) { parity = -parity; }
    }
    return true;
}
static uint64_t n_eval, n_nt;
static double worst[6];

static std::string cls_of(const Mat &M) { return "n" + std::to_string(M.n) + (M.scaled() ? "|scaled" : "|plain"); }

// ------------------------------------------------------------------------------------------------ PLU
static void check_plu(const Mat &M, const std::vector<std::vector<long>> &rhs)
{
    int n = M.n;
    size_t nn = (size_t)(n * n);
    Buf A(nn);
    std::vector<a_real> A0(nn);
    for (int i = 0; i < n; ++i) { for (int j = 0; j < n; ++j) { A0[(size_t)(i * n + j)] = A.p()[i * n + j] = M.at(i, j); } }
    std::vector<a_uint> p((size_t)n + 2, 777);
    int sign = 99;
    int rc = a_real_plu((a_uint)n, A.p(), p.data() + 1, &sign);
    a_uint *pp = p.data() + 1;
    ++n_eval;
    std::string in = M.json(), cls = "plu|" + cls_of(M);
    I det_int = minor_det(M, n);
    if (!A.ok() || p[0] != 777 || p[(size_t)n + 1] != 777) { R.viol(cls + "|overrun", "a_real_plu wrote outside the matrix or the permutation vector", in); return; }
    if (rc != A_SUCCESS)
    {
        if (det_int != 0) { R.viol(cls + "|nonsingular-rejected", "a_real_plu reported failure for an exactly nonsingular matrix (determinant of the integer part " + std::to_string((long long)det_int) + ")", in); }
        return;
    }
    n_nt += det_int != 0;
    int parity;
    if (!is_perm(pp, n, parity)) { R.viol(cls + "|permutation", "the pivot vector is not a permutation", in); return; }
    if (parity != sign) { R.viol(cls + "|sign", "the reported sign " + std::to_string(sign) + " is not the parity of the row permutation", in); return; }
    // named singular classes must be reported as failure: a zero column, two equal rows
    {
        bool zero_col = false, dup_row = false;
        for (int j = 0; j < n; ++j) { bool z = true; for (int i = 0; i < n; ++i) { if (M.e[(size_t)(i * n + j)]) { z = false; } } if (z) { zero_col = true; } }
        for (int i = 0; i < n; ++i) { for (int k = i + 1; k < n; ++k) { bool same = M.rs[(size_t)i] == M.rs[(size_t)k]; for (int j = 0; j < n && same; ++j) { if (M.e[(size_t)(i * n + j)] != M.e[(size_t)(k * n + j)]) { same = false; } } if (same) { dup_row = true; } } }
        if (zero_col) { R.viol(cls + "|zero-column-accepted", "a matrix with a zero column was factorised instead of being reported as failure", in); return; }
        if (dup_row) { R.viol(cls + "|duplicate-rows-accepted", "a matrix with two equal rows was factorised instead of being reported as failure", in); return; }
    }
    // factors
    std::vector<Q> L(nn, 0), U(nn, 0), absLU(nn, 0);
    Q umax = 0, amax = 0;
    for (int i = 0; i < n; ++i)
    {
        for (int j = 0; j < n; ++j)
        {
            a_real v = A.p()[i * n + j];
            if (!fin(v)) { R.viol(cls + "|not-finite", "a factor entry is not finite", in); return; }
            if (j < i)
            {
                L[(size_t)(i * n + j)] = v;
                if (std::fabs((double)v) > 1 + 4 * EPS) { R.viol(cls + "|multiplier", "a multiplier " + num((double)v) + " exceeds one in magnitude under partial pivoting", in); return; }
            }
            else { U[(size_t)(i * n + j)] = v; umax = fmaxq(umax, fabsq((Q)v)); }
            amax = fmaxq(amax, fabsq((Q)A0[(size_t)(i * n + j)]));
        }
        L[(size_t)(i * n + i)] = 1;
    }
    double worst_rec = 0;
    for (int i = 0; i < n; ++i)
    {
        for (int j = 0; j < n; ++j)
        {
            Q s = 0, m = 0;
            for (int k = 0; k < n; ++k) { s += L[(size_t)(i * n + k)] * U[(size_t)(k * n + j)]; m += fabsq(L[(size_t)(i * n + k)] * U[(size_t)(k * n + j)]); }
            absLU[(size_t)(i * n + j)] = m;
            Q pa = A0[(size_t)((int)pp[i] * n + j)];
            Q err = fabsq(pa - s);
            if (m > 0) { worst_rec = std::max(worst_rec, (double)(err / ((Q)EPS * m))); }
            if (!(err <= 4 * n * (Q)EPS * m)) { R.viol(cls + "|reconstruction", "P*A - L*U at (" + std::to_string(i) + "," + std::to_string(j) + ") is " + num((double)err) + ", beyond the componentwise rounding bound " + num((double)(4 * n * (Q)EPS * m)), in); return; }
        }
    }
    worst[0] = std::max(worst[0], worst_rec);
    // extractors
    {
        Buf P(nn), Pt(nn), Lx(nn), Ux(nn);
        a_real_plu_P((a_uint)n, pp, P.p());
        a_real_plu_P_((a_uint)n, pp, Pt.p());
        a_real_plu_L((a_uint)n, A.p(), Lx.p());
        a_real_plu_U((a_uint)n, A.p(), Ux.p());
        if (!P.ok() || !Pt.ok() || !Lx.ok() || !Ux.ok()) { R.viol(cls + "|overrun", "an extractor wrote outside its result", in); return; }
        for (int i = 0; i < n; ++i)
        {
            for (int j = 0; j < n; ++j)
            {
                a_real want = (a_real)((int)pp[i] == j);
                if (P.p()[i * n + j] != want || Pt.p()[j * n + i] != want) { R.viol(cls + "|P-matrix", "a_real_plu_P / a_real_plu_P_ do not give the permutation matrix and its transpose", in); return; }
                if ((Q)Lx.p()[i * n + j] != L[(size_t)(i * n + j)] || (Q)Ux.p()[i * n + j] != U[(size_t)(i * n + j)]) { R.viol(cls + "|LU-extract", "a_real_plu_L / a_real_plu_U do not match the packed storage", in); return; }
            }
        }
    }
    (void)umax; (void)amax;
    // solve
    for (const auto &b0 : rhs)
    {
        Buf x((size_t)n);
        std::vector<a_real> b((size_t)n);
        for (int i = 0; i < n; ++i) { b[(size_t)i] = (a_real)b0[(size_t)i]; }
        a_real_plu_solve((a_uint)n, A.p(), pp, b.data(), x.p());
        ++n_eval;
        if (!x.ok()) { R.viol(cls + "|overrun", "a_real_plu_solve wrote outside the solution vector", in); return; }
        for (int i = 0; i < n; ++i)
        {
            // standard componentwise backward error of Gaussian elimination: |P b - P A x| <= c n eps (|L||U|) |x| (row i of P A is row p[i] of A)
            int r = (int)pp[i];
            Q s = 0, m = fabsq((Q)b[(size_t)r]);
            for (int j = 0; j < n; ++j) { s += (Q)A0[(size_t)(r * n + j)] * x.p()[j]; m += absLU[(size_t)(i * n + j)] * fabsq((Q)x.p()[j]); }
            Q err = fabsq(s - b[(size_t)r]);
            if (m > 0) { worst[1] = std::max(worst[1], (double)(err / ((Q)EPS * m))); }
            if (!(err <= 16 * n * (Q)EPS * m)) { R.viol(cls + "|solve-residual", "the residual of a_real_plu_solve in row " + std::to_string(r) + " is " + num((double)err) + ", beyond the componentwise bound " + num((double)(16 * n * (Q)EPS * m)), in); return; }
        }
        // the exported building blocks (permute, forward substitution, back substitution) compose to the same solution
        {
            Buf y((size_t)n);
            a_real_plu_apply((a_uint)n, pp, b.data(), y.p());
            bool perm_ok = true;
            for (int i = 0; i < n; ++i) { if (y.p()[i] != b[(size_t)pp[i]]) { perm_ok = false; } }
            if (!y.ok() || !perm_ok) { R.viol(cls + "|apply", "a_real_plu_apply does not produce P*b (or writes outside it)", in); return; }
            a_real_plu_lower((a_uint)n, A.p(), y.p());
            a_real_plu_upper((a_uint)n, A.p(), y.p());
            ++n_eval;
            if (!y.ok()) { R.viol(cls + "|overrun", "a_real_plu_lower / a_real_plu_upper wrote outside the vector", in); return; }
            for (int i = 0; i < n; ++i)
            {
                int r = (int)pp[i];
                Q sres = 0, m = fabsq((Q)b[(size_t)r]);
                for (int j = 0; j < n; ++j) { sres += (Q)A0[(size_t)(r * n + j)] * y.p()[j]; m += absLU[(size_t)(i * n + j)] * fabsq((Q)y.p()[j]); }
                if (!(fabsq(sres - b[(size_t)r]) <= 16 * n * (Q)EPS * m)) { R.viol(cls + "|substitution-residual", "apply + lower + upper do not solve the system: residual " + num((double)fabsq(sres - b[(size_t)r])) + " in row " + std::to_string(r), in); return; }
            }
        }
    }
    // inverse: buffered and strided in-place variants
    {
        Buf X1(nn), X2(nn), tmp((size_t)n);
        a_real_plu_inv((a_uint)n, A.p(), pp, tmp.p(), X1.p());
        a_real_plu_inv_((a_uint)n, A.p(), pp, X2.p());
        n_eval += 2;
        if (!X1.ok() || !X2.ok() || !tmp.ok()) { R.viol(cls + "|overrun", "an inverse routine wrote outside its result", in); return; }
        for (int v = 0; v < 2; ++v)
        {
            const a_real *X = v ? X2.p() : X1.p();
            for (int ii = 0; ii < n; ++ii)
            {
                int i = (int)pp[ii];
                for (int j = 0; j < n; ++j)
                {
                    Q s = 0, m = (i == j);
                    for (int k = 0; k < n; ++k) { s += (Q)A0[(size_t)(i * n + k)] * X[k * n + j]; m += absLU[(size_t)(ii * n + k)] * fabsq((Q)X[k * n + j]); }
                    Q err = fabsq(s - (i == j));
                    worst[2] = std::max(worst[2], (double)(err / ((Q)EPS * m)));
                    if (!(err <= 16 * n * (Q)EPS * m)) { R.viol(cls + (v ? "|inv_-residual" : "|inv-residual"), std::string(v ? "a_real_plu_inv_" : "a_real_plu_inv") + ": (A * inverse - I) at (" + std::to_string(i) + "," + std::to_string(j) + ") is " + num((double)err) + ", beyond the bound " + num((double)(16 * n * (Q)EPS * m)), in); return; }
                }
            }
        }
        // "agree with one another": both inverses satisfy the same componentwise residual bound above; in addition their difference must be
        // explained by that bound: |A (X1 - X2)| <= 2 * bound
        for (int ii = 0; ii < n; ++ii)
        {
            int i = (int)pp[ii];
            for (int j = 0; j < n; ++j)
            {
                Q s = 0, m = 0;
                for (int k = 0; k < n; ++k) { s += (Q)A0[(size_t)(i * n + k)] * ((Q)X1.p()[k * n + j] - (Q)X2.p()[k * n + j]); m += absLU[(size_t)(ii * n + k)] * (fabsq((Q)X1.p()[k * n + j]) + fabsq((Q)X2.p()[k * n + j])); }
                if (!(fabsq(s) <= 32 * n * (Q)EPS * (m + 1))) { R.viol(cls + "|inv-disagree", "a_real_plu_inv and a_real_plu_inv_ disagree beyond rounding", in); return; }
            }
        }
    }
    // determinant family
    {
        a_real det = a_real_plu_det((a_uint)n, A.p(), sign), ln = a_real_plu_lndet((a_uint)n, A.p());
        int sg = a_real_plu_sgndet((a_uint)n, A.p(), sign);
        n_eval += 3;
        Q exact = (Q)(long double)det_int * scale_det(M);
        // perturbation bound: sum over entries of (|L||U|)_ij |cofactor_ij| is bounded by n! * prod of row magnitudes; use the product of |u_ii| row sums as scale
        Q scale = 1;
        for (int i = 0; i < n; ++i) { Q rsum = 0; for (int j = 0; j < n; ++j) { rsum += absLU[(size_t)(i * n + j)]; } scale *= rsum; }
        Q tol = 16 * n * n * (Q)EPS * scale;
        if (fin(det) && fits(exact) && (exact == 0 || fabsq(exact) >= (Q)RMIN_) && !(fabsq((Q)det - exact) <= tol + 4 * n * (Q)EPS * fabsq(exact))) { R.viol(cls + "|det", "a_real_plu_det = " + num((double)det) + " but the exact determinant is " + num((double)exact), in); return; }
        if (det_int != 0 && !fin(ln)) { R.viol(cls + "|lndet|not-finite", "a_real_plu_lndet = " + num((double)ln) + " although the matrix is nonsingular: the sum of the logarithms of the pivots cannot overflow", in); return; }
        if (det_int != 0 && fin(ln))
        {
            Q lnx = logq(fabsq(exact));
            if (!(fabsq((Q)ln - lnx) <= 64 * n * (Q)EPS * (1 + fabsq(lnx)) + tol / fabsq(exact))) { R.viol(cls + "|lndet", "a_real_plu_lndet = " + num((double)ln) + " but ln|det| = " + num((double)lnx), in); return; }
            if (fabsq(exact) > tol && sg != (exact > 0 ? 1 : -1)) { R.viol(cls + "|sgndet", "a_real_plu_sgndet = " + std::to_string(sg) + " but the determinant is " + num((double)exact), in); return; }
        }
        if (fin(det) && det != 0 && sg != (det > 0 ? 1 : -1)) { R.viol(cls + "|sgndet-vs-det", "a_real_plu_sgndet disagrees with the sign of a_real_plu_det", in); return; }
    }
}

// ------------------------------------------------------------------------------------------------ LDL^T and Cholesky (symmetric input)
static void check_sym(const Mat &M, const std::vector<std::vector<long>> &rhs, bool chol)
{
    int n = M.n;
    size_t nn = (size_t)(n * n);
    Buf A(nn);
    std::vector<a_real> A0(nn);
    for (int i = 0; i < n; ++i) { for (int j = 0; j < n; ++j) { A0[(size_t)(i * n + j)] = A.p()[i * n + j] = M.at(i, j); } }
    int rc = chol ? a_real_llt((a_uint)n, A.p()) : a_real_ldl((a_uint)n, A.p());
    ++n_eval;
    std::string in = M.json(), name = chol ? "llt" : "ldl", cls = name + "|" + cls_of(M);
    if (!A.ok()) { R.viol(cls + "|overrun", "the factorisation wrote outside the matrix", in); return; }
    // exact leading principal minors of the integer part (scalings are symmetric positive: they do not change signs)
    int first_bad = -1; // first k with minor_k == 0 (ldl) / <= 0 (llt)
    for (int k = 1; k <= n; ++k) { I d = minor_det(M, k); if (chol ? d <= 0 : d == 0) { first_bad = k; break; } }
    if (rc != A_SUCCESS)
    {
        if (first_bad < 0) { R.viol(cls + (chol ? "|spd-rejected" : "|regular-rejected"), std::string("a_real_") + name + " reported failure although every leading principal minor is " + (chol ? "positive" : "non-zero"), in); }
        return;
    }
    if (chol && first_bad >= 0)
    {
        // a non-positive pivot must be reported whenever the arithmetic up to that pivot is exact: every earlier exact pivot
        // minor_k / minor_{k-1} is a power of four, so that its square root and all multipliers are dyadic
        bool exact_arith = true;
        I prev = 1;
        for (int k = 1; k < first_bad; ++k)
        {
            I mk = minor_det(M, k);
            bool pow4 = false;
            for (I q = 1; q <= (I)1 << 40; q *= 4) { if (mk == prev * q || mk * q == prev) { pow4 = true; } }
            if (!pow4) { exact_arith = false; }
            prev = mk;
        }
        if (exact_arith) { R.viol(cls + "|not-positive-definite-accepted", "a_real_llt factorised a matrix whose leading principal minor of order " + std::to_string(first_bad) + " is not positive (all earlier pivots are powers of four, so the computation is exact)", in); }
        return; // with inexact earlier pivots an exactly vanishing pivot may legitimately come out as rounding noise of either sign
    }
    if (!chol && first_bad >= 0)
    {
        // an exactly vanishing pivot must be reported whenever the arithmetic up to that pivot is exact (dyadic): that is the case for k <= 2 and for a zero first pivot
        if (first_bad <= 2) { R.viol(cls + "|zero-pivot-accepted", "a_real_ldl factorised a matrix whose leading principal minor of order " + std::to_string(first_bad) + " vanishes exactly", in); }
        return; // later pivots may legitimately be rounding noise: nothing more is demanded of the factors
    }
    ++n_nt;
    std::vector<Q> L(nn, 0), D((size_t)n, 1);
    for (int i = 0; i < n; ++i)
    {
        for (int j = 0; j <= i; ++j)
        {
            a_real v = A.p()[i * n + j];
            if (!fin(v)) { R.viol(cls + "|not-finite", "a factor entry is not finite", in); return; }
            if (j < i) { L[(size_t)(i * n + j)] = v; }
            else if (chol) { L[(size_t)(i * n + i)] = v; if (!(v > 0)) { R.viol(cls + "|diagonal", "a Cholesky diagonal entry is not strictly positive", in); return; } }
            else { L[(size_t)(i * n + i)] = 1; D[(size_t)i] = v; }
        }
    }
    // the factor lives in the lower triangle (and the diagonal); the strict upper triangle still holds entries of the input and is not
    // part of the result.  From here on it holds NaN: every routine that takes the factor (extractors, substitutions, solve, both
    // inverses, determinants) must work from the lower triangle alone, as it must for a lower-triangular L built by the caller
    for (int i = 0; i < n; ++i) { for (int j = i + 1; j < n; ++j) { A.p()[i * n + j] = (a_real)NAN; } }
    for (int i = 0; i < n; ++i)
    {
        for (int j = 0; j < n; ++j)
        {
            Q s = 0, m = 0;
            for (int k = 0; k < n; ++k) { Q t = L[(size_t)(i * n + k)] * D[(size_t)k] * L[(size_t)(j * n + k)]; s += t; m += fabsq(t); }
            Q err = fabsq((Q)A0[(size_t)(i * n + j)] - s);
            if (m > 0) { worst[3] = std::max(worst[3], (double)(err / ((Q)EPS * m))); }
            if (!(err <= 8 * n * (Q)EPS * m)) { R.viol(cls + "|reconstruction", std::string("A - ") + (chol ? "L*L^T" : "L*D*L^T") + " at (" + std::to_string(i) + "," + std::to_string(j) + ") is " + num((double)err) + ", beyond the componentwise rounding bound", in); return; }
        }
    }
    {
        Buf Lx(nn), dx((size_t)n);
        if (chol) { a_real_llt_L((a_uint)n, A.p(), Lx.p()); }
        else { a_real_ldl_L((a_uint)n, A.p(), Lx.p()); a_real_ldl_D((a_uint)n, A.p(), dx.p()); }
        if (!Lx.ok() || !dx.ok()) { R.viol(cls + "|overrun", "an extractor wrote outside its result", in); return; }
        for (int i = 0; i < n; ++i)
        {
            for (int j = 0; j < n; ++j) { if ((Q)Lx.p()[i * n + j] != L[(size_t)(i * n + j)]) { R.viol(cls + "|L-extract", "the L extractor does not match the packed storage", in); return; } }
            if (!chol && (Q)dx.p()[i] != D[(size_t)i]) { R.viol(cls + "|D-extract", "a_real_ldl_D does not match the packed storage", in); return; }
        }
    }
    // conditioning scale for residual bounds: |L||D||L^T|
    auto absprod = [&](int i, int j) { Q m = 0; for (int k = 0; k < n; ++k) { m += fabsq(L[(size_t)(i * n + k)] * D[(size_t)k] * L[(size_t)(j * n + k)]); } return m; };
    for (const auto &b0 : rhs)
    {
        Buf x((size_t)n);
        for (int i = 0; i < n; ++i) { x.p()[i] = (a_real)b0[(size_t)i]; }
        if (chol) { a_real_llt_solve((a_uint)n, A.p(), x.p()); } else { a_real_ldl_solve((a_uint)n, A.p(), x.p()); }
        ++n_eval;
        if (!x.ok()) { R.viol(cls + "|overrun", "solve wrote outside the vector", in); return; }
        for (int i = 0; i < n; ++i)
        {
            Q s = 0, m = fabsq((Q)b0[(size_t)i]);
            for (int j = 0; j < n; ++j) { s += (Q)A0[(size_t)(i * n + j)] * x.p()[j]; m += absprod(i, j) * fabsq((Q)x.p()[j]); }
            Q err = fabsq(s - (Q)b0[(size_t)i]);
            if (m > 0) { worst[4] = std::max(worst[4], (double)(err / ((Q)EPS * m))); }
            if (!(err <= 32 * n * (Q)EPS * m)) { R.viol(cls + "|solve-residual", "the residual of the solve in component " + std::to_string(i) + " is " + num((double)err) + ", beyond the bound " + num((double)(32 * n * (Q)EPS * m)), in); return; }
        }
        // forward and back substitution, called separately, compose to the same solution
        {
            Buf y((size_t)n);
            for (int i = 0; i < n; ++i) { y.p()[i] = (a_real)b0[(size_t)i]; }
            if (chol) { a_real_llt_lower((a_uint)n, A.p(), y.p()); a_real_llt_upper((a_uint)n, A.p(), y.p()); }
            else { a_real_ldl_lower((a_uint)n, A.p(), y.p()); a_real_ldl_upper((a_uint)n, A.p(), y.p()); }
            ++n_eval;
            if (!y.ok()) { R.viol(cls + "|overrun", "a substitution routine wrote outside the vector", in); return; }
            for (int i = 0; i < n; ++i)
            {
                Q sres = 0, m = fabsq((Q)b0[(size_t)i]);
                for (int j = 0; j < n; ++j) { sres += (Q)A0[(size_t)(i * n + j)] * y.p()[j]; m += absprod(i, j) * fabsq((Q)y.p()[j]); }
                if (!(fabsq(sres - (Q)b0[(size_t)i]) <= 32 * n * (Q)EPS * m)) { R.viol(cls + "|substitution-residual", "lower + upper do not solve the system: residual " + num((double)fabsq(sres - (Q)b0[(size_t)i])) + " in component " + std::to_string(i), in); return; }
            }
        }
    }
    {
        Buf X1(nn), X2(nn), tmp((size_t)n);
        if (chol) { a_real_llt_inv((a_uint)n, A.p(), tmp.p(), X1.p()); a_real_llt_inv_((a_uint)n, A.p(), X2.p()); }
        else { a_real_ldl_inv((a_uint)n, A.p(), tmp.p(), X1.p()); a_real_ldl_inv_((a_uint)n, A.p(), X2.p()); }
        n_eval += 2;
        if (!X1.ok() || !X2.ok() || !tmp.ok()) { R.viol(cls + "|overrun", "an inverse routine wrote outside its result", in); return; }
        for (int v = 0; v < 2; ++v)
        {
            const a_real *X = v ? X2.p() : X1.p();
            for (int i = 0; i < n; ++i)
            {
                for (int j = 0; j < n; ++j)
                {
                    Q s = 0, m = (i == j);
                    for (int k = 0; k < n; ++k) { s += (Q)A0[(size_t)(i * n + k)] * X[k * n + j]; m += absprod(i, k) * fabsq((Q)X[k * n + j]); }
                    Q err = fabsq(s - (i == j));
                    worst[5] = std::max(worst[5], (double)(err / ((Q)EPS * m)));
                    if (!(err <= 32 * n * (Q)EPS * m)) { R.viol(cls + (v ? "|inv_-residual" : "|inv-residual"), std::string("a_real_") + name + (v ? "_inv_" : "_inv") + ": (A * inverse - I) at (" + std::to_string(i) + "," + std::to_string(j) + ") is " + num((double)err) + ", beyond the bound", in); return; }
                }
            }
        }
    }
    {
        a_real det = chol ? a_real_llt_det((a_uint)n, A.p()) : a_real_ldl_det((a_uint)n, A.p());
        a_real ln = chol ? a_real_llt_lndet((a_uint)n, A.p()) : a_real_ldl_lndet((a_uint)n, A.p());
        n_eval += 2;
        Q exact = (Q)(long double)minor_det(M, n) * scale_det(M);
        Q scale = 1;
        for (int i = 0; i < n; ++i) { Q rsum = 0; for (int j = 0; j < n; ++j) { rsum += absprod(i, j); } scale *= rsum; }
        Q tol = 16 * n * n * (Q)EPS * scale;
        if (fin(det) && fits(exact) && (exact == 0 || fabsq(exact) >= (Q)RMIN_) && !(fabsq((Q)det - exact) <= tol + 8 * n * (Q)EPS * fabsq(exact))) { R.viol(cls + "|det", std::string("a_real_") + name + "_det = " + num((double)det) + " but the exact determinant is " + num((double)exact), in); return; }
        if (exact != 0 && !fin(ln)) { R.viol(cls + "|lndet|not-finite", std::string("a_real_") + name + "_lndet = " + num((double)ln) + " although ln|det| = " + num((double)logq(fabsq(exact))) + " is finite (the sum of the logarithms of the pivots cannot overflow)", in); return; }
        if (exact != 0 && fin(ln))
        {
            Q lnx = logq(fabsq(exact));
            if (!(fabsq((Q)ln - lnx) <= 64 * n * (Q)EPS * (1 + fabsq(lnx)) + tol / fabsq(exact))) { R.viol(cls + "|lndet", std::string("a_real_") + name + "_lndet = " + num((double)ln) + " but ln|det| = " + num((double)lnx), in); return; }
        }
        if (!chol)
        {
            int sg = a_real_ldl_sgndet((a_uint)n, A.p());
            if (fabsq(exact) > tol && sg != (exact > 0 ? 1 : -1)) { R.viol(cls + "|sgndet", "a_real_ldl_sgndet = " + std::to_string(sg) + " but the determinant is " + num((double)exact), in); return; }
        }
    }
}

static std::vector<std::vector<long>> rhs_set(int n, bool full)
{
    std::vector<std::vector<long>> r;
    for (int i = 0; i < n; ++i) { std::vector<long> e((size_t)n, 0); e[(size_t)i] = 1; r.push_back(e); }
    if (full && n <= 3)
    {
        int total = 1;
        for (int i = 0; i < n; ++i) { total *= 3; }
        for (int c = 0; c < total; ++c) { std::vector<long> v; int cc = c; for (int i = 0; i < n; ++i) { v.push_back(cc % 3 - 1); cc /= 3; } r.push_back(v); }
    }
    else { r.push_back(std::vector<long>((size_t)n, 1)); std::vector<long> alt; for (int i = 0; i < n; ++i) { alt.push_back(i % 2 ? -2 : 3); } r.push_back(alt); }
    return r;
}
static void with_scalings(Mat M, bool symmetric, bool scale, const std::function<void(const Mat &)> &f)
{
    f(M);
    if (!scale) { return; }
    for (int k = 0; k < M.n; ++k)
    {
        for (int ex : {SMALLSCALE, -SMALLSCALE, BIGSCALE, -BIGSCALE})
        {
            if (symmetric)
            {
                // symmetric scaling D A D keeps the class; exponents halve so that the product stays in range
                Mat S = M;
                S.rs[(size_t)k] = ex / 2; S.cs[(size_t)k] = ex / 2;
                f(S);
            }
            else
            {
                Mat S = M;
                S.rs[(size_t)k] = ex;
                f(S);
                Mat C = M;
                C.cs[(size_t)k] = ex;
                f(C);
            }
        }
    }
    // graded scaling: row / column exponents of opposite extreme sizes (a ratio of 2^(1.6*GRADE) between neighbouring rows), so that
    // individual factor entries are tiny or huge while every product the factorization needs (l*d, l*d*l) stays representable
    if (M.n >= 2)
    {
        static const double PAT[10] = {1.0, -0.625, -0.35, 0.2, 0.8, -0.9, 0.1, -0.45, 0.55, -0.15};
        for (int sgn : {1, -1})
        {
            Mat S = M;
            for (int k = 0; k < M.n; ++k)
            {
                int ex = (int)(sgn * GRADE * PAT[k % 10]);
                S.rs[(size_t)k] = ex;
                S.cs[(size_t)k] = symmetric ? ex : (int)(-sgn * GRADE * PAT[(k + 3) % 10] / 2);
            }
            f(S);
        }
    }
    // uniform scaling of the whole matrix by 2^(+-2*UNISCALE): every pivot is huge (tiny), so the PRODUCT of the pivots leaves the
    // floating-point range although each factor, the solution, the inverse and the log-determinant are representable
    for (int ex : {UNISCALE, -UNISCALE})
    {
        Mat S = M;
        for (int k = 0; k < M.n; ++k) { S.rs[(size_t)k] = ex; S.cs[(size_t)k] = symmetric ? ex : 0; }
        if (!symmetric) { for (int k = 0; k < M.n; ++k) { S.rs[(size_t)k] = 2 * ex; } }
        f(S);
    }
}

// ---------------------------------------------------------------- determinants read again after the factor array changed in place
// straight-line code through an opaque pointer at -O2: each call reads the factors as they are at that moment
static __attribute__((noinline)) void det_twice(a_real *A, a_real *out)
{
    // diagonal factors 2, -4, 8 (upper triangle of a PLU result / pivots of LDL); the strictly lower part is multipliers
    out[0] = a_real_plu_det(3, A, 1); out[1] = a_real_plu_lndet(3, A); out[2] = (a_real)a_real_plu_sgndet(3, A, 1);
    out[3] = a_real_ldl_det(3, A); out[4] = a_real_ldl_lndet(3, A); out[5] = (a_real)a_real_ldl_sgndet(3, A);
    A[0] = 4; A[4] = 2; A[8] = 16; // diagonal now 4, 2, 16: all positive, also a valid Cholesky factor
    out[6] = a_real_plu_det(3, A, 1); out[7] = a_real_plu_lndet(3, A); out[8] = (a_real)a_real_plu_sgndet(3, A, 1);
    out[9] = a_real_ldl_det(3, A); out[10] = a_real_ldl_lndet(3, A); out[11] = (a_real)a_real_ldl_sgndet(3, A);
    out[12] = a_real_llt_det(3, A); out[13] = a_real_llt_lndet(3, A);
    A[0] = 1; A[4] = 1; A[8] = 2;
    out[14] = a_real_llt_det(3, A); out[15] = a_real_llt_lndet(3, A);
}
static void reread()
{
    if (R.shard.idx != 0) { return; }
    a_real A[9] = {2, 1, 1, (a_real)0.5, -4, 1, (a_real)0.25, (a_real)0.5, 8}, out[16];
    a_real *volatile vp = A;
    det_twice(vp, out);
    const double ln2 = 0.69314718055994530942;
    // det = product of the diagonal (LLT: its square), lndet = log|det|, sgndet = sign
    double want[16] = {-64, 6 * ln2, -1, -64, 6 * ln2, -1, 128, 7 * ln2, 1, 128, 7 * ln2, 1, 128.0 * 128.0, 14 * ln2, 4, 2 * ln2};
    static const char *FN[16] = {"a_real_plu_det", "a_real_plu_lndet", "a_real_plu_sgndet", "a_real_ldl_det", "a_real_ldl_lndet", "a_real_ldl_sgndet", "a_real_plu_det", "a_real_plu_lndet", "a_real_plu_sgndet",
                                 "a_real_ldl_det", "a_real_ldl_lndet", "a_real_ldl_sgndet", "a_real_llt_det", "a_real_llt_lndet", "a_real_llt_det", "a_real_llt_lndet"};
    for (int i = 0; i < 16; ++i)
    {
        ++n_eval;
        if (!(std::fabs((double)out[i] - want[i]) <= 16 * EPS * (std::fabs(want[i]) + 1))) { R.viol(std::string(FN[i]) + "|reread", std::string(FN[i]) + (i >= 6 ? " called again with the same pointer after the factor array changed in place" : " on factors with diagonal 2, -4, 8") + " returned " + num((double)out[i]) + ", the factors give " + num(want[i]), "{\"call\":" + std::to_string(i) + "}"); }
    }
}

int main(int argc, char **argv)
{
    vx::Args args(argc, argv);
    R.init(args);
    bool thorough = R.tier == "thorough";
    return vx::run_contained([&] {
        n_eval = n_nt = 0;
        uint64_t item = 0;
        reread();
        // ---- general matrices: all of order <= 3 over {-2..2}; order 4 over {-1,0,1}
        for (int n = 1; n <= 4; ++n)
        {
            int base = n <= 3 ? 5 : 3, off = n <= 3 ? 2 : 1;
            if (n == 4 && !thorough) { base = 2; off = 0; } // quick: all 0/1 matrices of order 4
            uint64_t total = 1;
            for (int i = 0; i < n * n; ++i) { total *= (uint64_t)base; }
            auto rhs = rhs_set(n, true);
            for (uint64_t code = 0; code < total; ++code)
            {
                if (!R.shard.mine(item++)) { continue; }
                Mat M;
                M.n = n;
                M.rs.assign((size_t)n, 0);
                M.cs.assign((size_t)n, 0);
                uint64_t c = code;
                for (int i = 0; i < n * n; ++i) { M.e.push_back((long)(c % (uint64_t)base) - off); c /= (uint64_t)base; }
                bool scale = n <= 2 || (n == 3 && (thorough ? code % 5 == 0 : code % 53 == 0)) || (n == 4 && code % 997 == 0);
                with_scalings(M, false, scale, [&](const Mat &S) { check_plu(S, S.scaled() ? rhs_set(n, false) : rhs); });
                R.tick();
            }
        }
        // ---- pivot-order family for orders 5 and 6: P * L * U with every permutation, so that every pivot order occurs
        for (int n = 5; n <= (thorough ? 6 : 5); ++n)
        {
            std::vector<int> perm((size_t)n);
            std::iota(perm.begin(), perm.end(), 0);
            do {
                if (!R.shard.mine(item++)) { continue; }
                for (int variant = 0; variant < 2; ++variant)
                {
                    // L unit lower with entries 0/1 (multipliers bounded by one), U upper with a dominant diagonal +-2 and entries -1..1
                    std::vector<long> L((size_t)(n * n), 0), U((size_t)(n * n), 0);
                    for (int i = 0; i < n; ++i)
                    {
                        L[(size_t)(i * n + i)] = 1;
                        for (int j = 0; j < i; ++j) { L[(size_t)(i * n + j)] = ((i * 7 + j * 3 + variant) % 3 == 0) ? 1 : 0; }
                        U[(size_t)(i * n + i)] = (i + variant) % 2 ? -2 : 2;
                        for (int j = i + 1; j < n; ++j) { U[(size_t)(i * n + j)] = (long)((i * 5 + j * 11 + variant) % 3) - 1; }
                    }
                    Mat M;
                    M.n = n;
                    M.rs.assign((size_t)n, 0);
                    M.cs.assign((size_t)n, 0);
                    M.e.assign((size_t)(n * n), 0);
                    for (int i = 0; i < n; ++i) { for (int j = 0; j < n; ++j) { long s = 0; for (int k = 0; k < n; ++k) { s += L[(size_t)(i * n + k)] * U[(size_t)(k * n + j)]; } M.e[(size_t)(perm[(size_t)i] * n + j)] = s; } }
                    check_plu(M, rhs_set(n, false));
                }
            } while (std::next_permutation(perm.begin(), perm.end()));
        }
        // ---- duplicated rows with pivot values v = 1..100 (for many of them v * (1/v) != 1, so an elimination that multiplies by the
        //      reciprocal of the pivot does not cancel the copy exactly); a third, independent row in every position
        for (int n = 2; n <= 3; ++n)
        {
            for (long v = 1; v <= 100; ++v)
            {
                if (!R.shard.mine(item++)) { continue; }
                for (int a = 0; a < n; ++a)
                {
                    for (int b = a + 1; b < n; ++b)
                    {
                        for (long sgn : {1L, -1L})
                        {
                            static const long DUP[3] = {0, 7, 3}, OTHER[3] = {1, 2, 5};
                            Mat M;
                            M.n = n;
                            M.rs.assign((size_t)n, 0);
                            M.cs.assign((size_t)n, 0);
                            M.e.assign((size_t)(n * n), 0);
                            for (int i = 0; i < n; ++i) { for (int j = 0; j < n; ++j) { M.e[(size_t)(i * n + j)] = (i == a || i == b) ? (j == 0 ? sgn * v : DUP[j]) : OTHER[j]; } }
                            check_plu(M, rhs_set(n, false));
                        }
                    }
                }
            }
        }
        // ---- named matrices of order 2..10: Pascal (symmetric positive definite, determinant 1, condition number ~16^n),
        //      Wilkinson's growth matrix (pivot growth 2^(n-1) under partial pivoting), the second-difference matrix (SPD, tridiagonal)
        //      and a Vandermonde matrix on 1..n (general, ill-conditioned); all with integer entries, so the classification stays exact
        for (int n = 2; n <= 10; ++n)
        {
            if (!R.shard.mine(item++)) { continue; }
            Mat P, W, T, V;
            for (Mat *M : {&P, &W, &T, &V}) { M->n = n; M->rs.assign((size_t)n, 0); M->cs.assign((size_t)n, 0); M->e.assign((size_t)(n * n), 0); }
            for (int i = 0; i < n; ++i)
            {
                for (int j = 0; j < n; ++j)
                {
                    P.e[(size_t)(i * n + j)] = (i == 0 || j == 0) ? 1 : P.e[(size_t)((i - 1) * n + j)] + P.e[(size_t)(i * n + j - 1)];
                    W.e[(size_t)(i * n + j)] = i == j ? 1 : (j == n - 1 ? 1 : (j < i ? -1 : 0));
                    T.e[(size_t)(i * n + j)] = i == j ? 2 : ((i - j == 1 || j - i == 1) ? -1 : 0);
                }
            }
            bool vand = n <= 7; // (i+1)^j stays below 2^53 / n for n <= 7
            if (vand) { for (int i = 0; i < n; ++i) { long p = 1; for (int j = 0; j < n; ++j) { V.e[(size_t)(i * n + j)] = p; p *= (i + 1); } } }
            auto rhs = rhs_set(n, false);
            with_scalings(P, true, true, [&](const Mat &X) { check_sym(X, rhs, false); check_sym(X, rhs, true); });
            with_scalings(T, true, true, [&](const Mat &X) { check_sym(X, rhs, false); check_sym(X, rhs, true); });
            with_scalings(P, false, n <= 6, [&](const Mat &X) { check_plu(X, rhs); });
            with_scalings(W, false, n <= 6, [&](const Mat &X) { check_plu(X, rhs); });
            with_scalings(T, false, n <= 6, [&](const Mat &X) { check_plu(X, rhs); });
            if (vand) { check_plu(V, rhs); }
        }
        uint64_t e1 = n_eval, t1 = n_nt;
        R.part(std::string("LU with partial pivoting: ALL matrices of order 1..3 over {-2..2} (5^9 for n=3), order 4 over ") + (thorough ? "{-1,0,1} (3^16)" : "{0,1} (2^16)") + ", P*L*U families of order 5" + (thorough ? " and 6" : "") + " under every row permutation; duplicated rows with pivot values 1..100; Pascal, Wilkinson growth, second-difference and Vandermonde matrices of order 2..10; uniform scalings 2^+-" + std::to_string(2 * UNISCALE) + "; row/column scalings by 2^+-20 and 2^+-" + std::to_string(BIGSCALE) + "; right-hand sides: unit vectors and all vectors over {-1,0,1}", e1, t1);
        // ---- symmetric matrices
        n_eval = n_nt = 0;
        for (int n = 1; n <= 4; ++n)
        {
            int base = (n <= 3 || thorough) ? 5 : 3, off = (n <= 3 || thorough) ? 2 : 1;
            int m = n * (n + 1) / 2;
            uint64_t total = 1;
            for (int i = 0; i < m; ++i) { total *= (uint64_t)base; }
            auto rhs = rhs_set(n, true);
            for (uint64_t code = 0; code < total; ++code)
            {
                if (!R.shard.mine(item++)) { continue; }
                Mat M;
                M.n = n;
                M.rs.assign((size_t)n, 0);
                M.cs.assign((size_t)n, 0);
                M.e.assign((size_t)(n * n), 0);
                uint64_t c = code;
                for (int i = 0; i < n; ++i) { for (int j = 0; j <= i; ++j) { long v = (long)(c % (uint64_t)base) - off; c /= (uint64_t)base; M.e[(size_t)(i * n + j)] = M.e[(size_t)(j * n + i)] = v; } }
                // Cholesky inputs: shift the diagonal so that positive definite matrices are frequent
                Mat S = M;
                for (int i = 0; i < n; ++i) { S.e[(size_t)(i * n + i)] += 3; }
                bool scale = n <= 2 || code % (thorough ? 7 : 61) == 0;
                with_scalings(M, true, scale, [&](const Mat &X) { check_sym(X, X.scaled() ? rhs_set(n, false) : rhs, false); });
                with_scalings(S, true, scale, [&](const Mat &X) { check_sym(X, X.scaled() ? rhs_set(n, false) : rhs, true); });
                with_scalings(M, true, false, [&](const Mat &X) { check_sym(X, rhs_set(n, false), true); });
                R.tick();
            }
        }
        // named Cholesky failures: L*L^T with the k-th pivot pushed to zero or below
        for (int n = 1; n <= 5; ++n)
        {
            if (R.shard.idx != 0) { break; }
            for (int k = 0; k < n; ++k)
            {
                for (long delta : {0L, 1L, 5L})
                {
                    Mat M;
                    M.n = n;
                    M.rs.assign((size_t)n, 0);
                    M.cs.assign((size_t)n, 0);
                    M.e.assign((size_t)(n * n), 0);
                    std::vector<long> L((size_t)(n * n), 0);
                    for (int i = 0; i < n; ++i) { L[(size_t)(i * n + i)] = 1 + i % 2; for (int j = 0; j < i; ++j) { L[(size_t)(i * n + j)] = (long)((i + 2 * j) % 3) - 1; } }
                    for (int i = 0; i < n; ++i) { for (int j = 0; j < n; ++j) { long s = 0; for (int t = 0; t < n; ++t) { s += L[(size_t)(i * n + t)] * L[(size_t)(j * n + t)]; } M.e[(size_t)(i * n + j)] = s; } }
                    M.e[(size_t)(k * n + k)] -= L[(size_t)(k * n + k)] * L[(size_t)(k * n + k)] + delta; // pivot k becomes -delta
                    check_sym(M, rhs_set(n, false), true);
                }
            }
        }
        R.part(std::string("LDL^T and Cholesky: ALL symmetric matrices of order 1..3 over {-2..2}, order 4 over ") + (thorough ? "{-2..2} (5^10)" : "{-1,0,1} (3^10)") + " (Cholesky also with the diagonal shifted by 3), symmetric scalings, named non-positive pivots at every position for orders 1..5", n_eval, n_nt);
        std::string w = "{\"plu_reconstruction\":" + num(worst[0]) + ",\"plu_solve\":" + num(worst[1]) + ",\"plu_inverse\":" + num(worst[2]) + ",\"sym_reconstruction\":" + num(worst[3]) + ",\"sym_solve\":" + num(worst[4]) + ",\"sym_inverse\":" + num(worst[5]) + "}";
        vx::info("worst_observed_eps", w);
        R.sample("{\"n\":3,\"entries\":[0,1,2,1,1,0,2,0,1],\"checks\":\"pivot vector is a permutation with matching parity, |l|<=1, P*A=L*U componentwise, solve residual, both inverses, det/lndet/sgndet vs exact Bareiss determinant\"}");
        R.finish(true, "every listed matrix enumerated");
    }, 120.0);
}
