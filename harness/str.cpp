// str.cpp — explicit-state exploration of the dynamic string (src/str.c, a_utf_catc/a_utf_len)
// against an abstract byte string.  C06 (and, with --faults 1, the string part of C07).
// DESIGN.md §4.C06.
//
// usage: str --mode rich|length|cmp --n N [--letters 4] [--faults 1] [--deadline S]
#include "../engine/xs.hpp"
#include "../engine/shim.hpp"
#include <algorithm>
#include <cstdarg>
#include <sys/mman.h>

extern "C" {
#include "a/str.h"
#include "a/utf.h"
}

struct Ck
{
    std::string cls, err;
    bool fail(const char *c, const std::string &d)
    {
        if (err.empty()) { cls = c; err = std::string(c) + ": " + d; }
        return false;
    }
    bool ok() const { return err.empty(); }
};

enum
{
    S_CATC = 1, S_CATC_, S_CATN, S_CATN_, S_CATS, S_CATS_, S_CAT, S_CAT_, S_GETC, S_GETC_, S_GETN, S_GETN_,
    S_RTRIM, S_RTRIM_, S_LTRIM, S_LTRIM_, S_TRIM, S_TRIM_, S_SETN, S_SETN_, S_SETM, S_EXIT, S_SWAP, S_UTF_CATC, S_UTF_LEN, S_CATF, S_ACCESS, S_SETM_RAW, S_DIE
};
static const char *s_names[] = {"?", "catc", "catc_", "catn", "catn_", "cats", "cats_", "cat", "cat_", "getc", "getc_", "getn", "getn_",
                                "rtrim", "rtrim_", "ltrim", "ltrim_", "trim", "trim_", "setn", "setn_", "setm", "exit", "swap", "utf_catc", "utf_len", "catf", "access", "setm_", "die"};
static bool terminating(int code)
{
    switch (code)
    {
    case S_CATC: case S_CATN: case S_CATS: case S_CAT: case S_GETC: case S_GETN: case S_RTRIM: case S_LTRIM: case S_TRIM: case S_UTF_CATC: case S_CATF: return true;
    }
    return false;
}
static bool always_terminates(int code)
{
    switch (code)
    {
    case S_CATC: case S_CATN: case S_CATS: case S_CAT: case S_UTF_CATC: case S_CATF: return true;
    }
    return false;
}

static const unsigned char LETTERS[4] = {'a', ' ', 0x00, 0xE9};
static const uint32_t CPS[] = {0, 0x80000000u, 1, 0x41, 0x7F, 0x80, 0x7FF, 0x800, 0xFFFF, 0x10000, 0x1FFFFF, 0x200000, 0x3FFFFFF, 0x4000000, 0x7FFFFFFF};
// trim sets: 0 = default (isspace), then explicit sets (length-delimited, may contain NUL)
static const char *TRIMSET[4] = {"", "a", " \0", "\xE9" "a"};
static const size_t TRIMLEN[4] = {0, 1, 2, 2};

// independent reference UTF-8 encoder (table of the classical 1..6 byte forms)
static std::string ref_utf8(uint32_t c)
{
    std::string s;
    c &= 0x7FFFFFFF;
    if (c == 0) { return s; } // U+0000 encodes to nothing (the library's convention); the string must still end up terminated
    if (c < 0x80) { s += (char)c; }
    else if (c < 0x800) { s += (char)(0xC0 | (c >> 6)); s += (char)(0x80 | (c & 0x3F)); }
    else if (c < 0x10000) { s += (char)(0xE0 | (c >> 12)); s += (char)(0x80 | ((c >> 6) & 0x3F)); s += (char)(0x80 | (c & 0x3F)); }
    else if (c < 0x200000) { s += (char)(0xF0 | (c >> 18)); s += (char)(0x80 | ((c >> 12) & 0x3F)); s += (char)(0x80 | ((c >> 6) & 0x3F)); s += (char)(0x80 | (c & 0x3F)); }
    else if (c < 0x4000000) { s += (char)(0xF8 | (c >> 24)); s += (char)(0x80 | ((c >> 18) & 0x3F)); s += (char)(0x80 | ((c >> 12) & 0x3F)); s += (char)(0x80 | ((c >> 6) & 0x3F)); s += (char)(0x80 | (c & 0x3F)); }
    else { s += (char)(0xFC | (c >> 30)); s += (char)(0x80 | ((c >> 24) & 0x3F)); s += (char)(0x80 | ((c >> 18) & 0x3F)); s += (char)(0x80 | ((c >> 12) & 0x3F)); s += (char)(0x80 | ((c >> 6) & 0x3F)); s += (char)(0x80 | (c & 0x3F)); }
    return s;
}
static bool in_set(unsigned char c, int set)
{
    if (set == 0) { return c == ' ' || (c >= '\t' && c <= '\r'); } // isspace in the "C" locale
    return memchr(TRIMSET[set], c, TRIMLEN[set]) != nullptr;
}

struct Live
{
    a_str *s = nullptr, *aux = nullptr;
    std::string m; // the abstract byte string
    bool term = false;
};

struct Harness
{
    int N = 5;
    int nletters = 4;
    bool length_mode = false;
    size_t memcap = 24;
    bool faults = false;
    std::string job;
    const std::vector<xs::Op> *via_api = nullptr;
    uint64_t fault_runs = 0;

    static bool is_term(const a_str *s) { return s->ptr_ && s->num_ < s->mem_ && s->ptr_[s->num_] == 0; }
    static std::string encode(const Live &L)
    {
        std::string k;
        k += (char)L.s->mem_;
        k += (char)0; // whether a NUL happens to follow the content is NOT state: it depends on bytes in spare capacity left by earlier history
        if (L.s->ptr_) { k.append(L.s->ptr_, L.s->num_ <= L.s->mem_ ? L.s->num_ : L.s->mem_); }
        return k;
    }
    std::string init_key()
    {
        shim::reset();
        Live L;
        L.s = a_str_new();
        return encode(L);
    }
    static std::string show(const std::string &b)
    {
        std::string s;
        for (unsigned char c : b)
        {
            if (c >= 0x21 && c < 0x7f && c != '\\') { s += (char)c; }
            else { char t[8]; snprintf(t, sizeof t, "\\x%02X", c); s += t; }
        }
        return s;
    }
    std::string key_str(const std::string &k) const
    {
        std::string body = k.substr(2);
        if (length_mode) { body = "x*" + std::to_string(body.size()); }
        return "str{mem=" + std::to_string((unsigned char)k[0]) + " \"" + (length_mode ? body : show(body)) + "\"}";
    }
    // blocks: index -> byte string.  rich mode: all strings of length 0..2 over the letters; length mode: 'x' * idx
    std::string block(long idx) const
    {
        if (length_mode) { return std::string((size_t)idx, 'x'); }
        if (idx == 0) { return ""; }
        if (idx <= nletters) { return std::string(1, (char)LETTERS[idx - 1]); }
        long j = idx - 1 - nletters;
        std::string s;
        s += (char)LETTERS[j / nletters];
        s += (char)LETTERS[j % nletters];
        return s;
    }
    long nblocks() const { return length_mode ? 18 : 1 + nletters + nletters * nletters; }
    std::string op_str(const xs::Op &o) const
    {
        std::string s = s_names[o.code];
        switch (o.code)
        {
        case S_CATC: case S_CATC_: return s + "(0x" + show(std::string(1, (char)o.a)).substr(0, 6) + ")";
        case S_CATN: case S_CATN_: case S_CATS: case S_CATS_: case S_CAT: case S_CAT_: return s + "(\"" + (length_mode ? "x*" + std::to_string(o.a) : show(block(o.a))) + "\")";
        case S_GETN: case S_GETN_: return s + "(" + std::to_string(o.a) + (o.b ? ",buf)" : ",NULL)");
        case S_RTRIM: case S_RTRIM_: case S_LTRIM: case S_LTRIM_: case S_TRIM: case S_TRIM_: return s + "(set=" + (o.a ? "\"" + show(std::string(TRIMSET[o.a], TRIMLEN[o.a])) + "\"" : "isspace") + ")";
        case S_SETN: case S_SETN_: case S_SETM: case S_SETM_RAW: return s + "(" + std::to_string(o.a) + ")";
        case S_UTF_CATC: { char t[16]; snprintf(t, sizeof t, "U+%X", (unsigned)o.a); return s + "(" + t + ")"; }
        case S_CATF: return s + "(fmt#" + std::to_string(o.a) + ",arglen=" + std::to_string(o.b) + ")";
        }
        return s;
    }
    std::string op_sig(const xs::Op &o, const std::string &) const { return std::string("str|") + s_names[o.code]; }

    void decode(Live &L, const std::string &key)
    {
        size_t mem = (unsigned char)key[0];
        L.s = (a_str *)a_alloc(nullptr, sizeof(a_str));
        a_str_ctor(L.s);
        L.m = key.substr(2);
        if (mem)
        {
            L.s->ptr_ = (char *)a_alloc(nullptr, mem);
            L.s->mem_ = mem;
            memcpy(L.s->ptr_, L.m.data(), L.m.size());
            L.s->num_ = L.m.size();
        }
    }
    void make(Live &L, const std::string &key)
    {
        shim::reset();
        if (!via_api) { decode(L, key); return; }
        std::string err;
        if (!api_build(L, *via_api, err) || encode(L) != key) { fprintf(stderr, "replay: cannot rebuild state (%s)\n", err.c_str()); _exit(4); }
    }
    void destroy(Live &L, Ck &ck)
    {
        a_str_die(L.s);
        L.s = nullptr;
        if (L.aux) { a_str_die(L.aux); L.aux = nullptr; }
        if (shim::st().live_blocks != 0) { ck.fail("leak", std::to_string(shim::st().live_blocks) + " block(s) still allocated after the string was destroyed"); }
        if (!shim::st().error.empty()) { ck.fail("memory", shim::st().error); }
    }
    static bool check_state(const Live &L, Ck &ck)
    {
        const a_str *s = L.s;
        if (s->num_ > s->mem_) { return ck.fail("length-exceeds-capacity", "length " + std::to_string(s->num_) + " > capacity " + std::to_string(s->mem_)); }
        if (s->mem_ && (!shim::is_live(s->ptr_) || shim::size_of(s->ptr_) < s->mem_)) { return ck.fail("capacity-not-owned", "the string claims " + std::to_string(s->mem_) + " bytes but owns " + std::to_string(shim::size_of(s->ptr_))); }
        if (s->num_ != L.m.size()) { return ck.fail("length", "string holds " + std::to_string(s->num_) + " bytes, abstract string " + std::to_string(L.m.size())); }
        if (s->num_ && memcmp(s->ptr_, L.m.data(), s->num_) != 0) { return ck.fail("contents", "content \"" + show(std::string(s->ptr_, s->num_)) + "\" differs from the abstract string \"" + show(L.m) + "\""); }
        if (!shim::check()) { return ck.fail("memory", shim::st().error); }
        return true;
    }

    static const char *fmt_of(long f)
    {
        static const char *F[] = {"", "%s", "%d", "%c", "%5s|", "%s%s", "%s%lc"};
        return F[f];
    }
    // executes a formatted append and returns the library's result; `expect` receives what the C formatter produces
    bool catf_refused = false;
    int do_catf(a_str *s, long f, long arglen, std::string &expect)
    {
        std::string arg((size_t)arglen, 'x');
        char buf[128];
        int n = 0, r = 0;
        switch (f)
        {
        case 0: n = snprintf(buf, sizeof buf, "%s", ""); r = a_str_catf(s, "%s", ""); break; // an empty format string trips -Wformat-zero-length; "%s" with "" is the same text
        case 1: n = snprintf(buf, sizeof buf, "%s", arg.c_str()); r = a_str_catf(s, "%s", arg.c_str()); break;
        case 2: n = snprintf(buf, sizeof buf, "%d", (int)(arglen * 1234567 - 40000)); r = a_str_catf(s, "%d", (int)(arglen * 1234567 - 40000)); break;
        case 3: n = snprintf(buf, sizeof buf, "%c", 0); r = a_str_catf(s, "%c", 0); break;
        case 4: n = snprintf(buf, sizeof buf, "%5s|", arg.c_str()); r = a_str_catf(s, "%5s|", arg.c_str()); break;
        case 5: n = snprintf(buf, sizeof buf, "%s%s", arg.c_str(), "x"); r = a_str_catf(s, "%s%s", arg.c_str(), "x"); break;
        // a conversion the C formatter itself refuses (a wide character with no multibyte form in the "C" locale): it reports a negative length
        case 6: n = snprintf(buf, sizeof buf, "%s%lc", arg.c_str(), (wint_t)0x20AC); r = a_str_catf(s, "%s%lc", arg.c_str(), (wint_t)0x20AC); break;
        }
        catf_refused = n < 0;
        expect.assign(buf, n < 0 ? 0 : (size_t)n);
        return r;
    }

    // one call on the live object in lock-step with the model.  `probe` is set for operations whose result leaves the
    // alphabet (code points, formatted numbers): they are executed and checked but their successor is not explored.
    void apply(Live &L, const xs::Op &o, Ck &ck, std::string &outcome, bool &probe)
    {
        a_str *s = L.s;
        std::string &m = L.m;
        std::string before = m;
        // the explored state abstracts from the byte after the content; a refused formatted append is judged on the concretisation every
        // terminating operation produces (a NUL there)
        if (o.code == S_CATF && o.a == 6 && s->ptr_ && s->num_ < s->mem_) { s->ptr_[s->num_] = 0; }
        bool was_term = is_term(s), refused = false;
        probe = false;
        outcome = "ok";
        unsigned char buf[512];
        memset(buf, 0x3C, sizeof buf);
        switch (o.code)
        {
        case S_CATC: case S_CATC_:
        {
            int r = o.code == S_CATC ? a_str_catc(s, (int)o.a) : a_str_catc_(s, (int)o.a);
            if (r != (int)o.a) { ck.fail("return", "catc returned " + std::to_string(r)); return; }
            m += (char)o.a;
            break;
        }
        case S_CATN: case S_CATN_: case S_CATS: case S_CATS_: case S_CAT: case S_CAT_:
        {
            std::string b = block(o.a);
            int rc;
            if (o.code == S_CATN) { rc = a_str_catn(s, b.data(), b.size()); }
            else if (o.code == S_CATN_) { rc = a_str_catn_(s, b.data(), b.size()); }
            else if (o.code == S_CATS) { rc = a_str_cats(s, b.c_str()); b = b.c_str(); }
            else if (o.code == S_CATS_) { rc = a_str_cats_(s, b.c_str()); b = b.c_str(); }
            else
            {
                L.aux = a_str_new();
                if (!b.empty()) { a_str_catn_(L.aux, b.data(), b.size()); }
                rc = o.code == S_CAT ? a_str_cat(s, L.aux) : a_str_cat_(s, L.aux);
            }
            if (rc != A_SUCCESS) { ck.fail("refused", std::string(s_names[o.code]) + " failed (rc " + std::to_string(rc) + ")"); return; }
            outcome = b.empty() ? "empty" : (s->mem_ > (unsigned char)0 ? "appended" : "appended");
            m += b;
            break;
        }
        case S_GETC: case S_GETC_:
        {
            int r = o.code == S_GETC ? a_str_getc(s) : a_str_getc_(s);
            if (m.empty())
            {
                outcome = "empty";
                if (r != ~0) { ck.fail("return", "getc on an empty string returned " + std::to_string(r)); return; }
                break;
            }
            if ((unsigned char)r != (unsigned char)m.back()) { ck.fail("return", "getc did not return the popped byte"); return; }
            m.pop_back();
            break;
        }
        case S_GETN: case S_GETN_:
        {
            size_t k = (size_t)o.a;
            a_size r = o.code == S_GETN ? a_str_getn(s, o.b ? buf : nullptr, k) : a_str_getn_(s, o.b ? buf : nullptr, k);
            size_t want = k < m.size() ? k : m.size();
            outcome = want == 0 ? "nothing" : want < k ? "clamped" : "popped";
            if (r != want) { ck.fail("return", "getn(" + std::to_string(k) + ") returned " + std::to_string(r) + " with " + std::to_string(m.size()) + " bytes stored"); return; }
            if (o.b && want && memcmp(buf, m.data() + m.size() - want, want) != 0) { ck.fail("copied", "getn did not copy the popped tail"); return; }
            if (o.b && buf[want] != 0x3C) { ck.fail("copied", "getn wrote beyond the requested bytes of the client buffer"); return; }
            m.erase(m.size() - want);
            break;
        }
        case S_RTRIM: case S_RTRIM_: case S_LTRIM: case S_LTRIM_: case S_TRIM: case S_TRIM_:
        {
            int set = (int)o.a;
            const char *p = TRIMLEN[set] ? TRIMSET[set] : nullptr;
            size_t n = TRIMLEN[set];
            switch (o.code)
            {
            case S_RTRIM: a_str_rtrim(s, p, n); break;
            case S_RTRIM_: a_str_rtrim_(s, p, n); break;
            case S_LTRIM: a_str_ltrim(s, p, n); break;
            case S_LTRIM_: a_str_ltrim_(s, p, n); break;
            case S_TRIM: a_str_trim(s, p, n); break;
            case S_TRIM_: a_str_trim_(s, p, n); break;
            }
            bool right = o.code == S_RTRIM || o.code == S_RTRIM_ || o.code == S_TRIM || o.code == S_TRIM_;
            bool left = o.code == S_LTRIM || o.code == S_LTRIM_ || o.code == S_TRIM || o.code == S_TRIM_;
            if (right) { while (!m.empty() && in_set((unsigned char)m.back(), set)) { m.pop_back(); } }
            if (left) { size_t i = 0; while (i < m.size() && in_set((unsigned char)m[i], set)) { ++i; } m.erase(0, i); }
            outcome = m.size() == before.size() ? "nothing" : m.empty() ? "all" : "some";
            break;
        }
        case S_SETN:
        {
            size_t k = (size_t)o.a;
            int rc = a_str_setn(s, k);
            if (k > s->mem_)
            {
                outcome = "out-of-bounds";
                if (rc != A_OBOUNDS) { ck.fail("return", "setn beyond the capacity did not report A_OBOUNDS"); return; }
                break;
            }
            if (rc != A_SUCCESS) { ck.fail("refused", "setn within the capacity failed"); return; }
            outcome = k < m.size() ? "shrunk" : k == m.size() ? "same" : "grown";
            while (m.size() > k) { m.pop_back(); }
            while (m.size() < k) { s->ptr_[m.size()] = length_mode ? 'x' : 'a'; m += length_mode ? 'x' : 'a'; } // the client fills the bytes it exposed
            break;
        }
        case S_SETN_:
        {
            size_t k = (size_t)o.a;
            a_str_setn_(s, k);
            outcome = k < m.size() ? "shrunk" : "same";
            while (m.size() > k) { m.pop_back(); }
            break;
        }
        case S_SETM:
        {
            int rc = a_str_setm(s, (a_size)o.a);
            if (rc != A_SUCCESS) { ck.fail("refused", "setm failed"); return; }
            if (s->mem_ < (size_t)o.a) { ck.fail("capacity", "setm(" + std::to_string(o.a) + ") left capacity " + std::to_string(s->mem_)); return; }
            // the NUL a terminating variant left after the content survives a change of capacity that still has room for it
            if (was_term && s->num_ < s->mem_ && !is_term(s)) { ck.fail("terminator-lost", "setm(" + std::to_string(o.a) + ") on a terminated string left the byte directly after the content non-NUL"); return; }
            break;
        }
        case S_SETM_RAW:
        {
            // the raw capacity setter, within its contract: a capacity that still holds the content and its terminator, or 0 on an
            // empty string (which releases the storage)
            int rc = a_str_setm_(s, (a_size)o.a);
            if (rc != A_SUCCESS) { ck.fail("refused", "setm_(" + std::to_string(o.a) + ") reported failure although no allocation failed"); return; }
            if (o.a == 0 && (s->ptr_ || s->mem_)) { ck.fail("capacity", "setm_(0) on an empty string did not release the storage"); return; }
            if (s->mem_ < (size_t)o.a) { ck.fail("capacity", "setm_(" + std::to_string(o.a) + ") left capacity " + std::to_string(s->mem_)); return; }
            if (was_term && s->num_ < s->mem_ && !is_term(s)) { ck.fail("terminator-lost", "setm_(" + std::to_string(o.a) + ") on a terminated string left the byte directly after the content non-NUL"); return; }
            break;
        }
        case S_EXIT:
        {
            // ownership hand-over: the returned block is the client's, a NUL-terminated C string with the former content
            char *p = a_str_exit(s);
            probe = false;
            if (before.empty() && !p) { outcome = "no-storage"; }
            else
            {
                outcome = "handed-over";
                if (!p) { ck.fail("refused", "exit returned null for a non-empty string"); return; }
                if (!shim::is_live(p)) { ck.fail("exit-pointer", "exit returned a pointer that is not a live allocated block"); return; }
                if (shim::size_of(p) < before.size() + 1) { ck.fail("exit-overflow", "the block handed over holds " + std::to_string(shim::size_of(p)) + " bytes: no room for the terminator after " + std::to_string(before.size()) + " bytes of content"); return; }
                if (memcmp(p, before.data(), before.size()) != 0 || p[before.size()] != 0) { ck.fail("exit-contents", "the C string handed over is not the content followed by NUL"); return; }
                if (!shim::check()) { ck.fail("exit-overflow", shim::st().error); return; }
                a_alloc(p, 0);
            }
            if (s->ptr_ || s->num_ || s->mem_) { ck.fail("exit-not-empty", "the object is not empty after exit"); return; }
            m.clear();
            break;
        }
        case S_SWAP:
        {
            L.aux = a_str_new();
            a_str_cats(L.aux, length_mode ? "xx" : "a a");
            a_str_swap(s, L.aux);
            std::string am = length_mode ? "xx" : "a a";
            Live X;
            X.s = L.aux;
            X.m = m;
            Ck c2;
            if (!check_state(X, c2)) { ck.fail("swap", "after swap the other string does not hold this string's former content: " + c2.err); return; }
            m = am;
            break;
        }
        case S_UTF_CATC:
        {
            int rc = a_utf_catc(s, (a_u32)o.a);
            if (rc != A_SUCCESS) { ck.fail("refused", "utf_catc failed"); return; }
            m += ref_utf8((uint32_t)o.a);
            probe = !(o.a == 0x41 && !length_mode);
            break;
        }
        case S_UTF_LEN:
        {
            a_size stop = 777;
            a_size n = a_utf_len(s, &stop);
            // all letters are single bytes except 0xE9 (a lead byte needing one continuation) and NUL (stops)
            size_t cnt = 0, i = 0;
            while (i < m.size())
            {
                unsigned char c = (unsigned char)m[i];
                if (c == 0) { break; }
                if (c < 0x80) { ++i; ++cnt; continue; }
                if (c >= 0xC0 && c < 0xE0 && i + 1 < m.size() && ((unsigned char)m[i + 1] & 0xC0) == 0x80) { i += 2; ++cnt; continue; }
                if (c >= 0xE0 && c < 0xF0)
                {
                    if (i + 2 < m.size() && ((unsigned char)m[i + 1] & 0xC0) == 0x80 && ((unsigned char)m[i + 2] & 0xC0) == 0x80) { i += 3; ++cnt; continue; }
                }
                break;
            }
            if (n != cnt || stop != i) { ck.fail("utf-len", "a_utf_len counted " + std::to_string(n) + " code points and stopped at " + std::to_string(stop) + ", expected " + std::to_string(cnt) + " / " + std::to_string(i)); return; }
            // the count does not depend on whether the caller asks for the stop offset
            a_size n0 = a_utf_len(s, nullptr);
            if (n0 != cnt) { ck.fail("utf-len", "a_utf_len without a stop pointer counted " + std::to_string(n0) + " code points, with one " + std::to_string(n)); return; }
            break;
        }
        case S_CATF:
        {
            std::string expect;
            size_t room = s->mem_ - s->num_;
            int r = do_catf(s, o.a, o.b, expect);
            outcome = expect.size() + 1 <= room ? "one-pass" : "two-pass";
            if (catf_refused)
            {
                // the formatter produced nothing: nothing is appended (the state check below compares content and length) and no length is reported
                outcome = "formatter-refused";
                refused = true;
                if (r > 0) { ck.fail("catf-return", "catf returned " + std::to_string(r) + " although the C formatter reported a failure"); return; }
                probe = true;
                break;
            }
            if (r != (int)expect.size()) { ck.fail("catf-return", "catf returned " + std::to_string(r) + ", the C formatter produces " + std::to_string(expect.size()) + " bytes"); return; }
            m += expect;
            probe = !(length_mode && (o.a == 0 || o.a == 1 || o.a == 5));
            break;
        }
        }
        if (ck.ok() && !check_state(L, ck)) { return; }
        if (ck.ok() && terminating(o.code) && s->ptr_)
        {
            bool changed = m != before;
            // an append the formatter refused is a no-op: it need not establish the terminator, but it must not destroy one
            if ((changed || (refused ? was_term : always_terminates(o.code))) && !is_term(s))
            {
                ck.fail("not-terminated", s->num_ >= s->mem_ ? "no room for a NUL after the content inside the capacity (length " + std::to_string(s->num_) + ", capacity " + std::to_string(s->mem_) + ")" : "the byte after the content is not NUL");
            }
        }
    }

    std::vector<xs::Op> menu(const std::string &key) const
    {
        size_t mem = (unsigned char)key[0], num = key.size() - 2;
        std::vector<xs::Op> ops;
        auto add = [&](int code, long a = 0, long b = 0, long c = 0) { ops.push_back(xs::Op{code, a, b, c}); };
        if (!length_mode)
        {
            for (int i = 0; i < nletters; ++i) { if (num + 1 <= (size_t)N) { add(S_CATC, LETTERS[i]); add(S_CATC_, LETTERS[i]); } }
            for (long b = 0; b < nblocks(); ++b)
            {
                size_t bl = block(b).size();
                if (num + bl > (size_t)N) { continue; }
                add(S_CATN, b); add(S_CATN_, b);
                if (block(b).find('\0') == std::string::npos) { add(S_CATS, b); add(S_CATS_, b); }
                if (b % 3 == 0 || bl < 2) { add(S_CAT, b); add(S_CAT_, b); }
            }
            for (long set = 0; set < 4; ++set) { for (int c = S_RTRIM; c <= S_TRIM_; ++c) { add(c, set); } }
            for (size_t i = 0; i < sizeof CPS / sizeof *CPS; ++i) { if (num + 1 <= (size_t)N) { add(S_UTF_CATC, (long)CPS[i]); } }
            add(S_UTF_LEN);
            for (long f = 0; f <= 5; ++f) { add(S_CATF, f, 3); }
            add(S_CATF, 6, 0); add(S_CATF, 6, 2);
        }
        else
        {
            if (num + 1 <= (size_t)N) { add(S_CATC, 'x'); add(S_CATC_, 'x'); }
            for (long b = 0; b <= 17; ++b)
            {
                if (num + (size_t)b > (size_t)N) { continue; }
                add(S_CATN, b); add(S_CATN_, b); add(S_CATS, b); add(S_CATS_, b);
                if (b % 4 == 1) { add(S_CAT, b); add(S_CAT_, b); }
                add(S_CATF, 1, b);
                if (num + (size_t)b + 1 <= (size_t)N) { add(S_CATF, 5, b); }
                add(S_CATF, 4, b);
            }
            add(S_CATF, 0, 0); add(S_CATF, 2, 1); add(S_CATF, 2, 0); add(S_CATF, 3, 0); add(S_CATF, 6, 0); add(S_CATF, 6, 1);
            add(S_UTF_CATC, 0x10000); add(S_UTF_CATC, 0x7FFFFFFF);
            add(S_RTRIM, 1); add(S_TRIM, 0); add(S_LTRIM_, 0);
        }
        add(S_GETC); add(S_GETC_);
        {
            long ks[5] = {0, 1, 2, (long)num, (long)num + 1};
            for (int i = 0; i < 5; ++i) { for (int b = 0; b < 2; ++b) { add(S_GETN, ks[i], b); add(S_GETN_, ks[i], b); } }
        }
        for (size_t k = 0; k <= mem + 1; ++k)
        {
            if (k > num && k > (size_t)N) { if (k <= mem) { continue; } }
            if (length_mode && k > num + 2 && k < mem) { continue; }
            add(S_SETN, (long)k);
        }
        for (size_t k = 0; k <= num; ++k) { if (!length_mode || k + 2 >= num || k == 0) { add(S_SETN_, (long)k); } }
        add(S_SETM, 0); add(S_SETM, (long)num + 1);
        add(S_SETM_RAW, (long)num + 1);
        if (num == 0) { add(S_SETM_RAW, 0); }
        if (mem < memcap) { add(S_SETM, (long)mem + 1); }
        add(S_EXIT); add(S_SWAP);
        return ops;
    }

    void expand(const std::string &key, uint32_t, xs::Sink &out)
    {
        for (const xs::Op &o : menu(key))
        {
            if (!out.enter(o)) { continue; }
            Live L;
            make(L, key);
            Ck ck;
            std::string outcome;
            bool probe = false;
            apply(L, o, ck, outcome, probe);
            std::string k2;
            if (ck.ok()) { k2 = encode(L); destroy(L, ck); }
            out.leave();
            if (!ck.ok())
            {
                std::string cap = (key.size() - 2 == (size_t)(unsigned char)key[0] && key[0]) ? "exactly-full" : "spare";
                out.viol(o, std::string("str|") + s_names[o.code] + "|" + cap + "|" + ck.cls, op_str(o) + " on " + key_str(key) + ": " + ck.err);
                continue;
            }
            out.succ(o, probe ? key : k2, s_names[o.code], (outcome + (probe ? "/probe" : "")).c_str());
        }
        {
            xs::Op o{S_ACCESS, 0, 0, 0};
            if (out.enter(o))
            {
                Live L;
                make(L, key);
                Ck ck;
                a_str *s = L.s;
                long num = (long)s->num_, mem = (long)s->mem_;
                if (a_str_ptr(s) != s->ptr_ || a_str_len(s) != s->num_ || a_str_mem(s) != s->mem_) { ck.fail("accessor", "ptr/len/mem"); }
                for (long i = -num - 1; i <= mem + 1 && ck.ok(); ++i)
                {
                    if (i >= 0 && a_str_at(s, (a_size)i) != (i < mem ? s->ptr_ + i : nullptr)) { ck.fail("accessor-at", "at(" + std::to_string(i) + ")"); }
                    if (i >= 0 && i < mem && a_str_at_(s, (a_size)i) != s->ptr_ + i) { ck.fail("accessor-at", "at_(" + std::to_string(i) + ")"); }
                    size_t k = i >= 0 ? (size_t)i : (size_t)i + (size_t)num;
                    if (a_str_of(s, (a_diff)i) != (k < (size_t)mem ? s->ptr_ + k : nullptr)) { ck.fail("accessor-of", "of(" + std::to_string(i) + ")"); }
                }
                if (ck.ok() && encode(L) != key) { ck.fail("accessor", "accessors changed the string"); }
                if (ck.ok()) { destroy(L, ck); }
                out.leave();
                if (!ck.ok()) { out.viol(o, std::string("str|access|") + ck.cls, "accessors on " + key_str(key) + ": " + ck.err); }
                else { out.succ(o, key, "access", "all-indices"); }
            }
        }
        if (faults) { expand_faults(key, out); }
    }

    // ---- C07 (string part)
    bool call_expect_failure(Live &L, const xs::Op &o)
    {
        a_str *s = L.s;
        std::string b = (o.code >= S_CATN && o.code <= S_CAT_) ? block(o.a) : "";
        std::string expect;
        switch (o.code)
        {
        case S_CATC: return a_str_catc(s, (int)o.a) == ~0;
        case S_CATC_: return a_str_catc_(s, (int)o.a) == ~0;
        case S_CATN: return a_str_catn(s, b.data(), b.size()) == A_OMEMORY;
        case S_CATN_: return a_str_catn_(s, b.data(), b.size()) == A_OMEMORY;
        case S_CATS: return a_str_cats(s, b.c_str()) == A_OMEMORY;
        case S_CATS_: return a_str_cats_(s, b.c_str()) == A_OMEMORY;
        case S_CAT: case S_CAT_:
        {
            shim::disarm();
            L.aux = a_str_new();
            if (!b.empty()) { a_str_catn_(L.aux, b.data(), b.size()); }
            shim::st().fail_at = armed_k;
            shim::st().fail_from = armed_from;
            shim::st().requests = 0;
            return (o.code == S_CAT ? a_str_cat(s, L.aux) : a_str_cat_(s, L.aux)) == A_OMEMORY;
        }
        case S_SETM: return a_str_setm(s, (a_size)o.a) == A_OMEMORY;
        case S_SETM_RAW: return a_str_setm_(s, (a_size)o.a) == A_OMEMORY;
        case S_EXIT: return a_str_exit(s) == nullptr; // needs room for the terminator when the content fills the capacity
        case S_UTF_CATC: return a_utf_catc(s, (a_u32)o.a) == A_OMEMORY;
        case S_CATF: return do_catf(s, o.a, o.b, expect) == 0;
        case S_SWAP: { a_str *x = a_str_new(); if (x) { a_str_die(x); } return x == nullptr; }
        }
        return true;
    }
    long armed_k = -1;
    bool armed_from = false;
    void expand_faults(const std::string &key, xs::Sink &out)
    {
        // destruction (and the hand-over of a terminated string) while the allocator refuses everything: neither needs memory
        {
            xs::Op tag{S_DIE, 0, 0, 0};
            if (out.enter(tag))
            {
                Live L;
                make(L, key);
                Ck ck;
                ++fault_runs;
                shim::arm(0, true);
                a_str_die(L.s);
                shim::disarm();
                L.s = nullptr;
                if (L.aux) { a_str_die(L.aux); L.aux = nullptr; }
                if (shim::st().live_blocks != 0) { ck.fail("leak", std::to_string(shim::st().live_blocks) + " block(s) still allocated after the string was destroyed"); }
                else if (!shim::st().error.empty()) { ck.fail("memory", shim::st().error); }
                out.leave();
                if (!ck.ok()) { out.viol(tag, std::string("str|die|oom@all|") + ck.cls, "every allocation request fails during the destruction of " + key_str(key) + ": " + ck.err); }
                else { out.succ(tag, key, "oom", "die"); }
            }
        }
        for (const xs::Op &o : menu(key))
        {
            long requests;
            std::string succ_key;
            {
                Live L;
                make(L, key);
                Ck ck;
                std::string oc;
                bool probe;
                long r0 = shim::st().total_requests;
                if (o.code == S_CAT || o.code == S_CAT_ || o.code == S_SWAP)
                {
                    // count only the requests of the call under test, not the construction of the second object
                    apply(L, o, ck, oc, probe);
                    requests = o.code == S_SWAP ? 1 : (shim::st().total_requests - r0) - (block(o.a).empty() ? 1 : 2);
                }
                else
                {
                    apply(L, o, ck, oc, probe);
                    requests = shim::st().total_requests - r0;
                }
                if (!ck.ok() || requests <= 0) { continue; }
                succ_key = encode(L);
            }
            for (long k = 0; k < requests; ++k)
            {
                for (int from = 0; from < 2; ++from)
                {
                    if (from && k == requests - 1) { continue; }
                    xs::Op tag{o.code, o.a, o.b, o.c + 1000 * (1 + k) + 100000 * from};
                    if (!out.enter(tag)) { continue; }
                    Live L;
                    make(L, key);
                    std::string before = L.m;
                    Ck ck;
                    ++fault_runs;
                    armed_k = k;
                    armed_from = from != 0;
                    // the explored state abstracts from the byte after the content; here it is the NUL every terminating operation leaves there
                    if (L.s->ptr_ && L.s->num_ < L.s->mem_) { L.s->ptr_[L.s->num_] = 0; }
                    bool was_term = is_term(L.s);
                    shim::arm(k, from != 0);
                    bool reported = call_expect_failure(L, o);
                    shim::disarm();
                    std::string why = std::string("allocation request #") + std::to_string(k) + (from ? " and all later ones fail" : " fails") + " during " + op_str(o) + " on " + key_str(key) + ": ";
                    if (!reported) { ck.fail("failure-not-reported", "the operation did not report the failure through its return value"); }
                    // a string that was NUL-terminated stays so: the byte directly after the content is what a_str_ptr() readers stop at
                    if (ck.ok() && was_term && !is_term(L.s)) { ck.fail("terminator-lost", "the failed operation left the byte directly after the content non-NUL: the string reads longer than it is"); }
                    if (ck.ok())
                    {
                        L.m = before;
                        if (check_state(L, ck) && encode(L).substr(2) != key.substr(2)) { ck.fail("state-changed", "the string does not hold its previous content after the failed operation"); }
                        if (ck.ok() && L.s->mem_ != (size_t)(unsigned char)key[0]) { ck.fail("state-changed", "the capacity changed although the operation failed"); }
                    }
                    if (ck.ok())
                    {
                        std::string oc;
                        bool probe;
                        if (L.aux) { a_str_die(L.aux); L.aux = nullptr; }
                        if (o.code != S_SWAP) { apply(L, o, ck, oc, probe); }
                        if (ck.ok() && o.code != S_SWAP && encode(L).substr(2) != succ_key.substr(2)) { ck.fail("retry-differs", "the retried operation does not produce the content the fault-free operation produces"); }
                    }
                    if (ck.ok()) { destroy(L, ck); }
                    out.leave();
                    if (!ck.ok()) { out.viol(tag, std::string("str|") + s_names[o.code] + "|oom|" + ck.cls, why + ck.err); continue; }
                    out.succ(tag, key, "oom", s_names[o.code]);
                }
            }
        }
    }

    bool api_build(Live &L, const std::vector<xs::Op> &path, std::string &err)
    {
        L.s = a_str_new();
        if (!L.s) { err = "constructor failed"; return false; }
        for (size_t i = 0; i < path.size(); ++i)
        {
            Ck ck;
            std::string oc;
            bool probe;
            apply(L, path[i], ck, oc, probe);
            if (!ck.ok()) { err = std::string("str|") + s_names[path[i].code] + "|" + ck.cls + " at step " + std::to_string(i); return false; }
            if (L.aux) { a_str_die(L.aux); L.aux = nullptr; }
        }
        return true;
    }
    bool replay(const std::vector<xs::Op> &path, std::string &key, std::string &err)
    {
        shim::reset();
        Live L;
        if (!api_build(L, path, err)) { return false; }
        key = encode(L);
        return true;
    }
};

// ---------------------------------------------------------------- comparison functions: all pairs of strings of length <= 4
static int sgn(int v) { return (v > 0) - (v < 0); }
static int ref_cmp(const std::string &a, const std::string &b)
{
    size_t n = a.size() < b.size() ? a.size() : b.size();
    for (size_t i = 0; i < n; ++i)
    {
        unsigned char x = (unsigned char)a[i], y = (unsigned char)b[i];
        if (x != y) { return x < y ? -1 : 1; }
    }
    return (a.size() > b.size()) - (a.size() < b.size());
}
static void run_cmp(int maxlen, const std::string &job)
{
    std::vector<std::string> all{""};
    for (size_t from = 0, len = 1; (int)len <= maxlen; ++len)
    {
        size_t to = all.size();
        for (size_t i = from; i < to; ++i) { for (int l = 0; l < 4; ++l) { all.push_back(all[i] + (char)LETTERS[l]); } }
        from = to;
    }
    long long evals = 0, nontrivial = 0;
    for (size_t i = 0; i < all.size(); ++i)
    {
        if ((i & 15) == 0) { vx::tick(); }
        a_str A = A_STR_INIT;
        std::vector<char> ab(all[i].begin(), all[i].end());
        ab.push_back(0);
        A.ptr_ = all[i].empty() && (i & 1) ? nullptr : ab.data(); // empty operands both with and without storage
        A.num_ = all[i].size();
        A.mem_ = A.ptr_ ? ab.size() : 0;
        for (size_t j = 0; j < all.size(); ++j)
        {
            const std::string &b = all[j];
            a_str B = A_STR_INIT;
            std::vector<char> bb(b.begin(), b.end());
            bb.push_back(0);
            B.ptr_ = bb.data();
            B.num_ = b.size();
            B.mem_ = bb.size();
            int want = ref_cmp(all[i], b);
            int g1 = sgn(a_str_cmp(&A, &B)), g2 = sgn(a_str_cmpn(&A, b.data(), b.size())), g3 = sgn(a_str_cmp_(A.ptr_, A.num_, b.data(), b.size()));
            ++evals;
            if (want != 0 && !all[i].empty() && !b.empty()) { ++nontrivial; }
            std::string what;
            if (g1 != want) { what = "a_str_cmp"; }
            else if (g2 != want) { what = "a_str_cmpn"; }
            else if (g3 != want) { what = "a_str_cmp_"; }
            else if (b.find('\0') == std::string::npos && sgn(a_str_cmps(&A, b.c_str())) != want) { what = "a_str_cmps"; }
            if (!what.empty())
            {
                vx::viol("str|cmp|" + what, what + "(\"" + Harness::show(all[i]) + "\", \"" + Harness::show(b) + "\") does not order like bytewise lexicographic comparison with length as tie-break (expected sign " + std::to_string(want) + ")",
                         "{\"job\":" + vx::jstr(job) + ",\"input\":[" + vx::jstr(Harness::show(all[i])) + "," + vx::jstr(Harness::show(b)) + "]}");
            }
        }
    }
    // operands that share storage: a string against a prefix of its own buffer (a_str_cmpn / a_str_cmp_ / a_str_cmps with the string's
    // own pointer, a shallow copy whose length was changed): the blocks start at the same address and differ only in length
    for (size_t i = 0; i < all.size(); ++i)
    {
        const std::string &t = all[i];
        if (t.empty()) { continue; }
        std::vector<char> ab(t.begin(), t.end());
        ab.push_back(0);
        a_str A = A_STR_INIT;
        A.ptr_ = ab.data(); A.num_ = t.size(); A.mem_ = ab.size();
        for (size_t k = 0; k <= t.size(); ++k)
        {
            int want = ref_cmp(t, t.substr(0, k));
            a_str B = A;
            B.num_ = k;
            ++evals;
            std::string what;
            if (sgn(a_str_cmpn(&A, A.ptr_, k)) != want) { what = "a_str_cmpn"; }
            else if (sgn(a_str_cmp_(A.ptr_, A.num_, A.ptr_, k)) != want || sgn(a_str_cmp_(A.ptr_, k, A.ptr_, A.num_)) != -want) { what = "a_str_cmp_"; }
            else if (sgn(a_str_cmp(&A, &B)) != want || sgn(a_str_cmp(&B, &A)) != -want) { what = "a_str_cmp"; }
            else if (k == strlen(ab.data()) && sgn(a_str_cmps(&A, A.ptr_)) != want) { what = "a_str_cmps"; }
            if (!what.empty())
            {
                vx::viol("str|cmp|" + what + "|shared-storage", what + " of \"" + Harness::show(t) + "\" against the first " + std::to_string(k) + " byte(s) of its own buffer does not order like bytewise comparison with length as tie-break (expected sign " + std::to_string(want) + ")",
                         "{\"job\":" + vx::jstr(job) + ",\"input\":[" + vx::jstr(Harness::show(t)) + "," + std::to_string(k) + "]}");
                break;
            }
        }
    }
    // lengths that differ by 2^31 and more: "length as tie-break" is a comparison of two size values, whatever their distance.  The long
    // operand is an untouched (all-zero, never resident) anonymous mapping that starts with the short operand's bytes; only the common
    // prefix is ever read.  If the address space cannot be reserved this part is skipped and reported as such.
#if !defined(__SANITIZE_ADDRESS__)
    {
        const size_t big = ((size_t)1 << 33) + 4096;
        void *map = mmap(nullptr, big, PROT_READ | PROT_WRITE, MAP_PRIVATE | MAP_ANONYMOUS | MAP_NORESERVE, -1, 0);
        if (map == MAP_FAILED) { vx::info_str("cmp-huge-lengths", "the address space for an 8 GiB operand could not be reserved: part skipped"); }
        else
        {
            char *L = (char *)map;
            memcpy(L, "abcdefgh", 8);
            const size_t shortn[] = {0, 8};
            const size_t longn[] = {((size_t)1 << 31) - 1 + 8, ((size_t)1 << 31) + 8, ((size_t)1 << 31) + 9, ((size_t)1 << 32) + 7, ((size_t)1 << 32) + 8, ((size_t)1 << 32) + 9, ((size_t)3 << 31) + 8, (size_t)1 << 33};
            for (size_t sn : shortn)
            {
                for (size_t ln : longn)
                {
                    a_str a, b; // borrowed storage: the objects are never destroyed
                    a.ptr_ = const_cast<char *>("abcdefgh"); a.num_ = sn; a.mem_ = 8;
                    b.ptr_ = L; b.num_ = ln; b.mem_ = big;
                    int r[6] = {a_str_cmp_("abcdefgh", sn, L, ln), a_str_cmp_(L, ln, "abcdefgh", sn), a_str_cmp(&a, &b), a_str_cmp(&b, &a), a_str_cmpn(&a, L, ln), a_str_cmpn(&b, "abcdefgh", sn)};
                    static const char *fn[6] = {"a_str_cmp_(short, long)", "a_str_cmp_(long, short)", "a_str_cmp(short, long)", "a_str_cmp(long, short)", "a_str_cmpn(short, long)", "a_str_cmpn(long, short)"};
                    evals += 6; nontrivial += 6;
                    for (int k = 0; k < 6; ++k)
                    {
                        int want = k % 2 ? 1 : -1;
                        if ((r[k] > 0) - (r[k] < 0) != want)
                        {
                            vx::viol(std::string("str|cmp|huge-length-difference|") + (k < 2 ? "cmp_" : k < 4 ? "cmp" : "cmpn"), std::string(fn[k]) + " with lengths " + std::to_string(sn) + " and " + std::to_string(ln) + " (the short operand is a prefix of the long one) returned " + std::to_string(r[k]) + ": the longer string must order after its prefix",
                                     "{\"job\":" + vx::jstr(job) + ",\"input\":[" + std::to_string(sn) + "," + std::to_string(ln) + "]}");
                            break;
                        }
                    }
                }
            }
            munmap(map, big);
            vx::stat("cmp_huge_length_pairs", (long long)(sizeof shortn / sizeof *shortn * sizeof longn / sizeof *longn));
        }
    }
#endif
    vx::stat("states", 1);
    vx::stat("transitions", evals);
    vx::stat("cmp_pairs", evals);
    vx::stat("cmp_pairs_nontrivial", nontrivial);
    vx::sample("{\"job\":" + vx::jstr(job) + ",\"case\":\"a_str_cmp/cmpn/cmps/cmp_ on every ordered pair of the " + std::to_string(all.size()) + " byte strings of length <= " + std::to_string(maxlen) + " over {a, space, NUL, 0xE9}\"}");
    vx::book().flush_counts();
    vx::done(true, "all pairs");
}

// every byte value once: append / pop (both variants), one-byte trim sets and single-byte comparisons.  The explorations use a
// four-letter alphabet; this sweep makes sure no other byte value (0xFF looks like the failure value ~0 of getc when plain char is
// signed; values >= 0x80 compare as negative chars) is special.
static void byte_sweep(const std::string &job)
{
    for (int b = 0; b < 256; ++b)
    {
        vx::mark("byte sweep", (uint64_t)b);
        std::string why;
        a_str *s = a_str_new();
        a_str_catn(s, "ab", 2);
        if (a_str_catc(s, b) != b && a_str_catc(s, b) != (int)(char)b) { /* the return value is the byte as int or as char */ }
        if (a_str_len(s) != 3 || (unsigned char)a_str_ptr(s)[2] != b || a_str_ptr(s)[3] != 0) { why = "catc did not append the byte and a NUL"; }
        int r = a_str_getc(s);
        if (why.empty() && ((unsigned char)r != b || a_str_len(s) != 2 || memcmp(a_str_ptr(s), "ab", 2) != 0)) { why = "getc did not pop the byte"; }
        if (why.empty() && a_str_ptr(s)[2] != 0) { why = "getc (terminating) did not leave a NUL after the remaining content"; }
        a_str_catc_(s, b);
        if (why.empty() && (a_str_len(s) != 3 || (unsigned char)a_str_ptr(s)[2] != b)) { why = "catc_ did not append the byte"; }
        r = a_str_getc_(s);
        if (why.empty() && ((unsigned char)r != b || a_str_len(s) != 2)) { why = "getc_ did not pop the byte"; }
        // one-byte trim set
        char set[1] = {(char)b};
        a_str_setn_(s, 0);
        a_str_catc(s, b); a_str_catc(s, b == 'x' ? 'y' : 'x'); a_str_catc(s, b);
        a_str_trim(s, set, 1);
        if (why.empty() && (a_str_len(s) != 1 || a_str_ptr(s)[0] != (b == 'x' ? 'y' : 'x') || a_str_ptr(s)[1] != 0)) { why = "trim with the one-byte set did not strip the byte on both sides"; }
        // white-space trimming (empty set): exactly the six "C"-locale blanks TAB..CR and SPACE are stripped, every other byte value stays
        {
            bool blank = (b >= 9 && b <= 13) || b == 32;
            char mid = 'x';
            for (int side = 0; side < 6 && why.empty(); ++side) // 0: both, 1: left, 2: right; 3..5: the same with a non-null set pointer (n = 0 selects white space whatever s is)
            {
                const char *sp = side >= 3 ? "xyz" : nullptr;
                a_str_setn_(s, 0);
                a_str_catc(s, b); a_str_catc(s, mid); a_str_catc(s, b);
                if (side % 3 == 0) { a_str_trim(s, sp, 0); } else if (side % 3 == 1) { a_str_ltrim(s, sp, 0); } else { a_str_rtrim(s, sp, 0); }
                std::string want;
                if (!(blank && side % 3 != 2)) { want += (char)b; }
                want += mid;
                if (!(blank && side % 3 != 1)) { want += (char)b; }
                if (a_str_len(s) != want.size() || memcmp(a_str_ptr(s), want.data(), want.size()) != 0 || a_str_ptr(s)[want.size()] != 0)
                {
                    why = std::string("white-space trim (") + (side % 3 == 0 ? "both sides" : side % 3 == 1 ? "left" : "right") + (side >= 3 ? ", n = 0 with a non-null set pointer" : "") + (blank ? ") did not strip the blank" : ") stripped a byte that is not white space");
                }
            }
        }
        // the byte inside a block: every block append and block pop (both variants), and "%s" formatting, carry it like any other byte
        {
            const char blk[5] = {'p', (char)b, 'q', (char)b, 0};
            size_t zlen = b ? 4 : 1; // what a C-string reader sees
            a_str *src = a_str_new();
            a_str_catn(src, blk, 4);
            for (int form = 0; form < 9 && why.empty(); ++form)
            {
                static const char *fname[] = {"catn", "catn_", "cats", "cats_", "cat", "cat_", "catf(\"%s\")", "getn", "getn_"};
                a_str_setn_(s, 0);
                a_str_catn(s, "ab", 2);
                int rc = 0;
                size_t want = 4;
                char back[4] = {0, 0, 0, 0};
                switch (form)
                {
                case 0: rc = a_str_catn(s, blk, 4); break;
                case 1: rc = a_str_catn_(s, blk, 4); break;
                case 2: rc = a_str_cats(s, blk); want = zlen; break;
                case 3: rc = a_str_cats_(s, blk); want = zlen; break;
                case 4: rc = a_str_cat(s, src); break;
                case 5: rc = a_str_cat_(s, src); break;
                case 6: rc = a_str_catf(s, "%s", blk) == (int)zlen ? 0 : -1; want = zlen; break;
                default:
                    a_str_catn(s, blk, 4);
                    rc = (form == 7 ? a_str_getn(s, back, 4) : a_str_getn_(s, back, 4)) == 4 && memcmp(back, blk, 4) == 0 ? 0 : -1;
                    want = 0;
                }
                bool term = form != 1 && form != 3 && form != 5 && form != 8;
                if (rc != 0 || a_str_len(s) != 2 + want || memcmp(a_str_ptr(s), "ab", 2) != 0 || memcmp(a_str_ptr(s) + 2, blk, want) != 0 || (term && a_str_ptr(s)[2 + want] != 0))
                {
                    why = std::string("block ") + fname[form] + " does not carry the byte like any other (return value, length, content or terminator)";
                }
            }
            a_str_die(src);
        }
        // comparison with the byte whose top bit is flipped
        a_str *t = a_str_new();
        a_str_setn_(s, 0);
        a_str_catc(s, b);
        a_str_catc(t, b ^ 0x80);
        int c = a_str_cmp(s, t);
        if (why.empty() && !((b < (b ^ 0x80)) ? c < 0 : c > 0)) { why = "a_str_cmp does not order the byte against the one with its top bit flipped as unsigned bytes"; }
        a_str_die(t);
        a_str_die(s);
        if (why.empty() && !shim::check()) { why = shim::st().error; }
        if (!why.empty())
        {
            char hex[8];
            snprintf(hex, sizeof hex, "0x%02X", b);
            vx::viol(std::string("str|byte-sweep|") + (why.find("getc") != std::string::npos ? "getc" : why.find("catc") != std::string::npos ? "catc" : why.find("trim") != std::string::npos ? "trim" : why.find("cmp") != std::string::npos ? "cmp" : why.find("block") != std::string::npos ? "block" : "memory"),
                     std::string("byte ") + hex + ": " + why, "{\"job\":" + vx::jstr(job) + ",\"byte\":" + std::to_string(b) + "}");
            shim::reset();
        }
    }
}

int main(int argc, char **argv)
{
    vx::Args args(argc, argv);
    shim::install();
    Harness h;
    std::string mode = args.get("mode", "rich");
    h.N = (int)args.geti("n", 5);
    h.nletters = (int)args.geti("letters", 4);
    h.length_mode = mode == "length";
    h.memcap = (size_t)args.geti("memcap", h.length_mode ? 48 : 16);
    h.faults = args.geti("faults", 0) != 0;
    h.job = args.get("job", "str");
    vx::deadline().limit_s = args.getd("deadline", 1e18);
    if (args.has("replay-raw")) { return xs::replay_main(h, args.get("replay-raw")); }
    return vx::run_contained([&] {
        if (mode == "cmp") { run_cmp(h.N, h.job); return; }
        if (mode == "rich" && !h.faults) { byte_sweep(h.job); shim::reset(); vx::mark(nullptr); }
        xs::Explorer<Harness> ex(h);
        ex.job = h.job;
        ex.run();
        ex.emit_stats(h.job);
        vx::stat("fault_runs", (long long)h.fault_runs);
        ex.emit_samples(3);
        vx::book().flush_counts();
        vx::done(ex.st.fixpoint, ex.st.fixpoint ? "fixpoint: every history within the length bound" : ex.st.cap_note);
    });
}
