// tree.cpp — explicit-state exploration of the AVL (-DTREE_AVL) and red-black
// (-DTREE_RBT) containers: C01, C02 (invariants under any history) and C03
// (iterators and tear-down on every reachable shape).  DESIGN.md §4.C01-C03.
//
// usage: tree --n N [--iters 1] [--tear 1] [--deadline S] [--job NAME] [--replay "i3 r0 ..."]
#include "../engine/xs.hpp"
#include <cstddef>
#include <set>
#include <algorithm>

extern "C" {
#if defined(TREE_AVL)
#include "a/avl.h"
#define T(x) a_avl_##x
#define TNAME "avl"
typedef a_avl troot;
typedef a_avl_node tnode;
#define T_FOREACH a_avl_foreach
#define T_FOREACH_REVERSE a_avl_foreach_reverse
#define T_PRE_FOREACH a_avl_pre_foreach
#define T_PRE_FOREACH_REVERSE a_avl_pre_foreach_reverse
#define T_POST_FOREACH a_avl_post_foreach
#define T_POST_FOREACH_REVERSE a_avl_post_foreach_reverse
#define TU_FOREACH A_AVL_FOREACH
#define TU_FOREACH_REVERSE A_AVL_FOREACH_REVERSE
#define TU_PRE_FOREACH A_AVL_PRE_FOREACH
#define TU_PRE_FOREACH_REVERSE A_AVL_PRE_FOREACH_REVERSE
#define TU_POST_FOREACH A_AVL_POST_FOREACH
#define TU_POST_FOREACH_REVERSE A_AVL_POST_FOREACH_REVERSE
#define T_FORTEAR a_avl_fortear
#define TU_FORTEAR A_AVL_FORTEAR
#if defined(A_SIZE_POINTER) && (A_SIZE_POINTER + 0 > 3)
#define PACKED 1
#else
#define PACKED 0
#endif
#elif defined(TREE_RBT)
#include "a/rbt.h"
#define T(x) a_rbt_##x
#define TNAME "rbt"
typedef a_rbt troot;
typedef a_rbt_node tnode;
#define T_FOREACH a_rbt_foreach
#define T_FOREACH_REVERSE a_rbt_foreach_reverse
#define T_PRE_FOREACH a_rbt_pre_foreach
#define T_PRE_FOREACH_REVERSE a_rbt_pre_foreach_reverse
#define T_POST_FOREACH a_rbt_post_foreach
#define T_POST_FOREACH_REVERSE a_rbt_post_foreach_reverse
#define TU_FOREACH A_RBT_FOREACH
#define TU_FOREACH_REVERSE A_RBT_FOREACH_REVERSE
#define TU_PRE_FOREACH A_RBT_PRE_FOREACH
#define TU_PRE_FOREACH_REVERSE A_RBT_PRE_FOREACH_REVERSE
#define TU_POST_FOREACH A_RBT_POST_FOREACH
#define TU_POST_FOREACH_REVERSE A_RBT_POST_FOREACH_REVERSE
#define T_FORTEAR a_rbt_fortear
#define TU_FORTEAR A_RBT_FORTEAR
#if defined(A_SIZE_POINTER) && (A_SIZE_POINTER + 0 > 1)
#define PACKED 1
#else
#define PACKED 0
#endif
#else
#error "define TREE_AVL or TREE_RBT"
#endif
}

#if defined(__SANITIZE_ADDRESS__)
#include <sanitizer/asan_interface.h>
#define HAVE_ASAN 1
#else
#define HAVE_ASAN 0
#endif

enum { OP_INS = 1, OP_REM = 2, OP_DUP = 3, OP_FIND = 4, OP_MISS = 5, OP_ITER = 6, OP_TEAR = 7 };

// -DTREE_PACK2: the element is a packed record whose embedded node sits at an address that is 2 modulo 4 - the red-black node
// documents 2-byte alignment only (its parent word keeps ONE tag bit), so nothing may assume more
#if defined(TREE_PACK2)
#pragma pack(push, 2)
struct Elem
{
    short lead;
    tnode node;
    long key;
    int id;
    unsigned char guard[8];
};
#pragma pack(pop)
#elif defined(TREE_PACK4)
// -DTREE_PACK4: the embedded node sits at an address that is 4 modulo 8 - the AVL node documents 4-byte alignment (its parent word
// keeps TWO tag bits), so nothing may assume the alignment of a pointer
#pragma pack(push, 4)
struct Elem
{
    int lead;
    tnode node;
    long key;
    int id;
    unsigned char guard[8];
};
#pragma pack(pop)
static_assert(sizeof(Elem) % 8 == 0 && offsetof(Elem, node) == 4, "every node of the pool at 4 modulo 8");
#else
struct Elem
{
    tnode node;
    long key;
    int id;
    unsigned char guard[8];
};
#endif
// the element that embeds a node (the library's own entry macro: the node need not be the first member)
#define ELEM(n) T(entry)(n, Elem, node)
#define ELEMC(n) ((Elem const *)T(entry)(n, Elem, node))

// lookup by a bare key: the context handed to search is a `long`, the comparator takes (key, node) - the header passes the context
// on the left.  The comparator recognises its key by address, so a call with the arguments the other way round is recorded, not run.
static const void *g_key_ctx;
static bool g_key_side_bad;
static int cmp_key_node(void const *l, void const *r);
static int cmp_elem(void const *l, void const *r)
{
    long a = ELEMC(l)->key, b = ELEMC(r)->key;
    // any negative / zero / positive value is a valid answer: magnitudes other than one catch code that uses the result as +-1
    return a > b ? 3 : a < b ? -5 : 0;
}
static int cmp_key_node(void const *l, void const *r)
{
    if (l != g_key_ctx) { g_key_side_bad = true; return 0; }
    long k = *(long const *)l, e = ELEMC((tnode const *)r)->key;
    return k > e ? 3 : k < e ? -5 : 0;
}

static const int MAXN = 40;

// balance / colour bits as stored
static inline int stored_bits(tnode const *n)
{
#if defined(TREE_AVL)
#if PACKED
    return (int)(n->parent_ & 3);
#else
    return n->factor + 1;
#endif
#else
#if PACKED
    return (int)(n->parent_ & 1);
#else
    return (int)n->color;
#endif
#endif
}
static inline void set_parent_bits(tnode *n, tnode *parent, int bits)
{
#if defined(TREE_AVL)
#if PACKED
    n->parent_ = (a_uptr)parent | (a_uptr)bits;
#else
    n->parent = parent;
    n->factor = bits - 1;
#endif
#else
#if PACKED
    n->parent_ = (a_uptr)parent | (a_uptr)bits;
#else
    n->parent = parent;
    n->color = (unsigned)bits;
#endif
#endif
}

struct Live
{
    // over-aligned so that packed parent words are valid
    alignas(16) Elem pool[MAXN + 2];
    int used = 0;
    troot root;
    std::vector<Elem *> order; // live elements by ascending key (the reference model: a sorted set)
    Live() { T(root)(&root); memset((void *)pool, 0x5a, sizeof pool); }
    Elem *fresh(long key)
    {
        Elem *e = &pool[used];
        e->id = used++;
        e->key = key;
        memset(e->guard, 0xC3, sizeof e->guard);
        return e;
    }
    void rekey()
    {
        for (size_t i = 0; i < order.size(); ++i) { order[i]->key = 2 * (long)i + 1; }
    }
    bool in_pool(tnode const *n) const
    {
        char const *p = (char const *)n;
        if (p < (char const *)pool || p >= (char const *)(pool + used)) { return false; }
        return (size_t)(p - (char const *)pool) % sizeof(Elem) == offsetof(Elem, node);
    }
};

// ------------------------------------------------------------------ checking
struct Check
{
    std::string err; // first failure, "class|detail"
    std::string cls;
    int count = 0;
    std::vector<Elem const *> inorder;
    unsigned long visited[2] = {0, 0};
    bool fail(const char *c, const std::string &d)
    {
        if (err.empty()) { cls = c; err = std::string(c) + ": " + d; }
        return false;
    }
};

// returns height (AVL) or black height (RBT), -1 on structural failure
static int walk(Live const &L, tnode const *n, tnode const *parent, Check &ck, bool parent_red)
{
    if (!n) { return 0; }
    if (!L.in_pool(n)) { ck.fail("wild-pointer", "a child pointer leaves the node pool"); return -1; }
    Elem const *e = ELEMC(n);
    if (ck.visited[e->id >> 6] & (1ul << (e->id & 63))) { ck.fail("cycle", "node " + std::to_string(e->id) + " reached twice"); return -1; }
    ck.visited[e->id >> 6] |= 1ul << (e->id & 63);
    if (++ck.count > MAXN + 1) { ck.fail("cycle", "more nodes than the pool holds"); return -1; }
    if (T(parent)(n) != parent) { ck.fail("parent-link", "parent link of node with key " + std::to_string(e->key) + " does not point back to its parent"); return -1; }
    int bits = stored_bits(n);
#if defined(TREE_AVL)
    (void)parent_red;
    if (bits < 0 || bits > 2) { ck.fail("factor-bits", "stored balance bits " + std::to_string(bits)); return -1; }
    int hl = walk(L, n->left, n, ck, false);
    if (hl < 0) { return -1; }
    ck.inorder.push_back(e);
    int hr = walk(L, n->right, n, ck, false);
    if (hr < 0) { return -1; }
    if (hr - hl > 1 || hl - hr > 1) { ck.fail("unbalanced", "subtree heights " + std::to_string(hl) + "/" + std::to_string(hr) + " at key " + std::to_string(e->key)); return -1; }
    if (bits - 1 != hr - hl) { ck.fail("factor-mismatch", "stored factor " + std::to_string(bits - 1) + " but heights differ by " + std::to_string(hr - hl) + " at key " + std::to_string(e->key)); return -1; }
    return 1 + (hl > hr ? hl : hr);
#else
    bool red = (bits == 0);
    if (bits != 0 && bits != 1) { ck.fail("colour-bits", "stored colour " + std::to_string(bits)); return -1; }
    if (!parent && red) { ck.fail("red-root", "the root is red"); return -1; }
    if (red && parent_red) { ck.fail("red-red", "red node with key " + std::to_string(e->key) + " has a red parent"); return -1; }
    int hl = walk(L, n->left, n, ck, red);
    if (hl < 0) { return -1; }
    ck.inorder.push_back(e);
    int hr = walk(L, n->right, n, ck, red);
    if (hr < 0) { return -1; }
    if (hl != hr) { ck.fail("black-height", "black heights " + std::to_string(hl) + "/" + std::to_string(hr) + " at key " + std::to_string(e->key)); return -1; }
    return hl + (red ? 0 : 1);
#endif
}

// full invariant check + agreement with the reference model L.order
static bool check_tree(Live const &L, Check &ck)
{
    if (walk(L, L.root.node, nullptr, ck, false) < 0) { return false; }
    for (size_t i = 1; i < ck.inorder.size(); ++i)
    {
        if (!(ck.inorder[i - 1]->key < ck.inorder[i]->key)) { return ck.fail("bst-order", "in-order keys not strictly ascending"); }
    }
    if (ck.inorder.size() != L.order.size()) { return ck.fail("contents", "tree holds " + std::to_string(ck.inorder.size()) + " elements, model " + std::to_string(L.order.size())); }
    for (size_t i = 0; i < L.order.size(); ++i)
    {
        if (ck.inorder[i] != L.order[i]) { return ck.fail("contents", "element at rank " + std::to_string(i) + " is not the model's"); }
    }
    for (int i = 0; i < L.used; ++i)
    {
        for (unsigned char g : L.pool[i].guard) { if (g != 0xC3) { return ck.fail("guard", "bytes next to a node were overwritten"); } }
    }
    return true;
}

static void enc(tnode const *n, std::string &k)
{
    if (!n) { return; }
    k += (char)('A' + ((n->left ? 1 : 0) | (n->right ? 2 : 0) | (stored_bits(n) << 2)));
    enc(n->left, k);
    enc(n->right, k);
}
static std::string encode(Live const &L)
{
    std::string k;
    enc(L.root.node, k);
    return k;
}

static tnode *dec(Live &L, std::string const &k, size_t &pos, tnode *parent)
{
    int c = k[pos++] - 'A';
    Elem *e = L.fresh(0);
    tnode *n = &e->node;
    n->left = n->right = nullptr;
    set_parent_bits(n, parent, c >> 2);
    if (c & 1) { n->left = dec(L, k, pos, n); }
    L.order.push_back(e);
    if (c & 2) { n->right = dec(L, k, pos, n); }
    return n;
}
static void decode(Live &L, std::string const &k)
{
    size_t pos = 0;
    if (!k.empty()) { L.root.node = dec(L, k, pos, nullptr); }
    L.rekey();
}

// ------------------------------------------------------------------ reference traversals
static void ref_trav(tnode *n, int mode, std::vector<tnode *> &out)
{
    if (!n) { return; }
    switch (mode)
    {
    case 0: ref_trav(n->left, mode, out); out.push_back(n); ref_trav(n->right, mode, out); break;  // LNR
    case 1: ref_trav(n->right, mode, out); out.push_back(n); ref_trav(n->left, mode, out); break;  // RNL
    case 2: out.push_back(n); ref_trav(n->left, mode, out); ref_trav(n->right, mode, out); break;  // NLR
    case 3: out.push_back(n); ref_trav(n->right, mode, out); ref_trav(n->left, mode, out); break;  // NRL
    case 4: ref_trav(n->left, mode, out); ref_trav(n->right, mode, out); out.push_back(n); break;  // LRN
    case 5: ref_trav(n->right, mode, out); ref_trav(n->left, mode, out); out.push_back(n); break;  // RLN
    }
}
static const char *mode_name[6] = {"in-order", "reverse in-order", "pre-order NLR", "mirrored pre-order NRL", "post-order LRN", "mirrored post-order RLN"};
static const char *mode_tag[6] = {"inorder", "inorder-rev", "pre", "pre-rev", "post", "post-rev"};

#define IVIOL(...) do { ++nviol; out.viol(op, __VA_ARGS__); } while (0)

struct Harness
{
    int nviol = 0;
    bool c03mode = false;
    uint64_t inv_broken_iter_ok = 0;
    int N = 8;
    bool iters = false, tear = false, inv = true;
    uint64_t iter_checks = 0, tear_runs = 0;
    std::string job;

    const std::vector<xs::Op> *via_api = nullptr; // replay mode: build states through the API only
    void make(Live &L, const std::string &key)
    {
        if (!via_api) { decode(L, key); return; }
        std::string k, err;
        if (!api_build(L, *via_api, err) || encode(L) != key) { fprintf(stderr, "replay: cannot rebuild state (%s)\n", err.c_str()); _exit(4); }
    }
    std::string init_key() { return ""; }
    std::string key_str(const std::string &k) const
    {
        // printable form: pre-order, each node (children mask, stored bits)
        std::string s = TNAME "[";
        for (char ch : k)
        {
            int c = ch - 'A';
            s += (c & 1) ? 'L' : '-';
            s += (c & 2) ? 'R' : '-';
            s += (char)('0' + (c >> 2));
            s += ' ';
        }
        if (!k.empty()) { s.pop_back(); }
        return s + "]";
    }
    std::string op_str(const xs::Op &o) const
    {
        switch (o.code)
        {
        case OP_INS: return "insert@gap" + std::to_string(o.a);
        case OP_REM: return "remove@rank" + std::to_string(o.a);
        case OP_DUP: return (o.b ? "insert-resident@rank" : "insert-duplicate@rank") + std::to_string(o.a);
        case OP_FIND: return "search-present@rank" + std::to_string(o.a);
        case OP_MISS: return "search-absent@gap" + std::to_string(o.a);
        case OP_ITER: return "iterate";
        case OP_TEAR:
            if (o.b == 4) { return "tear-starting-at-LRN-position" + std::to_string(o.a); }
            return "tear-interrupted-after" + std::to_string(o.a) + (o.b ? "-restart" : "-continue");
        }
        return "?";
    }
    std::string op_sig(const xs::Op &o, const std::string &) const
    {
        static const char *n[] = {"?", "insert", "remove", "insert-duplicate", "search", "search", "iterate", "tear"};
        return std::string(TNAME "|") + n[o.code];
    }

    // ---- one transition on a decoded object
    void do_insert(const std::string &key, int g, xs::Sink &out)
    {
        xs::Op op{OP_INS, g, 0, 0};
        if (!out.enter(op)) { return; }
        Live L;
        make(L, key);
        Elem *e = L.fresh(2 * (long)g);
        tnode *r = T(insert)(&L.root, &e->node, cmp_elem);
        L.order.insert(L.order.begin() + g, e);
        Check ck;
        if (r != nullptr) { ck.fail("insert-return", "inserting an absent key did not return null"); }
        else { check_tree(L, ck); }
        if (!ck.err.empty() && c03mode) { c03_broken(L, ck, op, out); out.leave(); return; }
        out.leave();
        if (!ck.err.empty()) { out.viol(op, std::string(TNAME "|insert|") + ck.cls, ck.err); return; }
        out.succ(op, encode(L), "insert", "linked");
    }
    void do_remove(const std::string &key, int r, xs::Sink &out)
    {
        xs::Op op{OP_REM, r, 0, 0};
        if (!out.enter(op)) { return; }
        Live L;
        make(L, key);
        Elem *e = L.order[r];
        T(remove)(&L.root, &e->node);
        L.order.erase(L.order.begin() + r);
        Check ck;
        check_tree(L, ck); // includes: removed node no longer reachable (contents == model)
        if (!ck.err.empty() && c03mode) { c03_broken(L, ck, op, out); out.leave(); return; }
        out.leave();
        if (!ck.err.empty()) { out.viol(op, std::string(TNAME "|remove|") + ck.cls, ck.err); return; }
        out.succ(op, encode(L), "remove", "unlinked");
    }
    void do_resident(const std::string &key, xs::Sink &out)
    {
        Live L;
        make(L, key);
        int m = (int)L.order.size();
        // the resident element itself offered again (insert-if-absent on an object that is already a member): it is returned and nothing changes
        for (int r = 0; r < m; ++r)
        {
            xs::Op op{OP_DUP, r, 1, 0};
            if (!out.enter(op)) { continue; }
            tnode *self = &L.order[r]->node;
            tnode *got = T(insert)(&L.root, self, cmp_elem);
            Check ck;
            if (got != self) { ck.fail("duplicate-return", "inserting a resident element again did not return that element"); }
            else { check_tree(L, ck); }
            out.leave();
            if (ck.err.empty() && encode(L) != key) { ck.fail("duplicate-changed", "inserting a resident element again changed the tree"); }
            if (!ck.err.empty())
            {
                out.viol(op, std::string(TNAME "|insert-resident|") + ck.cls, ck.err);
                L = Live();
                make(L, key);
                continue;
            }
            out.succ(op, key, "insert-resident", "resident-returned");
        }
    }
    void do_readonly(const std::string &key, xs::Sink &out)
    {
        Live L;
        make(L, key);
        int m = (int)L.order.size();
        for (int r = 0; r < m; ++r)
        {
            xs::Op op{OP_DUP, r, 0, 0};
            if (!out.enter(op)) { continue; }
            Elem *e = L.fresh(2 * (long)r + 1);
            tnode sentinel;
            memset(&sentinel, 0x77, sizeof sentinel);
            e->node = sentinel;
            tnode *got = T(insert)(&L.root, &e->node, cmp_elem);
            Check ck;
            if (got != &L.order[r]->node) { ck.fail("duplicate-return", "inserting a resident key did not return the resident element"); }
            else if (memcmp(&e->node, &sentinel, sizeof sentinel) != 0) { ck.fail("duplicate-touched", "the offered duplicate node was modified"); }
            else { check_tree(L, ck); }
            --L.used; // give the slot back
            out.leave();
            if (ck.err.empty() && encode(L) != key) { ck.fail("duplicate-changed", "inserting a resident key changed the tree"); }
            if (!ck.err.empty())
            {
                out.viol(op, std::string(TNAME "|insert-duplicate|") + ck.cls, ck.err);
                L = Live();
                make(L, key);
                continue;
            }
            out.succ(op, key, "insert-duplicate", "resident-returned");
        }
        for (int r = 0; r < m; ++r)
        {
            xs::Op op{OP_FIND, r, 0, 0};
            if (!out.enter(op)) { continue; }
            Elem probe;
            probe.key = 2 * (long)r + 1;
            tnode *got = T(search)(&L.root, &probe.node, cmp_elem);
            long bare = probe.key;
            g_key_ctx = &bare;
            g_key_side_bad = false;
            tnode *got2 = T(search)(&L.root, &bare, cmp_key_node);
            out.leave();
            if (got != &L.order[r]->node) { out.viol(op, TNAME "|search|present-not-found", "lookup of a present key did not return its element"); continue; }
            if (g_key_side_bad || got2 != got) { out.viol(op, TNAME "|search|key-context", g_key_side_bad ? "search called the comparator without its context argument on the left" : "lookup by a bare key with a (key, node) comparator did not return the element"); continue; }
            out.succ(op, key, "search", "found");
        }
        for (int g = 0; g <= m; ++g)
        {
            xs::Op op{OP_MISS, g, 0, 0};
            if (!out.enter(op)) { continue; }
            Elem probe;
            probe.key = 2 * (long)g;
            tnode *got = T(search)(&L.root, &probe.node, cmp_elem);
            long bare = probe.key;
            g_key_ctx = &bare;
            g_key_side_bad = false;
            tnode *got2 = T(search)(&L.root, &bare, cmp_key_node);
            out.leave();
            if (got != nullptr) { out.viol(op, TNAME "|search|absent-found", "lookup of an absent key returned an element"); continue; }
            if (g_key_side_bad || got2 != nullptr) { out.viol(op, TNAME "|search|key-context", g_key_side_bad ? "search called the comparator without its context argument on the left" : "lookup of an absent bare key with a (key, node) comparator returned an element"); continue; }
            out.succ(op, key, "search", "absent");
        }
        if (encode(L) != key) { out.viol(xs::Op{OP_FIND, 0, 0, 0}, TNAME "|search|changed", "lookups changed the tree"); }
    }

    // C03 runs: a transition produced a tree that violates a C01/C02 invariant.  That is not by itself a C03 matter;
    // what C03 asks is whether iteration over the tree the container now holds is still right.  The reference
    // sequences are computed from child links only, so they exist whenever the child links form a finite tree.
    void c03_broken(Live &L, Check &ck, const xs::Op &op, xs::Sink &out)
    {
        if (ck.cls == "cycle" || ck.cls == "wild-pointer")
        {
            out.viol(op, std::string(TNAME "|iter|structure|") + ck.cls, "after " + op_str(op) + " the child links no longer form a tree, so no iteration can enumerate each element once: " + ck.err);
            return;
        }
        if (iters_on(L, op, out) == 0) { ++inv_broken_iter_ok; }
    }

    // ---- C03: iterators on this shape
    template <class F>
    void run_iter(Live &L, int mode, const char *form, F &&gen, xs::Sink &out, const xs::Op &op)
    {
        std::vector<tnode *> ref, got;
        ref_trav(L.root.node, mode, ref);
        gen(got);
        ++iter_checks;
        if (got != ref)
        {
            ++nviol;
            out.viol(op, std::string(TNAME "|iter|") + mode_tag[mode] + "|" + form, std::string(form) + " does not visit the elements exactly once in " + mode_name[mode] + " order");
        }
    }
    void do_iters(const std::string &key, xs::Sink &out)
    {
        xs::Op op{OP_ITER, 0, 0, 0};
        if (!out.enter(op)) { return; }
        Live L;
        make(L, key);
        iters_on(L, op, out);
        if (encode(L) != key) { out.viol(op, TNAME "|iter|changed", "iteration changed the tree"); }
        out.leave();
        out.succ(op, key, "iterate", "12 loop forms + 6 step functions from every node");
    }
    // all iterator checks on a live object; returns the number of violations reported
    int iters_on(Live &L, const xs::Op &op, xs::Sink &out)
    {
        nviol = 0;
        troot *root = &L.root;
        size_t cap = L.order.size() + 2; // a wrong iterator may loop: stop after n+2 yields
        tnode *cur;
#define GEN(loop) [&](std::vector<tnode *> &g) { loop { g.push_back(cur); if (g.size() > cap) break; } }
#define GENL(loop) [&](std::vector<tnode *> &g) { loop { g.push_back(c2); if (g.size() > cap) break; } }
        run_iter(L, 0, "foreach", GENL(T_FOREACH(c2, root)), out, op);
        run_iter(L, 1, "foreach_reverse", GENL(T_FOREACH_REVERSE(c2, root)), out, op);
        run_iter(L, 2, "pre_foreach", GENL(T_PRE_FOREACH(c2, root)), out, op);
        run_iter(L, 3, "pre_foreach_reverse", GENL(T_PRE_FOREACH_REVERSE(c2, root)), out, op);
        run_iter(L, 4, "post_foreach", GENL(T_POST_FOREACH(c2, root)), out, op);
        run_iter(L, 5, "post_foreach_reverse", GENL(T_POST_FOREACH_REVERSE(c2, root)), out, op);
        run_iter(L, 0, "FOREACH", GEN(TU_FOREACH(cur, root)), out, op);
        run_iter(L, 1, "FOREACH_REVERSE", GEN(TU_FOREACH_REVERSE(cur, root)), out, op);
        run_iter(L, 2, "PRE_FOREACH", GEN(TU_PRE_FOREACH(cur, root)), out, op);
        run_iter(L, 3, "PRE_FOREACH_REVERSE", GEN(TU_PRE_FOREACH_REVERSE(cur, root)), out, op);
        run_iter(L, 4, "POST_FOREACH", GEN(TU_POST_FOREACH(cur, root)), out, op);
        run_iter(L, 5, "POST_FOREACH_REVERSE", GEN(TU_POST_FOREACH_REVERSE(cur, root)), out, op);
        // single steps from every node
        typedef tnode *(*stepfn)(tnode *);
        stepfn step[6] = {T(next), T(prev), T(pre_next), T(pre_prev), T(post_next), T(post_prev)};
        static const char *sname[6] = {"next", "prev", "pre_next", "pre_prev", "post_next", "post_prev"};
        for (int mode = 0; mode < 6; ++mode)
        {
            std::vector<tnode *> ref;
            ref_trav(L.root.node, mode, ref);
            for (size_t i = 0; i < ref.size(); ++i)
            {
                tnode *want = i + 1 < ref.size() ? ref[i + 1] : nullptr;
                ++iter_checks;
                if (step[mode](ref[i]) != want)
                {
                    IVIOL( std::string(TNAME "|step|") + sname[mode], std::string(sname[mode]) + " of the element at position " + std::to_string(i) + " of the " + mode_name[mode] + " sequence is not its successor in that sequence");
                    break;
                }
            }
        }
        {
            std::vector<tnode *> ref;
            ref_trav(L.root.node, 0, ref);
            for (size_t i = 0; i < ref.size(); ++i)
            {
                tnode *nx = T(next)(ref[i]), *pv = T(prev)(ref[i]);
                if ((nx && T(prev)(nx) != ref[i]) || (pv && T(next)(pv) != ref[i]))
                {
                    IVIOL( TNAME "|step|inverse", "successor and predecessor steps are not mutually inverse");
                    break;
                }
            }
            tnode *h = T(head)(root), *t = T(tail)(root);
            if (h != (ref.empty() ? nullptr : ref.front()) || t != (ref.empty() ? nullptr : ref.back()))
            {
                IVIOL( TNAME "|ends|head-tail", "head/tail are not the smallest/largest element");
            }
            std::vector<tnode *> p4, p5;
            ref_trav(L.root.node, 4, p4);
            ref_trav(L.root.node, 5, p5);
            if (T(post_head)(root) != (p4.empty() ? nullptr : p4.front()) || T(post_tail)(root) != (p5.empty() ? nullptr : p5.front()))
            {
                IVIOL( TNAME "|ends|post-head-tail", "post_head/post_tail are not the first elements of the LRN / RLN sequences");
            }
        }
        return nviol;
    }

    // ---- C03: tear-down interrupted after k yields, then (a) continued or (b) restarted
    static void poison(Elem *e)
    {
        // an element handed out belongs to the client again: the library must not touch it
        memset((void *)&e->node, 0xFB, sizeof e->node); // wild, non-canonical address if followed
#if HAVE_ASAN
        __asan_poison_memory_region(&e->node, sizeof e->node);
#endif
    }
    void do_tear(const std::string &key, xs::Sink &out)
    {
        size_t n = key.size();
        for (size_t k = 0; k <= n; ++k)
        {
            for (int restart = 0; restart < 2; ++restart)
            {
                if (restart && (k == 0 || k == n)) { continue; }
                xs::Op op{OP_TEAR, (long)k, restart, 0};
                if (!out.enter(op)) { continue; }
                Live L;
                make(L, key);
                std::vector<tnode *> ref;
                ref_trav(L.root.node, 4, ref);
                std::string err, cls;
                tnode *next = nullptr;
                size_t yielded = 0;
                std::set<tnode *> gone;
                auto one = [&](const char *phase) -> bool {
                    tnode *cur = T(tear)(&L.root, &next);
                    if (!cur) { return false; }
                    if (yielded >= ref.size() || cur != ref[yielded])
                    {
                        if (err.empty())
                        {
                            cls = gone.count(cur) ? "twice" : "order";
                            err = std::string("tear-down (") + phase + ") handed out " + (gone.count(cur) ? "an element a second time" : "an element out of children-before-parents (LRN) order") + " at step " + std::to_string(yielded);
                        }
                        return false;
                    }
                    ++yielded;
                    gone.insert(cur);
                    poison(ELEM(cur));
                    return true;
                };
                for (size_t i = 0; i < k; ++i) { if (!one("first part")) { break; } }
                if (err.empty() && yielded != k) { cls = "short"; err = "tear-down stopped after " + std::to_string(yielded) + " of " + std::to_string(n) + " elements"; }
                if (err.empty())
                {
                    // no remaining node may still point at a node already handed out
                    for (size_t i = k; i < n; ++i)
                    {
                        tnode *r = ref[i];
                        if ((r->left && gone.count(r->left)) || (r->right && gone.count(r->right)))
                        {
                            cls = "dangling";
                            err = "after " + std::to_string(k) + " tear steps a remaining element still links to one already handed out";
                            break;
                        }
                    }
                }
                if (err.empty() && restart && iters_on(L, op, out))
                {
                    // what is left after an interruption is a tree the container holds: every iterator form works on it
                    cls = "remainder-iteration";
                    err = "after " + std::to_string(k) + " tear steps the iterators do not enumerate the remaining elements";
                }
                if (err.empty())
                {
                    if (restart) { next = nullptr; }
                    // after an interruption the remaining tree's LRN order is the tail of the original one
                    size_t guard = 0;
                    while (one(restart ? "restarted" : "continued")) { if (++guard > n + 2) { break; } }
                    if (err.empty() && yielded != n) { cls = "short"; err = std::string("tear-down (") + (restart ? "restarted" : "continued") + ") handed out " + std::to_string(yielded) + " of " + std::to_string(n) + " elements"; }
                    if (err.empty() && L.root.node != nullptr) { cls = "not-empty"; err = "tear-down left a non-empty tree"; }
                }
#if HAVE_ASAN
                __asan_unpoison_memory_region(L.pool, sizeof L.pool);
#endif
                ++tear_runs;
                out.leave();
                if (!err.empty()) { out.viol(op, std::string(TNAME "|tear|") + cls, err); continue; }
                out.succ(op, "", "tear", restart ? "interrupted-restarted" : (k == n ? "uninterrupted" : "interrupted-continued"));
            }
        }
        // explicit starting node ("input starting node or, if null, root node"): from every node the tear-down
        // must still hand out every element once, children before parents, and leave the tree empty
        for (size_t j = 0; j < n; ++j)
        {
            xs::Op op{OP_TEAR, (long)j, 4, 0};
            if (!out.enter(op)) { continue; }
            Live L;
            make(L, key);
            std::vector<tnode *> ref;
            ref_trav(L.root.node, 4, ref);
            std::map<tnode *, std::pair<tnode *, tnode *>> kids;
            for (tnode *r : ref) { kids[r] = {r->left, r->right}; }
            std::set<tnode *> gone;
            std::string err, cls;
            tnode *next = ref[j];
            for (size_t guard = 0; guard < n + 2; ++guard)
            {
                tnode *cur = T(tear)(&L.root, &next);
                if (!cur) { break; }
                if (!kids.count(cur)) { cls = "foreign"; err = "tear-down from an explicit starting node handed out something that is not an element"; break; }
                if (gone.count(cur)) { cls = "twice"; err = "tear-down from an explicit starting node handed out an element a second time"; break; }
                auto &kd = kids[cur];
                if ((kd.first && !gone.count(kd.first)) || (kd.second && !gone.count(kd.second)))
                {
                    cls = "order";
                    err = "tear-down from an explicit starting node handed out an element before one of its children";
                    break;
                }
                gone.insert(cur);
                poison(ELEM(cur));
                // what is left after 1, 2 and about half of the steps is a tree the container holds (lopsided in ways no tear-down from the
                // root produces): every iterator form works on it
                if ((guard == 0 || guard == 1 || guard == n / 2) && gone.size() < n && iters_on(L, op, out))
                {
                    cls = "remainder-iteration";
                    err = "after " + std::to_string(guard + 1) + " tear steps from an explicit starting node the iterators do not enumerate the remaining elements";
                    break;
                }
            }
            if (err.empty() && gone.size() != n) { cls = "short"; err = "tear-down from an explicit starting node handed out " + std::to_string(gone.size()) + " of " + std::to_string(n) + " elements"; }
            if (err.empty() && L.root.node != nullptr) { cls = "not-empty"; err = "tear-down from an explicit starting node left a non-empty tree"; }
#if HAVE_ASAN
            __asan_unpoison_memory_region(L.pool, sizeof L.pool);
#endif
            ++tear_runs;
            out.leave();
            if (!err.empty()) { out.viol(op, std::string(TNAME "|tear-from-node|") + cls, err); continue; }
            out.succ(op, "", "tear", "explicit-start");
        }
        // the loop macros, uninterrupted
        for (int form = 0; form < 2; ++form)
        {
            xs::Op op{OP_TEAR, (long)n, 2 + form, 0};
            if (!out.enter(op)) { continue; }
            Live L;
            make(L, key);
            std::vector<tnode *> ref, got;
            ref_trav(L.root.node, 4, ref);
            if (form == 0)
            {
                T_FORTEAR(cur, next, &L.root) { got.push_back(cur); poison(ELEM(cur)); if (got.size() > n + 2) break; }
            }
            else
            {
                tnode *cur, *next;
                TU_FORTEAR(cur, next, &L.root) { got.push_back(cur); poison(ELEM(cur)); if (got.size() > n + 2) break; }
            }
#if HAVE_ASAN
            __asan_unpoison_memory_region(L.pool, sizeof L.pool);
#endif
            out.leave();
            if (got != ref || L.root.node) { out.viol(op, TNAME "|tear|fortear-macro", "the fortear loop does not hand out every element once, children first, leaving the tree empty"); continue; }
            out.succ(op, "", "tear", "fortear-macro");
        }
    }

    void expand(const std::string &key, uint32_t, xs::Sink &out)
    {
        int m = (int)key.size();
        if (m < N) { for (int g = 0; g <= m; ++g) { do_insert(key, g, out); } }
        for (int r = 0; r < m; ++r) { do_remove(key, r, out); }
        if (inv) { do_readonly(key, out); }
        do_resident(key, out);
        if (iters) { do_iters(key, out); }
        if (tear) { do_tear(key, out); }
    }

    // ---- API-only replay of a history (constructor + insert/remove, no field writes)
    bool replay(const std::vector<xs::Op> &path, std::string &key, std::string &err)
    {
        Live L;
        if (!api_build(L, path, err)) { return false; }
        key = encode(L);
        return true;
    }
    bool api_build(Live &L, const std::vector<xs::Op> &path, std::string &err)
    {
        for (size_t i = 0; i < path.size(); ++i)
        {
            const xs::Op &o = path[i];
            Check ck;
            if (o.code == OP_INS)
            {
                if (o.a < 0 || o.a > (long)L.order.size() || L.used >= MAXN) { err = "bad replay"; return false; }
                Elem *e = L.fresh(2 * o.a);
                tnode *r = T(insert)(&L.root, &e->node, cmp_elem);
                L.order.insert(L.order.begin() + o.a, e);
                if (r) { ck.fail("insert-return", "inserting an absent key did not return null"); }
            }
            else if (o.code == OP_REM)
            {
                if (o.a < 0 || o.a >= (long)L.order.size()) { err = "bad replay"; return false; }
                T(remove)(&L.root, &L.order[o.a]->node);
                L.order.erase(L.order.begin() + o.a);
            }
            else if (o.code == OP_DUP)
            {
                Elem *e = L.fresh(2 * o.a + 1);
                tnode *r = T(insert)(&L.root, &e->node, cmp_elem);
                if (r != &L.order[o.a]->node) { ck.fail("duplicate-return", "inserting a resident key did not return the resident element"); }
            }
            else { continue; }
            if (ck.err.empty()) { check_tree(L, ck); }
            if (!ck.err.empty()) { err = std::string(TNAME "|") + (o.code == OP_INS ? "insert|" : o.code == OP_REM ? "remove|" : "insert-duplicate|") + ck.cls + " at step " + std::to_string(i); return false; }
            L.rekey();
        }
        return true;
    }
};

int main(int argc, char **argv)
{
    vx::Args args(argc, argv);
    Harness h;
    h.N = (int)args.geti("n", 8);
    h.iters = args.geti("iters", 0) != 0;
    h.tear = args.geti("tear", 0) != 0;
    h.inv = args.geti("inv", 1) != 0;
    h.job = args.get("job", TNAME);
    h.c03mode = (h.iters || h.tear) && !h.inv;
    vx::deadline().limit_s = args.getd("deadline", 1e18);
    if (h.N > MAXN - 1) { h.N = MAXN - 1; }

    if (args.has("replay-raw")) { return xs::replay_main(h, args.get("replay-raw")); }

    int rc = vx::run_contained([&] {
        // the entry macro recovers the enclosing element from a node embedded at a non-zero offset, also for expression arguments
        {
            struct W { char pad[24]; tnode n; long tail; };
            static W w[3];
            tnode *pn = &w[0].n;
            if (T(entry)(&w[1].n, W, n) != &w[1] || T(entry)(pn + 0, W, n) != &w[0] || &T(entry)(&w[2].n, W, n)->tail != &w[2].tail)
            {
                vx::viol(TNAME "|entry-macro", "the entry macro does not recover the enclosing element from its embedded node", "{\"job\":" + vx::jstr(h.job) + "}");
            }
        }
        int last_full = 0;
        bool all_fix = true;
        // bounds iterated: the largest completed one is reported
        int start = h.N; // the fixpoint at bound N subsumes all smaller bounds (same menu restricted)
        for (int n = start; n <= h.N; ++n)
        {
            Harness hh = h;
            hh.N = n;
            xs::Explorer<Harness> ex(hh);
            ex.job = h.job;
            ex.run();
            ex.emit_stats(h.job);
            vx::stat("iter_checks", (long long)hh.iter_checks);
            vx::stat("tear_runs", (long long)hh.tear_runs);
            vx::stat("invariant_broken_but_iteration_correct", (long long)hh.inv_broken_iter_ok);
            if (ex.st.fixpoint) { last_full = n; }
            else { all_fix = false; }
            // reachable shapes per size: part of the evidence (anti-vacuity)
            std::map<size_t, size_t> by;
            for (auto k : ex.keys) { ++by[k->size()]; }
            std::string j = "[";
            for (auto &kv : by) { j += (kv.first ? "," : "") + std::to_string(kv.second); }
            vx::info((h.job + ".shapes_per_size").c_str(), j + "]");
            ex.emit_samples(3);
        }
        vx::maxstat((std::string("bound_completed_") + TNAME).c_str(), last_full);
        vx::book().flush_counts();
        vx::done(all_fix, all_fix ? "fixpoint: every history over at most N live keys" : "deadline hit inside the bound");
    });
    return rc;
}
