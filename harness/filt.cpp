// filt.cpp — C16: discrete transfer function (src/tf.c) and the RC low/high-pass filters
// (include/a/lpf.h, hpf.h).  Every input word up to a depth is fed to the real filter and compared with
// the difference equation evaluated on the whole recorded history (time-indexed, no delay line).
// DESIGN.md §4.C16.
#include "../engine/grid.hpp"
#include <cmath>
#include <cfloat>
#include <limits>
#include <set>

extern "C" {
#include "a/tf.h"
}
#include "a/lpf.h"
#include "a/hpf.h"

static grid::Run R;
#if A_SIZE_REAL + 0 == 4
static const double EPS = FLT_EPSILON;
#else
static const double EPS = DBL_EPSILON;
#endif
static std::string num(double v)
{
    char b[40];
    snprintf(b, sizeof b, "%.17g", v);
    return b;
}
static std::string vec(const std::vector<double> &v)
{
    std::string s = "[";
    for (size_t i = 0; i < v.size(); ++i) { s += (i ? "," : "") + num(v[i]); }
    return s + "]";
}

static const int GUARDN = 8;
static const double GUARDV = -31337.5;
struct Line
{
    std::vector<a_real> buf;
    size_t n;
    static a_real gv(size_t i) { return (a_real)(GUARDV - (double)i); } // guard cells differ from one another: the delay lines are shifted by block moves
    explicit Line(size_t k) : buf(k + 2 * GUARDN, (a_real)GUARDV), n(k)
    {
        for (size_t i = 0; i < (size_t)GUARDN; ++i) { buf[i] = gv(i); buf[GUARDN + n + i] = gv(GUARDN + i); }
        for (size_t i = 0; i < n; ++i) { buf[GUARDN + i] = (a_real)777; } // stale contents: init must clear them
    }
    a_real *p() { return buf.data() + GUARDN; }
    bool ok() const
    {
        for (int i = 0; i < GUARDN; ++i) { if (buf[(size_t)i] != gv((size_t)i) || buf[GUARDN + n + (size_t)i] != gv((size_t)(GUARDN + i))) { return false; } }
        return true;
    }
};

static bool g_null_empty; // a side of order 0 gets null pointers for its coefficients and its history (a pure FIR set up without denominator storage)
struct Filter
{
    std::vector<double> num, den;
    std::vector<a_real> nump, denp;
    Line in, out;
    a_tf tf;
    Filter(const std::vector<double> &n_, const std::vector<double> &d_) : num(n_), den(d_), in(n_.size()), out(d_.size())
    {
        for (double v : num) { nump.push_back((a_real)v); }
        for (double v : den) { denp.push_back((a_real)v); }
        bool n0 = g_null_empty && num.empty(), d0 = g_null_empty && den.empty();
        a_tf_init(&tf, (unsigned)num.size(), n0 ? nullptr : nump.data(), n0 ? nullptr : in.p(), (unsigned)den.size(), d0 ? nullptr : denp.data(), d0 ? nullptr : out.p());
    }
    std::string state() const
    {
        std::string s((const char *)const_cast<Line &>(in).p(), in.n * sizeof(a_real));
        s.append((const char *)const_cast<Line &>(out).p(), out.n * sizeof(a_real));
        return s;
    }
};
// reference: y[k] = sum_i num[i] x[k-i] - sum_i den[i] y[k-1-i], zero before time 0, on the recorded history
static double ref_output(const std::vector<double> &num, const std::vector<double> &den, const std::vector<double> &x, const std::vector<double> &y, size_t k)
{
    long double v = 0;
    for (size_t i = 0; i < num.size(); ++i) { if (k >= i) { v += (long double)num[i] * x[k - i]; } }
    for (size_t i = 0; i < den.size(); ++i) { if (k >= i + 1) { v -= (long double)den[i] * y[k - 1 - i]; } }
    return (double)v;
}

static uint64_t n_eval, n_nt, n_states, n_words;
static const double XA[4] = {-1, 0, 1, 2};

// every input word up to `depth` over XA, with an optional zeroing after `zero_at` samples
static void words(const std::vector<double> &num, const std::vector<double> &den, int depth, int zero_at)
{
    std::vector<int> idx((size_t)depth, 0);
    std::set<std::string> seen;
    std::string in = "{\"num\":" + vec(num) + ",\"den\":" + vec(den) + ",\"depth\":" + std::to_string(depth) + (zero_at >= 0 ? ",\"zero_after\":" + std::to_string(zero_at) : "") + "}";
    std::string cls = "tf|num" + std::to_string(num.size()) + "-den" + std::to_string(den.size());
    for (;;)
    {
        Filter F(num, den);
        std::vector<double> x, y;
        bool bad = false;
        ++n_words;
        if (F.state().find_first_not_of('\0') != std::string::npos) { R.viol(cls + "|init", "a_tf_init did not clear the delay lines", in); return; }
        for (int k = 0; k < depth && !bad; ++k)
        {
            if (k == zero_at)
            {
                a_tf_zero(&F.tf);
                if (F.state().find_first_not_of('\0') != std::string::npos) { R.viol(cls + "|zero", "a_tf_zero did not restore the zero state", in); return; }
                x.clear(); y.clear(); // from here on the filter must behave as a fresh one
            }
            double xv = XA[idx[(size_t)k]];
            a_real got = a_tf_iter(&F.tf, (a_real)xv);
            x.push_back(xv);
            double want = ref_output(num, den, x, y, x.size() - 1);
            y.push_back(want);
            ++n_eval;
            n_nt += want != 0;
            seen.insert(F.state());
            if (!F.in.ok() || !F.out.ok()) { R.viol(cls + "|overrun", "a_tf_iter wrote outside a delay line", in); return; }
            if ((double)got != want)
            {
                R.viol(cls + (zero_at >= 0 ? "|after-zero" : "|equation"), "output " + ::num((double)got) + " at sample " + std::to_string(k) + (zero_at >= 0 ? " after zeroing" : "") + " is not sum(num*recent inputs) - sum(den*recent outputs) = " + ::num(want) + " (inputs " + vec(x) + ")", in);
                return;
            }
        }
        int k = depth - 1;
        while (k >= 0 && ++idx[(size_t)k] == 4) { idx[(size_t)k] = 0; --k; }
        if (k < 0) { break; }
    }
    n_states += seen.size();
}

// linearity and time invariance on all pairs of short input words
static void lti(const std::vector<double> &num, const std::vector<double> &den, int depth)
{
    int W = 1;
    for (int i = 0; i < depth; ++i) { W *= 4; }
    std::vector<std::vector<double>> resp((size_t)W);
    auto word = [&](int code) { std::vector<double> w; for (int i = 0; i < depth; ++i) { w.push_back(XA[code & 3]); code >>= 2; } return w; };
    auto run = [&](const std::vector<double> &w, int extra) {
        Filter F(num, den);
        std::vector<double> r;
        for (double v : w) { r.push_back((double)a_tf_iter(&F.tf, (a_real)v)); }
        for (int i = 0; i < extra; ++i) { r.push_back((double)a_tf_iter(&F.tf, 0)); }
        return r;
    };
    std::string in = "{\"num\":" + vec(num) + ",\"den\":" + vec(den) + "}";
    std::string cls = "tf|num" + std::to_string(num.size()) + "-den" + std::to_string(den.size());
    for (int a = 0; a < W; ++a) { resp[(size_t)a] = run(word(a), 0); }
    for (int a = 0; a < W; ++a)
    {
        std::vector<double> wa = word(a), two = wa, del = wa;
        for (double &v : two) { v *= 2; }
        std::vector<double> r2 = run(two, 0);
        ++n_eval;
        for (int k = 0; k < depth; ++k) { if (r2[(size_t)k] != 2 * resp[(size_t)a][(size_t)k]) { R.viol(cls + "|homogeneity", "the response to 2x is not twice the response to x", in); return; } }
        del.insert(del.begin(), 0.0);
        std::vector<double> rd = run(del, 0);
        ++n_eval;
        if (rd[0] != 0) { R.viol(cls + "|time-invariance", "a leading zero sample produced a non-zero output", in); return; }
        for (int k = 0; k < depth; ++k) { if (rd[(size_t)k + 1] != resp[(size_t)a][(size_t)k]) { R.viol(cls + "|time-invariance", "delaying the input by one sample does not delay the output by one sample", in); return; } }
        for (int b = a; b < W; ++b)
        {
            std::vector<double> wb = word(b), s = wa;
            for (int k = 0; k < depth; ++k) { s[(size_t)k] += wb[(size_t)k]; }
            std::vector<double> rs = run(s, 0);
            ++n_eval;
            ++n_nt;
            for (int k = 0; k < depth; ++k) { if (rs[(size_t)k] != resp[(size_t)a][(size_t)k] + resp[(size_t)b][(size_t)k]) { R.viol(cls + "|additivity", "the response to x1+x2 is not the sum of the responses", in); return; } }
        }
    }
}

static void tf_all(bool thorough)
{
    n_eval = n_nt = n_states = n_words = 0;
    std::vector<double> NA = {-1, 0, 1, 2}, DA = thorough ? std::vector<double>{-1, 0, 1, 2} : std::vector<double>{-1, 0, 1};
    int depth = thorough ? 7 : 5, ldepth = thorough ? 4 : 3;
    uint64_t item = 0, filters = 0;
    for (int nn = 0; nn <= 3; ++nn)
    {
        for (int dn = 0; dn <= 3; ++dn)
        {
            uint64_t tn = 1, td = 1;
            for (int i = 0; i < nn; ++i) { tn *= NA.size(); }
            for (int i = 0; i < dn; ++i) { td *= DA.size(); }
            for (uint64_t cn = 0; cn < tn; ++cn)
            {
                for (uint64_t cd = 0; cd < td; ++cd)
                {
                    if (!R.shard.mine(item++)) { continue; }
                    vx::mark("tf|orders num,den|coefficient codes", (uint64_t)nn, (uint64_t)dn, cn, cd);
                    std::vector<double> num, den;
                    uint64_t c = cn;
                    for (int i = 0; i < nn; ++i) { num.push_back(NA[c % NA.size()]); c /= NA.size(); }
                    c = cd;
                    for (int i = 0; i < dn; ++i) { den.push_back(DA[c % DA.size()]); c /= DA.size(); }
                    ++filters;
                    words(num, den, depth, -1);
                    for (int z = 1; z < depth; z += 2) { words(num, den, depth, z); }
                    if (nn == 0 || dn == 0) { g_null_empty = true; words(num, den, depth, -1); words(num, den, depth, 1); g_null_empty = false; }
                    // linearity / time invariance on a sub-family (every filter whose coefficient code is a multiple of 3, all of them in thorough)
                    if (thorough || (cn + cd) % 3 == 0) { lti(num, den, ldepth); }
                    R.tick();
                    vx::tick();
                }
            }
        }
    }
    vx::stat("tf_filters", (long long)filters);
    vx::stat("states", (long long)n_states);
    vx::stat("transitions", (long long)n_eval);
    vx::stat("traces_validated_against_impl", (long long)n_words);
    R.part(std::string("transfer function: every numerator/denominator order 0..3, every coefficient vector over {-1,0,1,2} / ") + (thorough ? "{-1,0,1,2}" : "{-1,0,1}") + ", EVERY input word of length " + std::to_string(depth) + " over {-1,0,1,2}, zeroing after 1,3,.. samples, output vs the difference equation on the recorded history; linearity and time invariance on all pairs of words of length " + std::to_string(ldepth), n_eval, n_nt);
    R.sample("{\"num\":[1,2],\"den\":[-1,0,1],\"inputs\":[1,0,2],\"outputs\":\"y0=1, y1=2+1=3, y2=2+3=5 (exact integers)\"}");
}

// ---------------------------------------------------------------- transfer function, higher orders
// Orders beyond the exhaustive family (unrolled or blocked loops have remainders at 4, 8, 16): every (numerator, denominator) order pair
// up to NMAX, coefficient vectors that identify each tap (pairwise different magnitudes; unit vectors at every position; one-tap and
// dense denominators), input words that separate the history entries (impulses at two positions, a ramp, a sign pattern), with a zeroing
// in the middle; small integers throughout, so the comparison with the difference equation on the recorded history is exact.
static bool one_word(const std::vector<double> &num, const std::vector<double> &den, const std::vector<double> &w, int zero_at)
{
    std::string in = "{\"num\":" + vec(num) + ",\"den\":" + vec(den) + ",\"inputs\":" + vec(w) + (zero_at >= 0 ? ",\"zero_after\":" + std::to_string(zero_at) : "") + "}";
    std::string cls = "tf|num" + std::to_string(num.size()) + "-den" + std::to_string(den.size());
    Filter F(num, den);
    std::vector<double> x, y;
    ++n_words;
    if (F.state().find_first_not_of('\0') != std::string::npos) { R.viol(cls + "|init", "a_tf_init did not clear the delay lines", in); return false; }
    for (size_t k = 0; k < w.size(); ++k)
    {
        if ((int)k == zero_at)
        {
            a_tf_zero(&F.tf);
            if (F.state().find_first_not_of('\0') != std::string::npos) { R.viol(cls + "|zero", "a_tf_zero did not restore the zero state", in); return false; }
            x.clear(); y.clear();
        }
        a_real got = a_tf_iter(&F.tf, (a_real)w[k]);
        x.push_back(w[k]);
        double want = ref_output(num, den, x, y, x.size() - 1);
        y.push_back(want);
        ++n_eval;
        n_nt += want != 0;
        if (!F.in.ok() || !F.out.ok()) { R.viol(cls + "|overrun", "a_tf_iter wrote outside a delay line", in); return false; }
        if ((double)got != want)
        {
            R.viol(cls + (zero_at >= 0 ? "|after-zero" : "|equation"), "output " + ::num((double)got) + " at sample " + std::to_string(k) + " is not sum(num*recent inputs) - sum(den*recent outputs) = " + ::num(want), in);
            return false;
        }
    }
    return true;
}
static void tf_high(bool thorough)
{
    uint64_t e0 = n_eval, t0 = n_nt, item = 1u << 20;
    int NMAX = thorough ? 20 : 11;
    for (int nn = 0; nn <= NMAX; ++nn)
    {
        for (int dn = 0; dn <= NMAX; ++dn)
        {
            if (nn <= 3 && dn <= 3) { continue; }
            if (!R.shard.mine(item++)) { continue; }
            vx::mark("tf|high orders num,den", (uint64_t)nn, (uint64_t)dn);
            std::vector<std::vector<double>> nums, dens;
            {
                std::vector<double> v;
                for (int i = 0; i < nn; ++i) { v.push_back((i % 2 ? -1.0 : 1.0) * (i + 1)); }
                nums.push_back(v);
                for (int j = 0; j < nn; ++j) { std::vector<double> u((size_t)nn, 0.0); u[(size_t)j] = 1; nums.push_back(u); }
            }
            {
                dens.push_back(std::vector<double>((size_t)dn, 0.0));
                for (int j = 0; j < dn; ++j) { for (double sgn : {1.0, -1.0}) { std::vector<double> u((size_t)dn, 0.0); u[(size_t)j] = sgn; dens.push_back(u); } }
                std::vector<double> v;
                for (int i = 0; i < dn; ++i) { v.push_back((double)(i % 3) - 1); }
                if (dn) { dens.push_back(v); }
                if (dn && dn <= 12) { dens.push_back(std::vector<double>((size_t)dn, -1.0)); } // y grows like 2^k: bounded by the word length below
            }
            size_t L = (size_t)std::min(nn + dn + 4, 14); // |y| <= 5 * sum|num| * 2^L stays below 2^24: exact in the float build too
            std::vector<std::vector<double>> ws;
            { std::vector<double> w(L, 0.0); w[0] = 1; ws.push_back(w); }
            { std::vector<double> w(L, 0.0); w[2] = 2; ws.push_back(w); }
            { std::vector<double> w; for (size_t k = 0; k < L; ++k) { w.push_back((double)(k % 5) + 1); } ws.push_back(w); }
            { std::vector<double> w; for (size_t k = 0; k < L; ++k) { w.push_back((k % 2 ? -1.0 : 1.0) * (double)(k % 3)); } ws.push_back(w); }
            for (const auto &nu : nums)
            {
                for (const auto &de : dens)
                {
                    bool ok = true;
                    for (const auto &w : ws) { ok = ok && one_word(nu, de, w, -1); }
                    if (ok) { one_word(nu, de, ws[2], (int)L / 2); }
                }
            }
            R.tick();
            vx::tick();
        }
    }
    R.part(std::string("transfer function, orders up to ") + std::to_string(NMAX) + "/" + std::to_string(NMAX) + ": tap-identifying coefficient vectors (index-coded, unit vectors at every position; zero, one-tap +-1, period-3 and all -1 denominators) x impulse, delayed impulse, ramp and sign-pattern words of length <= 14, zeroing at mid-word", n_eval - e0, n_nt - t0);
}

// ---------------------------------------------------------------- one side replaced on a live filter
// a_tf_set_den installs a denominator and its delay line, a_tf_set_num a numerator and its delay line; the other side keeps its
// history.  To stay independent of what happens to the history of the replaced side, the replacement has no taps or only zero taps:
// after set_den the outputs are sum(num * recent inputs) over ALL inputs fed so far, after set_num they are -sum(den * recent outputs)
// over ALL outputs produced so far.
static void tf_reconfig()
{
    uint64_t n = 0;
    struct F2 { std::vector<double> num, den; };
    const std::vector<F2> fs = {{{1, 2}, {-1, 0, 1}}, {{2, -1, 1}, {}}, {{1, 2, -1, 3, 1}, {1}}, {{0, 1}, {0, -1}}, {{3}, {1, 1, 0, -1}}};
    const size_t L = 9;
    std::vector<double> w;
    for (size_t k = 0; k < L; ++k) { w.push_back((k % 2 ? -1.0 : 1.0) * (double)(k % 4 + 1)); }
    for (const auto &f : fs)
    {
        for (size_t at : {1, 2, 3, 5})
        {
            for (int kind = 0; kind < 4; ++kind) // 0: set_den order 0, 1: set_den two zero taps, 2: set_num order 0, 3: set_num two zero taps
            {
                Filter F(f.num, f.den);
                std::vector<double> num = f.num, den = f.den, x, y;
                static a_real zeros[2] = {0, 0};
                Line fresh(2);
                std::string in = "{\"num\":" + vec(f.num) + ",\"den\":" + vec(f.den) + ",\"inputs\":" + vec(w) + ",\"after\":" + std::to_string(at) + ",\"call\":\"" + (kind < 2 ? "a_tf_set_den" : "a_tf_set_num") + (kind % 2 ? " with two zero taps" : " with no taps") + "\"}";
                for (size_t k = 0; k < L; ++k)
                {
                    if (k == at)
                    {
                        unsigned order = kind % 2 ? 2 : 0;
                        if (kind < 2) { a_tf_set_den(&F.tf, order, zeros, fresh.p()); den.assign(order, 0.0); }
                        else { a_tf_set_num(&F.tf, order, zeros, fresh.p()); num.assign(order, 0.0); }
                    }
                    a_real got = a_tf_iter(&F.tf, (a_real)w[k]);
                    x.push_back(w[k]);
                    // inputs fed before a numerator replacement never meet the new taps (they are zero), outputs produced before a
                    // denominator replacement never meet the new taps either: the whole recorded history can be used
                    double want = ref_output(num, den, x, y, k);
                    y.push_back(want);
                    ++n;
                    if (!fresh.ok() || !F.in.ok() || !F.out.ok()) { R.viol("tf|reconfigure|overrun", "a write outside a delay line after one side of a live filter was replaced", in); break; }
                    if ((double)got != want)
                    {
                        R.viol(std::string("tf|reconfigure|") + (kind < 2 ? "set_den" : "set_num"), std::string("after ") + (kind < 2 ? "a_tf_set_den" : "a_tf_set_num") + " on a live filter the output at sample " + std::to_string(k) + " is " + ::num((double)got) + ", but " + (kind < 2 ? "sum(num * recent inputs), the inputs fed before the call included," : "-sum(den * recent outputs), the outputs produced before the call included,") + " is " + ::num(want), in);
                        break;
                    }
                }
            }
        }
    }
    n_eval += n;
    R.part("one side of a live filter replaced (a_tf_set_den / a_tf_set_num with no taps or two zero taps) after 1, 2, 3, 5 samples: 5 filters, the other side keeps its history", n, n);
}

// ---------------------------------------------------------------- transfer function on data far from 1
// Scaling every sample by a power of two scales every term of the difference equation exactly, so the response to 2^e * x is 2^e times
// the response to x bit for bit as long as nothing leaves the range of the real type - for e near both ends of that range too (a clamp,
// a flush or a detour through a narrower type shows up here).
static void tf_scaled()
{
    uint64_t n = 0;
    struct F2 { std::vector<double> num, den; };
    const std::vector<F2> fs = {{{1, 2}, {-1, 0, 1}}, {{2, -1, 1}, {}}, {{1}, {1, -1, 1}}, {{1, 2, -1, 3, 1}, {0, -1, 0, 1, 0}}, {{0, 1}, {0, -0.5}}};
    const size_t L = 8;
    std::vector<std::vector<double>> ws;
    { std::vector<double> w(L, 0.0); w[0] = 1; ws.push_back(w); }
    { std::vector<double> w; for (size_t k = 0; k < L; ++k) { w.push_back((double)(k % 5) + 1); } ws.push_back(w); }
    { std::vector<double> w; for (size_t k = 0; k < L; ++k) { w.push_back((k % 2 ? -1.0 : 1.0) * (double)(k % 3 + 1)); } ws.push_back(w); }
#if A_SIZE_REAL + 0 == 4
    const std::vector<int> es = {-110, -100, -60, -30, 30, 60, 100, 110};
#else
    const std::vector<int> es = {-1000, -900, -500, -130, -40, 40, 130, 500, 900, 1000};
#endif
    for (const auto &f : fs)
    {
        for (const auto &w : ws)
        {
            std::vector<double> x, y;
            for (size_t k = 0; k < L; ++k) { x.push_back(w[k]); y.push_back(ref_output(f.num, f.den, x, y, k)); }
            for (int e : es)
            {
                for (double sg : {1.0, -1.0})
                {
                    Filter F(f.num, f.den);
                    std::string in = "{\"num\":" + vec(f.num) + ",\"den\":" + vec(f.den) + ",\"inputs\":" + vec(w) + ",\"scaled_by\":\"" + (sg < 0 ? "-" : "") + "2^" + std::to_string(e) + "\"}";
                    for (size_t k = 0; k < L; ++k)
                    {
                        a_real got = a_tf_iter(&F.tf, (a_real)std::ldexp(sg * w[k], e));
                        a_real want = (a_real)std::ldexp(sg * y[k], e);
                        ++n;
                        if (!(got == want))
                        {
                            R.viol("tf|scaled|equation", "with every sample scaled by " + std::string(sg < 0 ? "-" : "") + "2^" + std::to_string(e) + " the output at sample " + std::to_string(k) + " is " + ::num((double)got) + ", the difference equation gives " + ::num((double)want) + " (the scaled value of " + ::num(y[k]) + ")", in);
                            break;
                        }
                    }
                }
            }
        }
    }
    n_eval += n;
    R.part("transfer function on samples scaled by +-2^e for e near both ends of the real type's range: 5 filters x 3 words of length 8, every output equal to the scaled output of the difference equation", n, n);
}

#if A_SIZE_REAL + 0 == 16
// ---------------------------------------------------------------- long double reals: samples that need more than the 53 bits of a double
// x_k = c_k * (1 + 2^-56) with small integer c_k, taps from {1, 2, 4}, feedback {} / {0} / {-1}: every product and partial sum is a
// multiple of 2^-56 below 256, hence exact in the 64-bit significand and independent of the summation order; a detour through a
// narrower type anywhere in the step (accumulator, delay line, return value) changes the result
static void tf_wide()
{
    if (R.shard.idx != 0) { return; }
    uint64_t n = 0;
    const long double g = 1 + 0x1p-56L;
    const double CK[6] = {1, 2, 0, 1, 2, 1};
    const double TAPS[3] = {1, 2, 4};
    for (int nn = 1; nn <= 3; ++nn)
    {
        for (int rot = 0; rot < 3; ++rot)
        {
            for (int dk = 0; dk < 3; ++dk)
            {
                std::vector<double> num, den;
                for (int i = 0; i < nn; ++i) { num.push_back(TAPS[(i + rot) % 3]); }
                if (dk == 1) { den.push_back(0); }
                if (dk == 2) { den.push_back(-1); }
                Filter F(num, den);
                std::vector<long double> x, y;
                for (int k = 0; k < 6; ++k)
                {
                    long double xv = (long double)CK[k] * g;
                    a_real got = a_tf_iter(&F.tf, (a_real)xv);
                    x.push_back(xv);
                    long double want = 0;
                    for (size_t i = 0; i < num.size(); ++i) { if ((size_t)k >= i) { want += (long double)num[i] * x[(size_t)k - i]; } }
                    for (size_t i = 0; i < den.size(); ++i) { if ((size_t)k >= i + 1) { want -= (long double)den[i] * y[(size_t)k - 1 - i]; } }
                    y.push_back(want);
                    ++n;
                    if ((long double)got != want)
                    {
                        R.viol("tf|wide|equation", "with long double reals and samples c*(1+2^-56) the output at sample " + std::to_string(k) + " differs from the difference equation by " + ::num((double)((long double)got - want)) + " (every term is exact in the 64-bit significand: a narrower type is used somewhere in the step)", "{\"num\":" + vec(num) + ",\"den\":" + vec(den) + "}");
                        k = 6;
                    }
                }
            }
        }
    }
    R.part("long double reals: samples c*(1+2^-56), taps {1,2,4} in every rotation, feedback {}, {0}, {-1}: exact comparison with the difference equation", n, n);
}
#endif

// ---------------------------------------------------------------- consecutive calls with equal samples, results partly discarded
// straight-line code at -O2: every call advances the filter state, whether or not its return value is used and whether or not the
// previous call had the same arguments (a declaration that promises the compiler freedom from side effects would let it drop or merge calls)
static __attribute__((noinline)) void step_same(a_tf *t, a_lpf *lp, a_hpf *hp, a_real x, a_real *out)
{
    out[0] = a_tf_iter(t, x); out[1] = a_tf_iter(t, x); out[2] = a_tf_iter(t, x);
    (void)a_tf_iter(t, x); (void)a_tf_iter(t, x);
    out[3] = a_tf_iter(t, x);
    out[4] = a_lpf_iter(lp, x); out[5] = a_lpf_iter(lp, x);
    (void)a_lpf_iter(lp, x);
    out[6] = a_lpf_iter(lp, x);
    out[7] = a_hpf_iter(hp, x); out[8] = a_hpf_iter(hp, x);
    (void)a_hpf_iter(hp, x);
    out[9] = a_hpf_iter(hp, x);
}
static void same_samples()
{
    if (R.shard.idx != 0) { return; }
    std::vector<double> num = {1, 0.5}, den = {-0.5};
    Filter F(num, den);
    a_lpf lp; a_hpf hp;
    a_lpf_init(&lp, (a_real)0.5);
    a_hpf_init(&hp, (a_real)0.5);
    a_real out[10];
    a_tf *volatile vt = &F.tf;
    a_lpf *volatile vl = &lp;
    a_hpf *volatile vh = &hp;
    step_same(vt, vl, vh, 1, out);
    // reference: y[k] = x[k] + 0.5 x[k-1] + 0.5 y[k-1] on the constant input 1 (dyadic: exact); low-pass y += (x - y)/2; high-pass y = (y + x - x_prev)/2
    double y = 0, xp = 0, want[10];
    double tfy[6];
    for (int k = 0; k < 6; ++k) { y = 1 + 0.5 * xp + 0.5 * y; xp = 1; tfy[k] = y; }
    want[0] = tfy[0]; want[1] = tfy[1]; want[2] = tfy[2]; want[3] = tfy[5];
    double l = 0, lv[4];
    for (int k = 0; k < 4; ++k) { l = 0.5 * l + 0.5 * 1; lv[k] = l; }
    want[4] = lv[0]; want[5] = lv[1]; want[6] = lv[3];
    double h = 0, hx = 0, hv[4];
    for (int k = 0; k < 4; ++k) { h = 0.5 * (h + (1 - hx)); hx = 1; hv[k] = h; }
    want[7] = hv[0]; want[8] = hv[1]; want[9] = hv[3];
    static const char *FN[10] = {"a_tf_iter", "a_tf_iter", "a_tf_iter", "a_tf_iter", "a_lpf_iter", "a_lpf_iter", "a_lpf_iter", "a_hpf_iter", "a_hpf_iter", "a_hpf_iter"};
    for (int i = 0; i < 10; ++i)
    {
        if ((double)out[i] != want[i]) { R.viol(std::string(FN[i]) + "|equal-samples", std::string(FN[i]) + " called repeatedly with the same sample (some results unused): call " + std::to_string(i) + " returned " + ::num((double)out[i]) + ", the difference equation gives " + ::num(want[i]), "{\"call\":" + std::to_string(i) + "}"); }
    }
}

// ---------------------------------------------------------------- RC filters
static void rc_all(bool thorough)
{
    uint64_t n = 0, nt = 0;
    static const double AL[6] = {0, 0.125, 0.25, 0.5, 0.75, 1};
    static const double XV[4] = {-2, 0, 1, 3};
    int depth = thorough ? 9 : 7;
    uint64_t item = 0;
    for (double al : AL)
    {
        std::vector<int> idx((size_t)depth, 0);
        for (;;)
        {
            vx::mark("lpf/hpf|word", (uint64_t)(al * 1024), item);
            if (R.shard.mine(item++))
            {
                a_lpf lp;
                a_hpf hp;
                a_lpf lq;
                a_lpf_init(&lp, (a_real)al);
                a_lpf_init(&lq, (a_real)al);
                a_hpf_init(&hp, (a_real)al);
                // the same word at a tiny amplitude (a power of two, so the scaling is exact): a linear filter has no amplitude threshold
                const a_real SC = (a_real)std::ldexp(1.0, EPS == (double)FLT_EPSILON ? -60 : -300);
                a_lpf lps;
                a_hpf hps;
                a_lpf_init(&lps, (a_real)al);
                a_hpf_init(&hps, (a_real)al);
                long double lo = 0, hi = 0, lref = 0, href = 0, xprev = 0;
                std::string in = "{\"alpha\":" + num(al) + ",\"word\":\"";
                for (int k = 0; k < depth; ++k) { in += std::to_string(idx[(size_t)k]); }
                in += "\"}";
                for (int k = 0; k < depth; ++k)
                {
                    double x = XV[idx[(size_t)k]];
                    a_real l = a_lpf_iter(&lp, (a_real)x), h = a_hpf_iter(&hp, (a_real)x), l2 = lq((a_real)x);
                    lref = (1 - (long double)al) * lref + (long double)al * x;
                    href = (long double)al * (href + x - xprev);
                    xprev = x;
                    lo = std::min(lo, (long double)x);
                    hi = std::max(hi, (long double)x);
                    n += 2;
                    ++nt;
                    double tol = EPS == (double)FLT_EPSILON ? 8 * EPS * 3 : 0; // dyadic alpha and inputs: exact in double
                    if (!((double)l >= (double)lo - tol && (double)l <= (double)hi + tol)) { R.viol("lpf|range", "low-pass output " + num((double)l) + " left the range [" + num((double)lo) + "," + num((double)hi) + "] of the values fed so far", in); break; }
                    if (std::fabs((double)((long double)l - lref)) > tol) { R.viol("lpf|equation", "low-pass output " + num((double)l) + " is not (1-alpha)*previous + alpha*x = " + num((double)lref), in); break; }
                    if (l2 != l) { R.viol("lpf|cxx-operator", "a_lpf::operator() and a_lpf_iter disagree", in); break; }
                    if (std::fabs((double)((long double)h - href)) > tol) { R.viol("hpf|equation", "high-pass output " + num((double)h) + " is not alpha*(previous + x - x_prev) = " + num((double)href), in); break; }
                    a_real ls = a_lpf_iter(&lps, (a_real)x * SC), hs = a_hpf_iter(&hps, (a_real)x * SC);
                    if (ls != l * SC) { R.viol("lpf|scaling", "the low-pass response to the word scaled by 2^-k is not the scaled response (" + num((double)ls) + " vs " + num((double)(l * SC)) + ")", in); break; }
                    if (hs != h * SC) { R.viol("hpf|scaling", "the high-pass response to the word scaled by 2^-k is not the scaled response (" + num((double)hs) + " vs " + num((double)(h * SC)) + ")", in); break; }
                }
            }
            int k = depth - 1;
            while (k >= 0 && ++idx[(size_t)k] == 4) { idx[(size_t)k] = 0; --k; }
            if (k < 0) { break; }
        }
    }
    // settling on a constant input; zeroing
    if (R.shard.idx == 0)
    {
        for (double al : {0.125, 0.25, 0.5, 0.75, 1.0, 0.3, 0.9})
        {
            // the last constant is large with a low-order bit set: y + x - x_prev evaluated left to right would leave a residue of the
            // size of ulp(x) that never decays; the statement says "decays to zero"
            const double big = EPS == (double)FLT_EPSILON ? 30000002.0 : 1e16 + 2;
            const double tiny_abs = std::max((double)std::numeric_limits<a_real>::min() * 1e6, 1e-300);
            for (double x : {-2.0, 1.0, 3.0, 1e6, big})
            {
                a_lpf lp;
                a_hpf hp;
                a_lpf_init(&lp, (a_real)al);
                a_hpf_init(&hp, (a_real)al);
                double el = std::fabs(x), eh = 0;
                std::string in = "{\"alpha\":" + num(al) + ",\"constant\":" + num(x) + "}";
                for (int k = 0; k < 400; ++k)
                {
                    double l = (double)a_lpf_iter(&lp, (a_real)x), h = (double)a_hpf_iter(&hp, (a_real)x);
                    ++n;
                    double e = std::fabs(x - l);
                    if (!(e <= el * (1 - al) * (1 + 8 * EPS) + 4 * EPS * std::fabs(x))) { R.viol("lpf|settle", "on a constant input the low-pass error did not contract by (1-alpha) at step " + std::to_string(k), in); break; }
                    el = e;
                    if (k > 0 && !(std::fabs(h) <= eh * al * (1 + 8 * EPS) + tiny_abs)) { R.viol("hpf|decay", "on a constant input the high-pass output did not decay by alpha at step " + std::to_string(k), in); break; }
                    eh = std::fabs(h);
                }
                if (al == 1.0 && (double)lp.output != (double)(a_real)x) { R.viol("lpf|settle", "with alpha = 1 the low-pass output must equal the input", in); }
                if (al < 1 && !(el <= std::fabs(x) * std::pow(1 - al, 399) * 2 + 16 * EPS * std::fabs(x) / al)) { R.viol("lpf|settle", "the low-pass output did not settle to the constant input", in); }
                if (!(eh <= std::fabs(x) * std::pow(al, 399) * 2 + tiny_abs) && al < 1) { R.viol("hpf|decay", "the high-pass output did not decay to zero", in); }
                a_lpf_zero(&lp);
                a_hpf_zero(&hp);
                if (lp.output != 0 || hp.output != 0 || hp.input != 0) { R.viol("rc|zero", "zeroing did not clear the filter state", in); }
            }
        }
        // inexact family: extreme magnitudes, non-dyadic alpha: the low-pass output must stay (to rounding) within the range of the values fed so far
        static const double RMAX = sizeof(a_real) > sizeof(double) ? DBL_MAX : (double)A_REAL_MAX; // the harness keeps samples in doubles
        static const double EX[6] = {-RMAX, RMAX, 1e16, -3, 0, 1};
        for (double al : {1.0 / 3, 0.5, 0.999, 1.0, 9.5367431640625e-07})
        {
            for (int w = 0; w < 216; ++w)
            {
                a_lpf lp;
                a_lpf_init(&lp, (a_real)al);
                double lo = 0, hi = 0;
                int c = w;
                std::string in = "{\"alpha\":" + num(al) + ",\"word\":[";
                for (int k = 0; k < 3; ++k)
                {
                    double x = (double)(a_real)EX[c % 6];
                    c /= 6;
                    in += (k ? "," : "") + num(x);
                    double l = (double)a_lpf_iter(&lp, (a_real)x);
                    lo = std::min(lo, x);
                    hi = std::max(hi, x);
                    ++n;
                    ++nt;
                    double slack = 8 * EPS * std::max(std::fabs(lo), std::fabs(hi));
                    if (!std::isfinite(l) || l < lo - slack || l > hi + slack) { R.viol("lpf|range|extreme", "low-pass output " + num(l) + " left the range [" + num(lo) + "," + num(hi) + "] of the values fed so far (alpha " + num(al) + ")", in + "]}"); break; }
                }
            }
        }
        // coefficient generators
        double prev_l = -1, prev_h = 2;
        auto check_pair = [&](double fcd, double tsd, long double prodL) {
                a_real fc = (a_real)fcd, ts = (a_real)tsd;
                a_real al = a_lpf_gen(fc, ts), ah = a_hpf_gen(fc, ts);
                std::string in = "{\"fc\":" + num((double)fc) + ",\"ts\":" + num((double)ts) + "}";
                ++n;
                ++nt;
                if (!(al >= 0 && al <= 1) || !(ah >= 0 && ah <= 1)) { R.viol("gen|range", "a generated coefficient is outside [0,1]: lpf " + num((double)al) + ", hpf " + num((double)ah), in); return; }
                // strict interior wherever the real type can represent it (double: the whole stated range; float saturates sooner)
                double prod = (double)prodL, room = EPS == (double)FLT_EPSILON ? 1e6 : 1e12;
                if (prod >= 1 / room && prod <= room && !(al > 0 && al < 1 && ah > 0 && ah < 1)) { R.viol("gen|interior", "for fc*ts = " + num(prod) + " the coefficients must lie strictly inside (0,1): lpf " + num((double)al) + ", hpf " + num((double)ah), in); return; }
                // side by side: a coefficient may sit ON an end of the interval only where rounding saturates, i.e. where the exact
                // value Ts/(RC+Ts) (RC/(RC+Ts)) itself rounds to that end in the real type; elsewhere it must be strictly inside.
                // (float: the high-pass coefficient legitimately rounds to 1 for small fc*ts, the low-pass one does not round to 0)
                {
                    long double w = prodL * 6.283185307179586476925L / (1 + prodL * 6.283185307179586476925L);
                    long double tiny = 4 * (long double)std::numeric_limits<a_real>::min(), gap = (long double)EPS;
                    const char *bad = nullptr;
                    if (w > tiny && !(al > 0)) { bad = "the low-pass coefficient is 0"; }
                    else if (1 - w > gap && !(al < 1)) { bad = "the low-pass coefficient is 1"; }
                    else if (1 - w > tiny && !(ah > 0)) { bad = "the high-pass coefficient is 0"; }
                    else if (w > gap && !(ah < 1)) { bad = "the high-pass coefficient is 1"; }
                    if (bad) { R.viol("gen|interior", std::string("for fc*ts = ") + num(prod) + " " + bad + " although the exact value " + num((double)w) + " / " + num((double)(1 - w)) + " does not round to that end of [0,1]", in); return; }
                }
                a_real ml = (a_real)A_LPF_GEN(fcd, tsd), mh = (a_real)A_HPF_GEN(fcd, tsd);
                if (std::fabs((double)ml - (double)al) > 4 * EPS || std::fabs((double)mh - (double)ah) > 4 * EPS) { R.viol("gen|macro", "the GEN macros disagree with the generator functions", in); return; }
                long double want = prodL * 6.283185307179586476925L / (1 + prodL * 6.283185307179586476925L);
                if (std::fabs((double)((long double)al - want)) > 16 * EPS || std::fabs((double)((long double)ah - (1 - want))) > 16 * EPS) { R.viol("gen|value", "generated coefficients are not Ts/(RC+Ts) and RC/(RC+Ts)", in); return; }
                a_lpf cl;
                a_hpf ch;
                cl.gen(fc, ts);
                ch.gen(fc, ts);
                if (cl.alpha != al || ch.alpha != ah) { R.viol("gen|cxx", "the C++ gen members disagree with the generator functions", in); }
        };
        // cut-off frequencies at the ends of the real type's normal range with sample times that keep the product moderate: an
        // intermediate 2*pi*fc or 1/(2*pi*fc) must not overflow where the product itself is ordinary
        {
            int K = EPS == (double)FLT_EPSILON ? 37 : 307, S = EPS == (double)FLT_EPSILON ? 6 : 12;
            for (double lead : {1.0, 1.7, 3.0})
            {
                for (int sign = -1; sign <= 1; sign += 2)
                {
                    double fcd = (double)(a_real)(lead * std::pow(10.0, sign * K));
                    if (sign < 0 && lead == 1.0) { fcd = (double)(a_real)(3 * std::pow(10.0, -K)); }
                    for (int sx = -S; sx <= S; ++sx)
                    {
                        double tsd = (double)(a_real)(std::pow(10.0, sx) / fcd);
                        if (!std::isfinite((double)(a_real)tsd) || (a_real)tsd < std::numeric_limits<a_real>::min()) { continue; }
                        check_pair(fcd, tsd, (long double)fcd * (long double)tsd);
                    }
                }
            }
        }
        for (int s = -24; s <= 24; ++s)
        {
            for (int kf = -12; kf <= 12; ++kf)
            {
                int kt = s - kf;
                if (kt < -12 || kt > 12) { continue; }
                check_pair(std::pow(10.0, kf), std::pow(10.0, kt), (long double)std::pow(10.0, s));
            }
            // monotone in the product fc*ts (checked at kf = 0 when available)
            if (s >= -12 && s <= 12)
            {
                double l = (double)a_lpf_gen(1, (a_real)std::pow(10.0, s)), h = (double)a_hpf_gen(1, (a_real)std::pow(10.0, s));
                if (l < prev_l || h > prev_h) { R.viol("gen|monotone", "the generators are not monotone in fc*ts", num(std::pow(10.0, s))); }
                prev_l = l;
                prev_h = h;
            }
        }
    }
    R.part(std::string("RC filters: alpha in {0,1/8,1/4,1/2,3/4,1} x EVERY input word of length ") + std::to_string(depth) + " over {-2,0,1,3}: low-pass range and convex-combination equation, high-pass equation, C++ operator; settling/decay on constant inputs (400 steps), zeroing; extreme-magnitude words; generators on fc,ts in 10^-12..10^12", n, nt);
    R.sample("{\"alpha\":0.25,\"inputs\":[3,3,3],\"lowpass\":[0.75,1.3125,1.734375],\"note\":\"error to the constant contracts by 3/4 per step\"}");
}

int main(int argc, char **argv)
{
    vx::Args args(argc, argv);
    R.init(args);
    bool thorough = R.tier == "thorough";
    return vx::run_contained([&] {
        tf_all(thorough);
        tf_high(thorough);
        same_samples();
        tf_scaled();
        tf_reconfig();
#if A_SIZE_REAL + 0 == 16
        tf_wide();
#endif
        rc_all(thorough);
        R.finish(true, "every listed domain enumerated");
    }, 120.0);
}
