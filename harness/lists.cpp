// lists.cpp — explicit-state exploration of the intrusive doubly linked ring
// (include/a/list.h), the singly linked list (include/a/slist.h) and the queue
// built on them (src/que.c).  C05 (and, with --faults 1, the queue part of C07).
// DESIGN.md §4.C05.
//
// usage: lists --kind list|slist|que --n N [--siz S --siz2 S2 --keys K] [--faults 1] [--deadline S]
#include "../engine/xs.hpp"
#include "../engine/shim.hpp"
#include <algorithm>
#include <set>

extern "C" {
#include "a/list.h"
#include "a/slist.h"
#include "a/que.h"
}

struct Ck
{
    std::string cls, err;
    bool fail(const char *c, const std::string &d)
    {
        if (err.empty()) { cls = c; err = std::string(c) + ": " + d; }
        return false;
    }
    bool ok() const { return err.empty(); }
};
static const long SMAX = -1;
static std::string idx_str(long v) { return v == SMAX ? "SIZE_MAX" : std::to_string(v); }

// =====================================================================================================
// 1. doubly linked ring.  Nodes are anonymous, so a state is just (len ring0, len ring1, detached);
//    every operation is applied at every position and the resulting order compared with the model.
// =====================================================================================================
enum
{
    L_ADD_NEXT = 1, L_ADD_PREV, L_DEL_NODE, L_DEL_NEXT, L_DEL_PREV, L_ROT_NEXT, L_ROT_PREV, L_SET_NODE, L_MOV_NEXT, L_MOV_PREV,
    L_SWAP_NODE, L_SWAP_SEC, L_ADD_SEC, L_DEL_SEC, L_SET_SEC, L_ADD_NODE, L_FOREACH
};
static const char *l_names[] = {"?", "add_next", "add_prev", "del_node", "del_next", "del_prev", "rot_next", "rot_prev", "set_node", "mov_next", "mov_prev",
                                "swap_node", "swap_", "add_", "del_", "set_", "add_node", "foreach"};

struct ListLive
{
    static const int MAXP = 16;
    a_list head[2];
    a_list pool[MAXP];
    int used = 0;
    std::vector<a_list *> seq[2]; // the abstract sequences
    ListLive()
    {
        a_list_ctor(&head[0]);
        a_list_ctor(&head[1]);
        for (auto &n : pool) { n.next = n.prev = (a_list *)(uintptr_t)0xDEAD0000DEAD0ull; } // detached nodes: links are garbage
    }
    a_list *fresh() { return &pool[used++]; }
    // position 0 is the head, position i >= 1 is the (i-1)-th element
    a_list *at(int ring, int pos) { return pos == 0 ? &head[ring] : seq[ring][pos - 1]; }
};

struct ListH
{
    int N = 5;
    std::string job;
    const std::vector<xs::Op> *via_api = nullptr;
    std::string init_key() { return std::string("\0\0", 2); }
    static std::string encode(const ListLive &L)
    {
        std::string k;
        k += (char)L.seq[0].size();
        k += (char)L.seq[1].size();
        return k;
    }
    std::string key_str(const std::string &k) const { return "rings{len0=" + std::to_string((int)k[0]) + " len1=" + std::to_string((int)k[1]) + "}"; }
    std::string op_str(const xs::Op &o) const
    {
        auto pos = [](long v) { return "ring" + std::to_string(v / 100) + (v % 100 == 0 ? ".head" : "[" + std::to_string(v % 100 - 1) + "]"); };
        std::string s = l_names[o.code];
        switch (o.code)
        {
        case L_ADD_NEXT: case L_ADD_PREV: case L_DEL_NEXT: case L_DEL_PREV: case L_DEL_NODE: case L_SET_NODE: case L_ROT_NEXT: case L_ROT_PREV: return s + "(" + pos(o.a) + ")";
        case L_MOV_NEXT: case L_MOV_PREV: return s + "(" + pos(o.a) + ", other ring)";
        case L_SWAP_NODE: return s + "(" + pos(o.a) + "," + pos(o.b) + ")";
        case L_SWAP_SEC: case L_SET_SEC: return s + "(" + pos(o.a) + ".." + pos(o.b) + " <-> " + (o.code == L_SET_SEC ? "detached chain of " + std::to_string(o.c) : pos(o.c / 10000) + ".." + pos(o.c % 10000)) + ")";
        case L_ADD_SEC: case L_ADD_NODE: return s + "(after " + pos(o.a) + ", chain of " + std::to_string(o.b) + ")";
        case L_DEL_SEC: return s + "(" + pos(o.a) + ".." + pos(o.b) + ")";
        }
        return s;
    }
    std::string op_sig(const xs::Op &o, const std::string &) const { return std::string("list|") + l_names[o.code]; }

    void decode(ListLive &L, const std::string &key)
    {
        for (int r = 0; r < 2; ++r)
        {
            for (int i = 0; i < (int)key[r]; ++i)
            {
                a_list *n = L.fresh();
                L.seq[r].push_back(n);
                a_list *last = i ? L.seq[r][i - 1] : &L.head[r];
                last->next = n;
                n->prev = last;
            }
            a_list *last = L.seq[r].empty() ? &L.head[r] : L.seq[r].back();
            last->next = &L.head[r];
            L.head[r].prev = last;
        }
    }
    void make(ListLive &L, const std::string &key)
    {
        if (!via_api) { decode(L, key); return; }
        std::string err;
        if (!api_build(L, *via_api, err) || encode(L) != key) { fprintf(stderr, "replay: cannot rebuild state (%s)\n", err.c_str()); _exit(4); }
    }
    static bool check(ListLive &L, Ck &ck)
    {
        for (int r = 0; r < 2; ++r)
        {
            a_list *h = &L.head[r];
            std::vector<a_list *> fwd, bwd;
            size_t limit = ListLive::MAXP + 2;
            for (a_list *it = h->next; it != h; it = it->next)
            {
                if (it != &L.head[0] && it != &L.head[1] && (it < L.pool || it >= L.pool + ListLive::MAXP)) { return ck.fail("wild-pointer", "a next link leaves the node pool"); }
                fwd.push_back(it);
                if (fwd.size() > limit) { return ck.fail("ring-open", "forward walk of ring " + std::to_string(r) + " does not return to its head"); }
            }
            for (a_list *it = h->prev; it != h; it = it->prev)
            {
                if (it != &L.head[0] && it != &L.head[1] && (it < L.pool || it >= L.pool + ListLive::MAXP)) { return ck.fail("wild-pointer", "a prev link leaves the node pool"); }
                bwd.push_back(it);
                if (bwd.size() > limit) { return ck.fail("ring-open", "backward walk of ring " + std::to_string(r) + " does not return to its head"); }
            }
            a_list *it = h;
            do {
                if (it->next->prev != it || it->prev->next != it) { return ck.fail("link-mismatch", "forward and backward links disagree in ring " + std::to_string(r)); }
                it = it->next;
            } while (it != h);
            if (fwd != L.seq[r]) { return ck.fail("sequence", "forward walk of ring " + std::to_string(r) + " is not the abstract sequence"); }
            std::reverse(bwd.begin(), bwd.end());
            if (bwd != L.seq[r]) { return ck.fail("sequence-backward", "backward walk of ring " + std::to_string(r) + " is not the reversed abstract sequence"); }
        }
        return true;
    }
    // builds a detached chain of n fresh nodes, linked internally
    static void chain(ListLive &L, int n, a_list *&h, a_list *&t, std::vector<a_list *> &nodes)
    {
        for (int i = 0; i < n; ++i)
        {
            a_list *x = L.fresh();
            if (i) { a_list_link(nodes.back(), x); }
            nodes.push_back(x);
        }
        h = nodes.front();
        t = nodes.back();
    }
    // apply one op to the real rings and to the model; false if the op's precondition does not hold in this state
    bool apply(ListLive &L, const xs::Op &o, Ck &ck)
    {
        int r = (int)(o.a / 100), p = (int)(o.a % 100);
        if (r > 1 || p > (int)L.seq[r].size()) { return false; }
        auto &S = L.seq[r];
        a_list *ctx = L.at(r, p);
        size_t total = L.seq[0].size() + L.seq[1].size();
        switch (o.code)
        {
        case L_ADD_NEXT: case L_ADD_PREV:
        {
            if (L.used >= ListLive::MAXP) { return false; }
            a_list *n = L.fresh();
            if (o.code == L_ADD_NEXT) { a_list_add_next(ctx, n); S.insert(S.begin() + p, n); }
            else { a_list_add_prev(ctx, n); if (p == 0) { S.push_back(n); } else { S.insert(S.begin() + (p - 1), n); } }
            return true;
        }
        case L_ADD_NODE: case L_ADD_SEC:
        {
            // insert a detached chain between ctx and ctx->next through the generic primitives
            if (L.used + o.b > ListLive::MAXP) { return false; }
            a_list *h, *t;
            std::vector<a_list *> nodes;
            chain(L, (int)o.b, h, t, nodes);
            if (o.code == L_ADD_NODE) { a_list_add_node(ctx->next, ctx, h); }
            else { a_list_add_(ctx->next, ctx, h, t); }
            S.insert(S.begin() + p, nodes.begin(), nodes.end());
            return true;
        }
        case L_DEL_NODE:
            if (p == 0) { return false; }
            a_list_del_node(ctx);
            S.erase(S.begin() + (p - 1));
            return true;
        case L_DEL_NEXT:
            if (p >= (int)S.size()) { return false; } // the next node would be the head
            a_list_del_next(ctx);
            S.erase(S.begin() + p);
            return true;
        case L_DEL_PREV:
        {
            int q = p == 0 ? (int)S.size() : p - 1; // position of the previous node
            if (q == 0) { return false; }
            a_list_del_prev(ctx);
            S.erase(S.begin() + (q - 1));
            return true;
        }
        case L_DEL_SEC:
        {
            int q = (int)(o.b % 100);
            if (p == 0 || q < p || q > (int)S.size()) { return false; }
            a_list_del_(L.at(r, p), L.at(r, q));
            S.erase(S.begin() + (p - 1), S.begin() + q);
            return true;
        }
        case L_ROT_NEXT:
            if (p != 0) { return false; }
            a_list_rot_next(ctx);
            if (!S.empty()) { a_list *x = S.back(); S.pop_back(); S.insert(S.begin(), x); }
            return true;
        case L_ROT_PREV:
            if (p != 0) { return false; }
            a_list_rot_prev(ctx);
            if (!S.empty()) { a_list *x = S.front(); S.erase(S.begin()); S.push_back(x); }
            return true;
        case L_SET_NODE:
        {
            if (p == 0 || L.used >= ListLive::MAXP) { return false; }
            a_list *n = L.fresh();
            a_list_set_node(ctx, n);
            S[p - 1] = n;
            return true;
        }
        case L_SET_SEC:
        {
            int q = (int)(o.b % 100);
            if (p == 0 || q < p || q > (int)S.size() || L.used + o.c > ListLive::MAXP) { return false; }
            a_list *h, *t;
            std::vector<a_list *> nodes;
            chain(L, (int)o.c, h, t, nodes);
            a_list_set_(L.at(r, p), L.at(r, q), h, t);
            S.erase(S.begin() + (p - 1), S.begin() + q);
            S.insert(S.begin() + (p - 1), nodes.begin(), nodes.end());
            return true;
        }
        case L_MOV_NEXT: case L_MOV_PREV:
        {
            auto &O = L.seq[1 - r];
            if (O.empty()) { return false; } // moving an empty list would link its head into this ring
            if (o.code == L_MOV_NEXT) { a_list_mov_next(ctx, &L.head[1 - r]); S.insert(S.begin() + p, O.begin(), O.end()); }
            else { a_list_mov_prev(ctx, &L.head[1 - r]); if (p == 0) { S.insert(S.end(), O.begin(), O.end()); } else { S.insert(S.begin() + (p - 1), O.begin(), O.end()); } }
            a_list_init(&L.head[1 - r]); // documented usage: the emptied head is re-initialised by the caller
            O.clear();
            return true;
        }
        case L_SWAP_NODE:
        {
            int r2 = (int)(o.b / 100), p2 = (int)(o.b % 100);
            if (p == 0 || p2 == 0 || r2 > 1 || p2 > (int)L.seq[r2].size()) { return false; }
            a_list *x = L.at(r, p), *y = L.at(r2, p2);
            if (x != y && (x->next == y || y->next == x)) { return false; } // adjacent nodes: excluded by the statement's precondition
            a_list_swap_node(x, y);
            std::swap(L.seq[r][p - 1], L.seq[r2][p2 - 1]);
            return true;
        }
        case L_SWAP_SEC:
        {
            int q = (int)(o.b % 100);
            long c1 = o.c / 10000, c2 = o.c % 10000;
            int r2 = (int)(c1 / 100), p2 = (int)(c1 % 100), q2 = (int)(c2 % 100);
            if (p == 0 || q < p || q > (int)S.size() || r2 > 1 || p2 == 0 || q2 < p2 || q2 > (int)L.seq[r2].size()) { return false; }
            if (r == r2)
            {
                if (!(q < p2 - 1)) { return false; } // disjoint, ordered, and not adjacent (at least one node in between)
            }
            a_list_swap_(L.at(r, p), L.at(r, q), L.at(r2, p2), L.at(r2, q2));
            std::vector<a_list *> A(L.seq[r].begin() + (p - 1), L.seq[r].begin() + q), B(L.seq[r2].begin() + (p2 - 1), L.seq[r2].begin() + q2);
            if (r == r2)
            {
                std::vector<a_list *> n(S.begin(), S.begin() + (p - 1));
                n.insert(n.end(), B.begin(), B.end());
                n.insert(n.end(), S.begin() + q, S.begin() + (p2 - 1));
                n.insert(n.end(), A.begin(), A.end());
                n.insert(n.end(), S.begin() + q2, S.end());
                S = n;
            }
            else
            {
                auto &S2 = L.seq[r2];
                S.erase(S.begin() + (p - 1), S.begin() + q);
                S.insert(S.begin() + (p - 1), B.begin(), B.end());
                S2.erase(S2.begin() + (p2 - 1), S2.begin() + q2);
                S2.insert(S2.begin() + (p2 - 1), A.begin(), A.end());
            }
            return true;
        }
        case L_FOREACH:
        {
            for (int rr = 0; rr < 2; ++rr)
            {
                std::vector<a_list *> f1, f2, f3, f4;
                a_list *h = &L.head[rr];
                size_t cap = total + 3;
                a_list_foreach_next(it, h) { f1.push_back(it); if (f1.size() > cap) break; }
                a_list_foreach_prev(it, h) { f2.push_back(it); if (f2.size() > cap) break; }
                a_list *it, *at;
                A_LIST_FORSAFE_NEXT(it, at, h) { f3.push_back(it); if (f3.size() > cap) break; }
                A_LIST_FORSAFE_PREV(it, at, h) { f4.push_back(it); if (f4.size() > cap) break; }
                std::vector<a_list *> rev(L.seq[rr].rbegin(), L.seq[rr].rend());
                if (f1 != L.seq[rr] || f3 != L.seq[rr]) { ck.fail("foreach", "the forward loop macros do not visit the abstract sequence"); }
                if (f2 != rev || f4 != rev) { ck.fail("foreach", "the backward loop macros do not visit the reversed abstract sequence"); }
                // the remaining spellings: C89 plain loops and C99 safe loops
                {
                    std::vector<a_list *> g1, g2, g3, g4;
                    A_LIST_FOREACH_NEXT(it, h) { g1.push_back(it); if (g1.size() > cap) break; }
                    A_LIST_FOREACH_PREV(it, h) { g2.push_back(it); if (g2.size() > cap) break; }
                    a_list_forsafe_next(jt, jn, h) { g3.push_back(jt); (void)jn; if (g3.size() > cap) break; }
                    a_list_forsafe_prev(jt, jn, h) { g4.push_back(jt); (void)jn; if (g4.size() > cap) break; }
                    if (g1 != L.seq[rr] || g3 != L.seq[rr] || g2 != rev || g4 != rev) { ck.fail("foreach", "an upper-case plain loop or a lower-case safe loop does not visit the abstract sequence"); }
                    // a safe loop tolerates the loss of the current node: wreck its links inside the body (on a copy of the ring)
                    std::vector<a_list> copy(total + 1);
                    std::vector<a_list *> order;
                    size_t k = L.seq[rr].size();
                    a_list *ch = &copy[0];
                    for (size_t i = 0; i <= k; ++i) { copy[i].next = &copy[(i + 1) % (k + 1)]; copy[i].prev = &copy[(i + k) % (k + 1)]; }
                    A_LIST_FORSAFE_NEXT(it, at, ch) { order.push_back(it); it->next = it->prev = nullptr; if (order.size() > cap) break; }
                    bool ok = order.size() == k;
                    for (size_t i = 0; i < k && ok; ++i) { ok = order[i] == &copy[i + 1]; }
                    if (!ok) { ck.fail("foreach", "the safe forward loop does not survive the removal of the current node"); }
                }
            }
            return true;
        }
        }
        return false;
    }
    std::vector<xs::Op> menu(const std::string &key) const
    {
        int len[2] = {(int)key[0], (int)key[1]};
        int total = len[0] + len[1];
        std::vector<xs::Op> ops;
        auto add = [&](int code, long a = 0, long b = 0, long c = 0) { ops.push_back(xs::Op{code, a, b, c}); };
        for (int r = 0; r < 2; ++r)
        {
            for (int p = 0; p <= len[r]; ++p)
            {
                long P = r * 100 + p;
                if (total < N) { add(L_ADD_NEXT, P); add(L_ADD_PREV, P); add(L_ADD_NODE, P, 1); }
                if (total + 2 <= N) { add(L_ADD_SEC, P, 2); }
                add(L_DEL_NODE, P); add(L_DEL_NEXT, P); add(L_DEL_PREV, P);
                add(L_SET_NODE, P);
                add(L_MOV_NEXT, P); add(L_MOV_PREV, P);
                for (int q = p; q <= len[r]; ++q)
                {
                    if (p == 0) { break; }
                    add(L_DEL_SEC, P, r * 100 + q);
                    for (int cl = 1; cl <= 2; ++cl) { if (total - (q - p + 1) + cl <= N) { add(L_SET_SEC, P, r * 100 + q, cl); } }
                    for (int r2 = r; r2 < 2; ++r2)
                    {
                        for (int p2 = 1; p2 <= len[r2]; ++p2) { for (int q2 = p2; q2 <= len[r2]; ++q2) { add(L_SWAP_SEC, P, r * 100 + q, (long)(r2 * 100 + p2) * 10000 + (r2 * 100 + q2)); } }
                    }
                }
                for (int r2 = 0; r2 < 2; ++r2) { for (int p2 = 1; p2 <= len[r2]; ++p2) { add(L_SWAP_NODE, P, r2 * 100 + p2); } }
            }
            add(L_ROT_NEXT, r * 100); add(L_ROT_PREV, r * 100);
        }
        add(L_FOREACH);
        return ops;
    }
    void expand(const std::string &key, uint32_t, xs::Sink &out)
    {
        for (const xs::Op &o : menu(key))
        {
            if (!out.enter(o)) { continue; }
            ListLive L;
            make(L, key);
            Ck ck;
            bool applicable = apply(L, o, ck);
            if (applicable && ck.ok()) { check(L, ck); }
            out.leave();
            if (!applicable) { continue; }
            if (!ck.ok()) { out.viol(o, std::string("list|") + l_names[o.code] + "|" + ck.cls, op_str(o) + " on " + key_str(key) + ": " + ck.err); continue; }
            out.succ(o, encode(L), l_names[o.code], "ok");
        }
    }
    bool api_build(ListLive &L, const std::vector<xs::Op> &path, std::string &err)
    {
        for (size_t i = 0; i < path.size(); ++i)
        {
            Ck ck;
            if (!apply(L, path[i], ck)) { err = "inapplicable op in replay"; return false; }
            if (ck.ok()) { check(L, ck); }
            if (!ck.ok()) { err = std::string("list|") + l_names[path[i].code] + "|" + ck.cls + " at step " + std::to_string(i); return false; }
        }
        return true;
    }
    bool replay(const std::vector<xs::Op> &path, std::string &key, std::string &err)
    {
        ListLive L;
        if (!api_build(L, path, err)) { return false; }
        key = encode(L);
        return true;
    }
};

// =====================================================================================================
// 2. singly linked list with tail pointer: two lists, state = (lenA, lenB)
// =====================================================================================================
enum { S_ADD_HEAD = 1, S_ADD_TAIL, S_ADD, S_DEL, S_DEL_HEAD, S_ROT, S_MOV, S_FOREACH };
static const char *s_names[] = {"?", "add_head", "add_tail", "add", "del", "del_head", "rot", "mov", "foreach"};

struct SlistLive
{
    static const int MAXP = 16;
    a_slist list[2];
    a_slist_node pool[MAXP];
    int used = 0;
    std::vector<a_slist_node *> seq[2];
    SlistLive()
    {
        a_slist_ctor(&list[0]);
        a_slist_ctor(&list[1]);
        for (auto &n : pool) { n.next = (a_slist_node *)(uintptr_t)0xDEAD0000DEAD0ull; }
    }
    a_slist_node *fresh() { return &pool[used++]; }
    a_slist_node *at(int l, int pos) { return pos == 0 ? &list[l].head : seq[l][pos - 1]; }
};

struct SlistH
{
    int N = 5;
    std::string job;
    const std::vector<xs::Op> *via_api = nullptr;
    std::string init_key() { return std::string("\0\0", 2); }
    static std::string encode(const SlistLive &L)
    {
        std::string k;
        k += (char)L.seq[0].size();
        k += (char)L.seq[1].size();
        return k;
    }
    std::string key_str(const std::string &k) const { return "slists{lenA=" + std::to_string((int)k[0]) + " lenB=" + std::to_string((int)k[1]) + "}"; }
    std::string op_str(const xs::Op &o) const
    {
        auto pos = [](long v) { return std::string(v / 100 ? "B" : "A") + (v % 100 == 0 ? ".head" : "[" + std::to_string(v % 100 - 1) + "]"); };
        std::string s = s_names[o.code];
        switch (o.code)
        {
        case S_ADD_HEAD: case S_ADD_TAIL: case S_DEL_HEAD: case S_ROT: return s + "(" + (o.a / 100 ? "B" : "A") + ")";
        case S_ADD: case S_DEL: return s + "(prev=" + pos(o.a) + ")";
        case S_MOV: return s + "(" + (o.a / 100 ? "A" : "B") + " -> after " + pos(o.a) + ")";
        }
        return s;
    }
    std::string op_sig(const xs::Op &o, const std::string &) const { return std::string("slist|") + s_names[o.code]; }
    void decode(SlistLive &L, const std::string &key)
    {
        for (int l = 0; l < 2; ++l)
        {
            a_slist_node *last = &L.list[l].head;
            for (int i = 0; i < (int)key[l]; ++i)
            {
                a_slist_node *n = L.fresh();
                L.seq[l].push_back(n);
                last->next = n;
                last = n;
            }
            last->next = nullptr;
            L.list[l].tail = last;
        }
    }
    void make(SlistLive &L, const std::string &key)
    {
        if (!via_api) { decode(L, key); return; }
        std::string err;
        if (!api_build(L, *via_api, err) || encode(L) != key) { fprintf(stderr, "replay: cannot rebuild state (%s)\n", err.c_str()); _exit(4); }
    }
    static bool check(SlistLive &L, Ck &ck)
    {
        for (int l = 0; l < 2; ++l)
        {
            std::vector<a_slist_node *> fwd;
            a_slist_node *last = &L.list[l].head;
            for (a_slist_node *it = L.list[l].head.next; it; it = it->next)
            {
                if (it < L.pool || it >= L.pool + SlistLive::MAXP) { return ck.fail("wild-pointer", "a next link leaves the node pool"); }
                fwd.push_back(it);
                last = it;
                if (fwd.size() > SlistLive::MAXP + 1) { return ck.fail("cycle", "the forward walk does not end"); }
            }
            if (fwd != L.seq[l]) { return ck.fail("sequence", std::string("list ") + (l ? "B" : "A") + " does not hold the abstract sequence (" + std::to_string(fwd.size()) + " vs " + std::to_string(L.seq[l].size()) + " nodes)"); }
            if (L.list[l].tail != last) { return ck.fail("tail", std::string("the tail of list ") + (l ? "B" : "A") + " does not designate its last node"); }
            if (L.list[l].tail->next != nullptr) { return ck.fail("tail", "tail->next is not null"); }
        }
        return true;
    }
    bool apply(SlistLive &L, const xs::Op &o, Ck &ck)
    {
        int l = (int)(o.a / 100), p = (int)(o.a % 100);
        if (l > 1 || p > (int)L.seq[l].size()) { return false; }
        auto &S = L.seq[l];
        a_slist *ctx = &L.list[l];
        switch (o.code)
        {
        case S_ADD_HEAD: { if (L.used >= SlistLive::MAXP) { return false; } a_slist_node *n = L.fresh(); a_slist_add_head(ctx, n); S.insert(S.begin(), n); return true; }
        case S_ADD_TAIL: { if (L.used >= SlistLive::MAXP) { return false; } a_slist_node *n = L.fresh(); a_slist_add_tail(ctx, n); S.push_back(n); return true; }
        case S_ADD: { if (L.used >= SlistLive::MAXP) { return false; } a_slist_node *n = L.fresh(); a_slist_add(ctx, L.at(l, p), n); S.insert(S.begin() + p, n); return true; }
        case S_DEL: a_slist_del(ctx, L.at(l, p)); if (p < (int)S.size()) { S.erase(S.begin() + p); } return true;
        case S_DEL_HEAD: a_slist_del_head(ctx); if (!S.empty()) { S.erase(S.begin()); } return true;
        case S_ROT: a_slist_rot(ctx); if (!S.empty()) { a_slist_node *x = S.front(); S.erase(S.begin()); S.push_back(x); } return true;
        case S_MOV:
        {
            // move the whole other list after position p of this list, then re-initialise the source (usage in test/slist.h)
            a_slist *src = &L.list[1 - l];
            auto &O = L.seq[1 - l];
            a_slist_mov(src, ctx, L.at(l, p));
            a_slist_dtor(src);
            S.insert(S.begin() + p, O.begin(), O.end());
            O.clear();
            return true;
        }
        case S_FOREACH:
        {
            for (int ll = 0; ll < 2; ++ll)
            {
                std::vector<a_slist_node *> f1, f2;
                a_slist_foreach(it, &L.list[ll]) { f1.push_back(it); if (f1.size() > SlistLive::MAXP) break; }
                a_slist_node *it, *at;
                A_SLIST_FORSAFE(it, at, &L.list[ll]) { f2.push_back(it); if (f2.size() > SlistLive::MAXP) break; }
                if (f1 != L.seq[ll] || f2 != L.seq[ll]) { ck.fail("foreach", "the loop macros do not visit the abstract sequence"); }
                {
                    std::vector<a_slist_node *> g1, g2;
                    A_SLIST_FOREACH(it, &L.list[ll]) { g1.push_back(it); if (g1.size() > SlistLive::MAXP) break; }
                    a_slist_forsafe(jt, jn, &L.list[ll]) { g2.push_back(jt); (void)jn; if (g2.size() > SlistLive::MAXP) break; }
                    if (g1 != L.seq[ll] || g2 != L.seq[ll]) { ck.fail("foreach", "the upper-case plain loop or the lower-case safe loop does not visit the abstract sequence"); }
                }
            }
            return true;
        }
        }
        return false;
    }
    std::vector<xs::Op> menu(const std::string &key) const
    {
        int len[2] = {(int)key[0], (int)key[1]};
        std::vector<xs::Op> ops;
        auto add = [&](int code, long a = 0) { ops.push_back(xs::Op{code, a, 0, 0}); };
        for (int l = 0; l < 2; ++l)
        {
            if (len[0] + len[1] < N) { add(S_ADD_HEAD, l * 100); add(S_ADD_TAIL, l * 100); for (int p = 0; p <= len[l]; ++p) { add(S_ADD, l * 100 + p); } }
            for (int p = 0; p <= len[l]; ++p) { add(S_DEL, l * 100 + p); add(S_MOV, l * 100 + p); }
            add(S_DEL_HEAD, l * 100); add(S_ROT, l * 100);
        }
        add(S_FOREACH);
        return ops;
    }
    void expand(const std::string &key, uint32_t, xs::Sink &out)
    {
        for (const xs::Op &o : menu(key))
        {
            if (!out.enter(o)) { continue; }
            SlistLive L;
            make(L, key);
            Ck ck;
            bool applicable = apply(L, o, ck);
            if (applicable && ck.ok()) { check(L, ck); }
            out.leave();
            if (!applicable) { continue; }
            int len = (int)key[o.a / 100 ? 1 : 0];
            if (!ck.ok()) { out.viol(o, std::string("slist|") + s_names[o.code] + "|len=" + (len > 2 ? std::string("3+") : std::to_string(len)) + "|" + ck.cls, op_str(o) + " on " + key_str(key) + ": " + ck.err); continue; }
            out.succ(o, encode(L), s_names[o.code], len == 0 ? "empty" : len == 1 ? "single" : "many");
        }
    }
    bool api_build(SlistLive &L, const std::vector<xs::Op> &path, std::string &err)
    {
        for (size_t i = 0; i < path.size(); ++i)
        {
            Ck ck;
            if (!apply(L, path[i], ck)) { err = "inapplicable op in replay"; return false; }
            if (ck.ok()) { check(L, ck); }
            if (!ck.ok()) { err = std::string("slist|") + s_names[path[i].code] + "|" + ck.cls + " at step " + std::to_string(i); return false; }
        }
        return true;
    }
    bool replay(const std::vector<xs::Op> &path, std::string &key, std::string &err)
    {
        SlistLive L;
        if (!api_build(L, path, err)) { return false; }
        key = encode(L);
        return true;
    }
};

// =====================================================================================================
// 3. queue (src/que.c): state = (element size, value sequence, pool cursor, pool capacity)
// =====================================================================================================
enum
{
    Q_PUSH_FORE = 1, Q_PUSH_BACK, Q_PULL_FORE, Q_PULL_BACK, Q_INSERT, Q_REMOVE, Q_PUSH_SORT, Q_SORT_FORE, Q_SORT_BACK,
    Q_SWAP_ELEM, Q_SWAP_QUE, Q_DROP, Q_SETZ, Q_ACCESS, Q_DIE, Q_REQUEUE
};
static const char *q_names[] = {"?", "push_fore", "push_back", "pull_fore", "pull_back", "insert", "remove", "push_sort", "sort_fore", "sort_back",
                                "swap_", "swap", "drop", "setz", "access", "die", "requeue"};

static inline unsigned char ebyte(unsigned char b0, size_t j) { return j == 0 ? b0 : (unsigned char)(b0 * 31u + j * 17u + 5u); }
static void fill_elem(void *p, unsigned char b0, size_t siz) { for (size_t j = 0; j < siz; ++j) { ((unsigned char *)p)[j] = ebyte(b0, j); } }
static bool elem_is(const void *p, unsigned char b0, size_t siz)
{
    for (size_t j = 0; j < siz; ++j) { if (((const unsigned char *)p)[j] != ebyte(b0, j)) { return false; } }
    return true;
}
// the key handed to push_sort is documented as "the key on the right", the object handed to search goes to the left (bsearch):
// callers may rely on it with a key of another layout than the elements.  The key is recognised by its address.
static const void *g_key_ptr;
static int g_key_side; // 0: not checked, 1: the key must be the left argument, 2: the right one
static bool g_key_side_bad;
static int cmp_key(void const *l, void const *r)
{
    if (g_key_side == 1 && l != g_key_ptr) { g_key_side_bad = true; }
    if (g_key_side == 2 && r != g_key_ptr) { g_key_side_bad = true; }
    int a = *(unsigned char const *)l >> 4, b = *(unsigned char const *)r >> 4;
    // any negative / zero / positive value is a valid answer: magnitudes other than one catch code that uses the result as +-1
    return a > b ? 3 : a < b ? -5 : 0;
}
static std::vector<unsigned char> dtor_log;
static void log_dtor(void *p) { dtor_log.push_back(*(unsigned char *)p); }

struct QElem
{
    unsigned char b0;
    void *addr; // address the element had when it was enqueued
};
struct QueLive
{
    a_que *q = nullptr, *aux = nullptr;
    std::vector<QElem> m, am;
};
static unsigned char fresh_b0(const std::vector<QElem> &m, int key)
{
    for (int s = 0; s < 16; ++s)
    {
        unsigned char b = (unsigned char)(key << 4 | s);
        bool used = false;
        for (auto &e : m) { if (e.b0 == b) { used = true; } }
        if (!used) { return b; }
    }
    return (unsigned char)(key << 4 | 15);
}

struct QueH
{
    int N = 4;
    size_t siz0 = 4, siz2 = 0;
    int nkeys = 2;
    bool faults = false;
    std::string job;
    const std::vector<xs::Op> *via_api = nullptr;
    uint64_t fault_runs = 0;

    static std::string encode(const QueLive &L)
    {
        std::string k;
        k += (char)L.q->siz_;
        k += (char)L.q->cur_;
        k += (char)L.q->mem_;
        for (a_list *it = L.q->head_.next; it != &L.q->head_; it = it->next) { k += (char)('0' + (*(unsigned char *)(it + 1) >> 4)); if (k.size() > 64) { break; } }
        return k;
    }
    std::string init_key()
    {
        shim::reset();
        QueLive L;
        L.q = a_que_new(siz0);
        return encode(L);
    }
    std::string key_str(const std::string &k) const
    {
        return "que{siz=" + std::to_string((unsigned char)k[0]) + " pool=" + std::to_string((unsigned char)k[1]) + "/" + std::to_string((unsigned char)k[2]) + " [" + k.substr(3) + "]}";
    }
    std::string op_str(const xs::Op &o) const
    {
        std::string s = q_names[o.code];
        switch (o.code)
        {
        case Q_PUSH_FORE: case Q_PUSH_BACK: case Q_PUSH_SORT: return s + "(key=" + std::to_string(o.a) + ")";
        case Q_REQUEUE: return "pull_fore, edit the pulled element to key " + std::to_string(o.a) + ", push_sort with the pulled element as key";
        case Q_INSERT: return s + "(idx=" + idx_str(o.a) + ",key=" + std::to_string(o.b) + ")";
        case Q_REMOVE: return s + "(idx=" + idx_str(o.a) + ")";
        case Q_SWAP_ELEM: return s + "(elem " + std::to_string(o.a) + ", elem " + std::to_string(o.b) + ")";
        case Q_SWAP_QUE: return s + "(other queue of " + std::to_string(o.a) + " elements" + (o.b ? ", element size " + std::to_string(o.b) : "") + (o.c ? ", " + std::to_string(o.c) + " recycled node(s)" : "") + ")";
        case Q_DROP: return s + (o.a ? "(dtor)" : "()");
        case Q_SETZ: return s + "(" + std::to_string(o.a) + ")";
        }
        return s;
    }
    std::string arg_class(const xs::Op &o, size_t num) const
    {
        auto cls = [&](long v) -> std::string { return v == SMAX ? "SIZE_MAX" : (size_t)v < num ? "in-range" : (size_t)v == num ? "at-end" : "beyond"; };
        switch (o.code)
        {
        case Q_INSERT: case Q_REMOVE: return "idx:" + cls(o.a);
        case Q_SWAP_ELEM: return o.a == o.b ? "same" : (o.a - o.b == 1 || o.b - o.a == 1) ? "adjacent" : "distinct";
        case Q_SWAP_QUE: return std::string(o.a ? "other-nonempty" : "other-empty") + (o.b ? "-resized" : "") + (o.c ? "-pooled" : "");
        }
        return "-";
    }
    std::string op_sig(const xs::Op &o, const std::string &key) const { return std::string("que|") + q_names[o.code] + "|" + arg_class(o, key.size() - 3); }

    void decode(QueLive &L, const std::string &key)
    {
        size_t siz = (unsigned char)key[0], cur = (unsigned char)key[1], mem = (unsigned char)key[2];
        L.q = (a_que *)a_alloc(nullptr, sizeof(a_que));
        a_que_ctor(L.q, siz);
        for (size_t i = 3; i < key.size(); ++i)
        {
            a_list *n = (a_list *)a_alloc(nullptr, sizeof(a_list) + siz);
            a_list_add_prev(&L.q->head_, n);
            unsigned char b0 = (unsigned char)((key[i] - '0') << 4 | ((i - 3) & 15));
            fill_elem(n + 1, b0, siz);
            L.m.push_back(QElem{b0, n + 1});
        }
        L.q->num_ = key.size() - 3;
        if (mem)
        {
            L.q->ptr_ = (a_list **)a_alloc(nullptr, sizeof(void *) * mem);
            L.q->mem_ = mem;
            for (size_t i = 0; i < cur; ++i) { L.q->ptr_[i] = (a_list *)a_alloc(nullptr, sizeof(a_list) + siz); }
            L.q->cur_ = cur;
        }
    }
    void make(QueLive &L, const std::string &key)
    {
        shim::reset();
        if (!via_api) { decode(L, key); return; }
        std::string err;
        if (!api_build(L, *via_api, err) || encode(L) != key) { fprintf(stderr, "replay: cannot rebuild state (%s)\n", err.c_str()); _exit(4); }
    }
    void destroy(QueLive &L, Ck &ck)
    {
        a_que_die(L.q, nullptr);
        L.q = nullptr;
        if (L.aux) { a_que_die(L.aux, nullptr); L.aux = nullptr; }
        if (shim::st().live_blocks != 0) { ck.fail("leak", std::to_string(shim::st().live_blocks) + " block(s) still allocated after the queue was destroyed"); }
        if (!shim::st().error.empty()) { ck.fail("memory", shim::st().error); }
    }
    // ring integrity from the queue's own sentinel, contents, addresses, pool
    static bool check_que(a_que *q, const std::vector<QElem> &m, Ck &ck, bool addresses = true)
    {
        a_list *h = &q->head_;
        std::vector<a_list *> fwd, bwd;
        size_t limit = m.size() + 40;
        for (a_list *it = h->next; it != h; it = it->next)
        {
            if (!shim::is_live(it)) { return ck.fail("ring-broken", "the forward walk from the queue's own sentinel reaches memory that is not a live node (e.g. another queue's header)"); }
            fwd.push_back(it);
            if (fwd.size() > limit) { return ck.fail("ring-open", "the forward walk does not return to the sentinel"); }
        }
        for (a_list *it = h->prev; it != h; it = it->prev)
        {
            if (!shim::is_live(it)) { return ck.fail("ring-broken", "the backward walk from the queue's own sentinel reaches memory that is not a live node"); }
            bwd.push_back(it);
            if (bwd.size() > limit) { return ck.fail("ring-open", "the backward walk does not return to the sentinel"); }
        }
        a_list *it = h;
        do {
            if (it->next->prev != it || it->prev->next != it) { return ck.fail("link-mismatch", "forward and backward links disagree"); }
            it = it->next;
        } while (it != h);
        if (q->num_ != m.size()) { return ck.fail("length", "num_ is " + std::to_string(q->num_) + ", the abstract sequence has " + std::to_string(m.size())); }
        if (fwd.size() != m.size()) { return ck.fail("sequence", "the ring holds " + std::to_string(fwd.size()) + " elements, the abstract sequence " + std::to_string(m.size())); }
        std::set<void *> enq;
        for (size_t i = 0; i < m.size(); ++i)
        {
            if (shim::size_of(fwd[i]) < sizeof(a_list) + q->siz_) { return ck.fail("node-too-small", "an enqueued node is smaller than the element size needs"); }
            if (!elem_is(fwd[i] + 1, m[i].b0, q->siz_)) { return ck.fail("sequence", "element " + std::to_string(i) + " differs from the abstract sequence"); }
            if (addresses && (void *)(fwd[i] + 1) != m[i].addr) { return ck.fail("address-moved", "element " + std::to_string(i) + " is not at the address it was enqueued at"); }
            enq.insert(fwd[i]);
            if (bwd[m.size() - 1 - i] != fwd[i]) { return ck.fail("sequence-backward", "the backward walk is not the reverse of the forward walk"); }
        }
        if (q->cur_ > q->mem_) { return ck.fail("pool", "pool cursor beyond pool capacity"); }
        if (q->mem_ && (!shim::is_live(q->ptr_) || shim::size_of(q->ptr_) < q->mem_ * sizeof(void *))) { return ck.fail("pool", "the pool array is smaller than its recorded capacity"); }
        std::set<void *> pooled;
        for (size_t i = 0; i < q->cur_; ++i)
        {
            a_list *n = q->ptr_[i];
            if (!shim::is_live(n)) { return ck.fail("pool", "a pooled node is not a live block"); }
            if (enq.count(n)) { return ck.fail("recycled-while-enqueued", "a node is in the recycle pool while still enqueued"); }
            if (!pooled.insert(n).second) { return ck.fail("pool", "a node is in the recycle pool twice"); }
            if (shim::size_of(n) < sizeof(a_list) + q->siz_) { return ck.fail("node-too-small", "a pooled node is smaller than the element size needs"); }
        }
        if (!shim::check()) { return ck.fail("memory", shim::st().error); }
        return true;
    }
    static bool sorted(const std::vector<QElem> &m, size_t from, size_t to)
    {
        for (size_t i = from + 1; i < to; ++i) { if ((m[i - 1].b0 >> 4) > (m[i].b0 >> 4)) { return false; } }
        return true;
    }
    // a newly handed-out element address: must be a live node block, big enough, and not an element that is still enqueued
    bool check_new(QueLive &L, void *p, Ck &ck)
    {
        if (!p) { return ck.fail("refused", "the operation returned null although memory is available"); }
        a_list *n = (a_list *)p - 1;
        if (!shim::is_live(n) || shim::size_of(n) < sizeof(a_list) + L.q->siz_) { return ck.fail("bad-node", "the returned element is not inside a live node block of sufficient size"); }
        for (auto &e : L.m) { if (e.addr == p) { return ck.fail("recycled-while-enqueued", "the returned element address belongs to an element that is still enqueued"); } }
        return true;
    }

    void apply(QueLive &L, const xs::Op &o, Ck &ck, std::string &outcome)
    {
        a_que *q = L.q;
        size_t siz = q->siz_, num = q->num_;
        auto &m = L.m;
        auto A = [](long v) -> a_size { return v == SMAX ? (a_size)-1 : (a_size)v; };
        switch (o.code)
        {
        case Q_PUSH_FORE: case Q_PUSH_BACK: case Q_INSERT:
        {
            int key = (int)(o.code == Q_INSERT ? o.b : o.a);
            size_t at = o.code == Q_PUSH_FORE ? 0 : o.code == Q_PUSH_BACK ? num : (A(o.a) < num ? A(o.a) : num);
            bool recycled = q->cur_ > 0;
            void *p = o.code == Q_PUSH_FORE ? a_que_push_fore(q) : o.code == Q_PUSH_BACK ? a_que_push_back(q) : a_que_insert(q, A(o.a));
            outcome = recycled ? "recycled-node" : "fresh-node";
            if (!check_new(L, p, ck)) { return; }
            unsigned char b0 = fresh_b0(m, key);
            fill_elem(p, b0, siz);
            m.insert(m.begin() + at, QElem{b0, p});
            break;
        }
        case Q_PUSH_SORT:
        {
            int key = (int)o.a;
            unsigned char b0 = fresh_b0(m, key);
            unsigned char probe[32];
            fill_elem(probe, b0, siz);
            bool recycled = q->cur_ > 0;
            g_key_ptr = probe; g_key_side = 2; g_key_side_bad = false;
            void *p = a_que_push_sort(q, probe, cmp_key);
            g_key_side = 0;
            if (g_key_side_bad) { ck.fail("comparator-arguments", "push_sort called the comparator without the key on the right"); return; }
            outcome = recycled ? "recycled-node" : "fresh-node";
            if (!check_new(L, p, ck)) { return; }
            fill_elem(p, b0, siz);
            // linear scan from the back: goes after the last element that is <= key
            size_t i = num;
            while (i > 0 && (m[i - 1].b0 >> 4) > key) { --i; }
            m.insert(m.begin() + i, QElem{b0, p});
            break;
        }
        case Q_PULL_FORE: case Q_PULL_BACK: case Q_REMOVE:
        {
            size_t at = o.code == Q_PULL_FORE ? 0 : o.code == Q_PULL_BACK ? (num ? num - 1 : 0) : (A(o.a) < num ? A(o.a) : (num ? num - 1 : 0));
            void *p = o.code == Q_PULL_FORE ? a_que_pull_fore(q) : o.code == Q_PULL_BACK ? a_que_pull_back(q) : a_que_remove(q, A(o.a));
            if (num == 0)
            {
                outcome = "empty";
                if (p) { ck.fail("pull-from-empty", "removal from an empty queue returned an element"); }
                return;
            }
            outcome = "removed";
            if (!p) { ck.fail("refused", "removal from a non-empty queue returned null"); return; }
            if (p != m[at].addr || !elem_is(p, m[at].b0, siz)) { ck.fail("removed-element", "the returned pointer is not the removed element"); return; }
            m.erase(m.begin() + at);
            break;
        }
        case Q_REQUEUE:
        {
            // re-queueing with a new priority: the element just pulled is edited in place and handed to push_sort as the key (its node is the
            // one push_sort takes from the pool, so key and new slot are the same memory: the key must survive until it has been compared)
            if (num == 0) { outcome = "empty"; return; }
            void *p = a_que_pull_fore(q);
            if (!p || p != m[0].addr) { ck.fail("removed-element", "pull_fore did not return the first element"); return; }
            m.erase(m.begin());
            int key = (int)o.a;
            unsigned char b0 = fresh_b0(m, key);
            fill_elem(p, b0, siz);
            g_key_ptr = p; g_key_side = 2; g_key_side_bad = false;
            void *r = a_que_push_sort(q, p, cmp_key);
            g_key_side = 0;
            if (g_key_side_bad) { ck.fail("comparator-arguments", "push_sort called the comparator without the key on the right"); return; }
            outcome = "requeued";
            if (!r) { ck.fail("refused", "push_sort failed although memory is available"); return; }
            fill_elem(r, b0, siz);
            size_t i = m.size();
            while (i > 0 && (m[i - 1].b0 >> 4) > key) { --i; }
            m.insert(m.begin() + i, QElem{b0, r});
            break;
        }
        case Q_SORT_FORE:
        {
            a_que_sort_fore(q, cmp_key);
            outcome = num < 2 ? "trivial" : sorted(m, 1, num) ? "sorted-rest" : "unsorted-rest";
            if (num > 1)
            {
                QElem e = m.front();
                size_t j = 1;
                while (j < num && (m[j].b0 >> 4) < (e.b0 >> 4)) { ++j; } // first element >= e stops the scan
                m.erase(m.begin());
                m.insert(m.begin() + (j - 1), e);
            }
            break;
        }
        case Q_SORT_BACK:
        {
            a_que_sort_back(q, cmp_key);
            outcome = num < 2 ? "trivial" : sorted(m, 0, num - 1) ? "sorted-rest" : "unsorted-rest";
            if (num > 1)
            {
                QElem e = m.back();
                m.pop_back();
                size_t j = m.size();
                while (j > 0 && (m[j - 1].b0 >> 4) > (e.b0 >> 4)) { --j; }
                m.insert(m.begin() + j, e);
            }
            break;
        }
        case Q_SWAP_ELEM:
        {
            size_t i = (size_t)o.a, j = (size_t)o.b;
            a_que_swap_(m[i].addr, m[j].addr);
            outcome = i == j ? "same" : (i + 1 == j || j + 1 == i) ? "adjacent" : "distinct";
            std::swap(m[i], m[j]);
            break;
        }
        case Q_SWAP_QUE:
        {
            // o.a elements in the other queue, o.b its element size (0: the same), o.c recycled nodes in its pool
            size_t osiz = o.b ? (size_t)o.b : siz, ocur0 = q->cur_;
            L.aux = a_que_new(osiz);
            for (long i = 0; i < o.c; ++i) { a_que_push_back(L.aux); }
            for (long i = 0; i < o.c; ++i) { a_que_pull_back(L.aux); }
            for (long i = 0; i < o.a; ++i)
            {
                void *p = a_que_push_back(L.aux);
                unsigned char b0 = (unsigned char)(((nkeys - 1) << 4) | (14 + i));
                fill_elem(p, b0, osiz);
                L.am.push_back(QElem{b0, p});
            }
            size_t ocur = L.aux->cur_;
            a_que_swap(L.q, L.aux);
            outcome = std::string(o.a ? "other-nonempty" : "other-empty") + (o.b ? "-resized" : "") + (o.c ? "-pooled" : "");
            std::swap(m, L.am);
            if (L.q->siz_ != osiz || L.aux->siz_ != siz) { ck.fail("swap-size", "the element sizes did not change sides with the contents (" + std::to_string(L.q->siz_) + "/" + std::to_string(L.aux->siz_) + ", expected " + std::to_string(osiz) + "/" + std::to_string(siz) + ")"); return; }
            if (L.q->cur_ != ocur || L.aux->cur_ != ocur0) { ck.fail("swap-pool", "the pools of recycled nodes did not change sides with the contents"); return; }
            Ck ck2;
            if (!check_que(L.aux, L.am, ck2)) { ck.fail(ck2.cls.c_str(), "the other queue after the swap: " + ck2.err); return; }
            break;
        }
        case Q_DROP:
        {
            dtor_log.clear();
            int rc = a_que_drop(q, o.a ? log_dtor : nullptr);
            outcome = num ? "dropped" : "empty";
            if (rc != A_SUCCESS) { ck.fail("refused", "drop failed although memory is available"); return; }
            m.clear();
            if (o.a && dtor_log.size() != q->cur_) { ck.fail("drop-dtor", "drop did not run the destructor once per pooled element"); return; }
            break;
        }
        case Q_SETZ:
        {
            dtor_log.clear();
            int rc = a_que_setz(q, (a_size)o.a, log_dtor);
            outcome = (size_t)o.a > siz ? "grown" : (size_t)o.a == siz ? "same" : "shrunk";
            if (rc != A_SUCCESS) { ck.fail("refused", "setz failed although memory is available"); return; }
            if (q->siz_ != (o.a ? (size_t)o.a : 1)) { ck.fail("setz-size", "element size after setz is " + std::to_string(q->siz_)); return; }
            m.clear();
            break;
        }
        }
    }
    void check_access(QueLive &L, Ck &ck)
    {
        a_que *q = L.q;
        auto &m = L.m;
        long num = (long)m.size();
        if (a_que_num(q) != (size_t)num || a_que_siz(q) != q->siz_) { ck.fail("accessor", "num/siz accessors"); return; }
        for (long i = -num - 1; i <= num; ++i)
        {
            void *p = a_que_at(q, (a_diff)i);
            void *want = i >= 0 ? (i < num ? m[i].addr : nullptr) : (-i <= num ? m[num + i].addr : nullptr);
            if (p != want) { ck.fail("accessor-at", "at(" + std::to_string(i) + ") with " + std::to_string(num) + " elements"); return; }
        }
        if (a_que_fore(q) != (num ? m.front().addr : nullptr) || a_que_back(q) != (num ? m.back().addr : nullptr)) { ck.fail("accessor-ends", "fore()/back()"); return; }
        if (num && (a_que_fore_(q) != m.front().addr || a_que_back_(q) != m.back().addr)) { ck.fail("accessor-ends", "fore_()/back_()"); return; }
        std::vector<void *> f1, f2, f3, f4, want, rwant;
        for (auto &e : m) { want.push_back(e.addr); }
        rwant.assign(want.rbegin(), want.rend());
        size_t cap = m.size() + 3;
        a_que_foreach(unsigned char, *, it, q) { f1.push_back(it); if (f1.size() > cap) break; }
        a_que_foreach_reverse(unsigned char, *, it, q) { f2.push_back(it); if (f2.size() > cap) break; }
        unsigned char *it, *at;
        A_QUE_FOREACH(unsigned char *, it, at, q) { f3.push_back(it); if (f3.size() > cap) break; }
        A_QUE_FOREACH_REVERSE(unsigned char *, it, at, q) { f4.push_back(it); if (f4.size() > cap) break; }
        if (f1 != want || f3 != want) { ck.fail("foreach", "the forward loop macros do not visit the elements in order"); return; }
        if (f2 != rwant || f4 != rwant) { ck.fail("foreach", "the reverse loop macros do not visit the elements in reverse order"); return; }
    }

    std::vector<xs::Op> menu(const std::string &key) const
    {
        size_t siz = (unsigned char)key[0], num = key.size() - 3, cur = (unsigned char)key[1];
        std::vector<xs::Op> ops;
        auto add = [&](int code, long a = 0, long b = 0, long c = 0) { ops.push_back(xs::Op{code, a, b, c}); };
        bool grow = num + cur < (size_t)N || (num < (size_t)N && cur > 0);
        if (grow)
        {
            for (int k = 0; k < nkeys; ++k) { add(Q_PUSH_FORE, k); add(Q_PUSH_BACK, k); add(Q_PUSH_SORT, k); }
            for (size_t i = 0; i <= num; ++i) { add(Q_INSERT, (long)i, nkeys - 1); }
            add(Q_INSERT, SMAX, 0);
        }
        add(Q_PULL_FORE); add(Q_PULL_BACK);
        for (size_t i = 0; i <= num; ++i) { add(Q_REMOVE, (long)i); }
        add(Q_REMOVE, SMAX);
        add(Q_SORT_FORE); add(Q_SORT_BACK);
        if (num) { for (int k = 0; k < nkeys; ++k) { add(Q_REQUEUE, k); } }
        for (size_t i = 0; i < num; ++i) { for (size_t j = i; j < num; ++j) { add(Q_SWAP_ELEM, (long)i, (long)j); if (j != i) { add(Q_SWAP_ELEM, (long)j, (long)i); } } } // every ordered pair, adjacent elements included (the statement restricts only the list-level swap)
        if (num + cur + 2 <= (size_t)N + 2)
        {
            add(Q_SWAP_QUE, 0); add(Q_SWAP_QUE, 2);
            if (cur + 1 <= 2) { add(Q_SWAP_QUE, 0, 0, 1); }
            if (siz2)
            {
                long other = (long)(siz == siz0 ? siz2 : siz0);
                add(Q_SWAP_QUE, 0, other, 0); add(Q_SWAP_QUE, 2, other, 0);
                if (cur + 1 <= 2) { add(Q_SWAP_QUE, 0, other, 1); }
            }
        }
        add(Q_DROP, 0); add(Q_DROP, 1);
        add(Q_SETZ, (long)siz);
        if (siz2) { add(Q_SETZ, (long)(siz == siz0 ? siz2 : siz0)); }
        return ops;
    }
    void expand(const std::string &key, uint32_t, xs::Sink &out)
    {
        for (const xs::Op &o : menu(key))
        {
            if (!out.enter(o)) { continue; }
            QueLive L;
            make(L, key);
            Ck ck;
            std::string outcome;
            apply(L, o, ck, outcome);
            if (ck.ok()) { check_que(L.q, L.m, ck); }
            std::string k2;
            if (ck.ok()) { k2 = encode(L); destroy(L, ck); }
            out.leave();
            if (!ck.ok()) { out.viol(o, std::string("que|") + q_names[o.code] + "|" + arg_class(o, key.size() - 3) + "|" + ck.cls, op_str(o) + " on " + key_str(key) + ": " + ck.err); continue; }
            out.succ(o, k2, q_names[o.code], outcome.c_str());
        }
        {
            xs::Op o{Q_ACCESS, 0, 0, 0};
            if (out.enter(o))
            {
                QueLive L;
                make(L, key);
                Ck ck;
                check_access(L, ck);
                if (ck.ok() && encode(L) != key) { ck.fail("accessor", "accessors changed the queue"); }
                if (ck.ok()) { destroy(L, ck); }
                if (ck.ok() && !faults) { check_typed(key, ck); }
                out.leave();
                if (!ck.ok()) { out.viol(o, std::string("que|access|") + ck.cls, "accessors on " + key_str(key) + ": " + ck.err); }
                else { out.succ(o, key, "access", "all-indices"); }
            }
        }
        if (faults) { expand_faults(key, out); }
    }


    // ---- the typed macros of a/que.h: what the function of the same name gives, every argument expression evaluated exactly once
    static std::vector<unsigned char> ring_bytes(a_que *q)
    {
        std::vector<unsigned char> v;
        size_t guard = 0;
        for (a_list *it = q->head_.next; it != &q->head_ && guard < 64; it = it->next, ++guard) { v.push_back(*(unsigned char *)(it + 1)); }
        return v;
    }
    static long ring_rank(a_que *q, const void *p)
    {
        long r = 0;
        size_t guard = 0;
        for (a_list *it = q->head_.next; it != &q->head_ && guard < 64; it = it->next, ++guard, ++r) { if ((const void *)(it + 1) == p) { return r; } }
        return p ? -2 : -1;
    }
    void check_typed(const std::string &key, Ck &ck)
    {
        typedef unsigned char UC;
#define EV(x) (++ev, (x))
        int ev = 0;
        size_t num0;
        {
            QueLive L;
            make(L, key);
            a_que *q = L.q;
            num0 = q->num_;
#define TYPED_RO(n, name, mexpr, fexpr) \
    do { ev = 0; const void *pm_ = (const void *)(mexpr); const void *pf_ = (const void *)(fexpr); \
         if (ck.ok() && (pm_ != pf_ || ev != (n))) { ck.fail("typed-macro", std::string(name) + (ev != (n) ? " evaluates an argument " + std::to_string(ev) + " times in total instead of " + std::to_string(n) : " does not give what the function of the same name gives")); } } while (0)
            TYPED_RO(1, "FORE", A_QUE_FORE(UC, EV(q)), a_que_fore(q));
            TYPED_RO(1, "BACK", A_QUE_BACK(UC, EV(q)), a_que_back(q));
            if (num0) { TYPED_RO(1, "FORE_", A_QUE_FORE_(UC, EV(q)), a_que_fore_(q)); TYPED_RO(1, "BACK_", A_QUE_BACK_(UC, EV(q)), a_que_back_(q)); }
            for (long i = -(long)num0 - 1; i <= (long)num0 && ck.ok(); ++i)
            {
                long cur = i;
                TYPED_RO(2, "AT", A_QUE_AT(UC, EV(q), EV((a_diff)cur++)), a_que_at(q, (a_diff)i));
                if (ck.ok() && cur != i + 1) { ck.fail("typed-macro", "AT advanced the index expression more than once"); }
            }
#undef TYPED_RO
            if (ck.ok() && encode(L) != key) { ck.fail("typed-macro", "a read-only typed macro changed the queue"); }
            Ck dk;
            destroy(L, dk);
        }
        // mutating: 0 push_fore 1 push_back 2 insert(idx) 3 push_sort 4 pull_fore 5 pull_back 6 remove(idx)
        static const char *MN[7] = {"PUSH_FORE", "PUSH_BACK", "INSERT", "PUSH_SORT", "PULL_FORE", "PULL_BACK", "REMOVE"};
        for (int mth = 0; mth <= 6 && ck.ok(); ++mth)
        {
            if (mth <= 3 && num0 >= (size_t)N) { continue; }
            for (size_t idx = 0; idx <= (mth == 2 || mth == 6 ? num0 + 1 : 0) && ck.ok(); ++idx)
            {
                std::vector<unsigned char> seq[2];
                long rank[2] = {0, 0};
                size_t cnt[2] = {0, 0};
                unsigned char probe[32];
                for (int side = 0; side < 2; ++side)
                {
                    QueLive L;
                    make(L, key);
                    a_que *q = L.q;
                    fill_elem(probe, (unsigned char)(1 << 4 | 9), q->siz_);
                    void *p = nullptr;
                    size_t cur = idx;
                    ev = 0;
                    std::vector<unsigned char> pre = ring_bytes(q);
                    long pre_rank = -1;
                    if (side == 0)
                    {
                        switch (mth)
                        {
                        case 0: p = a_que_push_fore(q); break;
                        case 1: p = a_que_push_back(q); break;
                        case 2: p = a_que_insert(q, idx); break;
                        case 3: p = a_que_push_sort(q, probe, cmp_key); break;
                        case 4: pre_rank = ring_rank(q, a_que_fore(q)); p = a_que_pull_fore(q); break;
                        case 5: pre_rank = ring_rank(q, a_que_back(q)); p = a_que_pull_back(q); break;
                        case 6: p = a_que_remove(q, idx); break;
                        }
                    }
                    else
                    {
                        int want_ev = 1;
                        switch (mth)
                        {
                        case 0: p = A_QUE_PUSH_FORE(UC, EV(q)); break;
                        case 1: p = A_QUE_PUSH_BACK(UC, EV(q)); break;
                        case 2: p = A_QUE_INSERT(UC, EV(q), EV(cur++)); want_ev = 2; break;
                        case 3: p = A_QUE_PUSH_SORT(UC, EV(q), EV(probe), EV(cmp_key)); want_ev = 3; break;
                        case 4: p = A_QUE_PULL_FORE(UC, EV(q)); break;
                        case 5: p = A_QUE_PULL_BACK(UC, EV(q)); break;
                        case 6: p = A_QUE_REMOVE(UC, EV(q), EV(cur++)); want_ev = 2; break;
                        }
                        if (ev != want_ev) { ck.fail("typed-macro", std::string(MN[mth]) + " evaluates its arguments " + std::to_string(ev) + " times in total instead of " + std::to_string(want_ev)); }
                    }
                    (void)pre_rank;
                    if (p && mth <= 3) { fill_elem(p, (unsigned char)(1 << 4 | 9), q->siz_); }
                    // a removed element is identified by its first byte (unique among the enqueued ones), an added one by its rank
                    rank[side] = mth <= 3 ? ring_rank(q, p) : (p ? (long)*(unsigned char *)p : -1);
                    seq[side] = ring_bytes(q);
                    cnt[side] = q->num_;
                    (void)pre;
                    Ck dk;
                    destroy(L, dk);
                }
                if (ck.ok() && (rank[0] != rank[1] || seq[0] != seq[1] || cnt[0] != cnt[1])) { ck.fail("typed-macro", std::string(MN[mth]) + " does not do what the function of the same name does"); }
            }
        }
#undef EV
    }

    // ---- C07 (queue part): every allocation request of every operation fails, singly and from-there-on
    bool call_expect_failure(QueLive &L, const xs::Op &o)
    {
        a_que *q = L.q;
        auto A = [](long v) -> a_size { return v == SMAX ? (a_size)-1 : (a_size)v; };
        unsigned char probe[32];
        fill_elem(probe, (unsigned char)((o.a & 15) << 4), q->siz_);
        switch (o.code)
        {
        case Q_PUSH_FORE: return a_que_push_fore(q) == nullptr;
        case Q_PUSH_BACK: return a_que_push_back(q) == nullptr;
        case Q_INSERT: return a_que_insert(q, A(o.a)) == nullptr;
        case Q_PUSH_SORT: return a_que_push_sort(q, probe, cmp_key) == nullptr;
        case Q_PULL_FORE: return a_que_pull_fore(q) == nullptr;
        case Q_PULL_BACK: return a_que_pull_back(q) == nullptr;
        case Q_REMOVE: return a_que_remove(q, A(o.a)) == nullptr;
        case Q_DROP: return a_que_drop(q, o.a ? log_dtor : nullptr) == A_OMEMORY;
        case Q_SETZ: return a_que_setz(q, (a_size)o.a, log_dtor) == A_OMEMORY;
        case Q_SWAP_QUE: { a_que *x = a_que_new(q->siz_); if (x) { a_que_die(x, nullptr); } return x == nullptr; }
        }
        return true;
    }
    void expand_faults(const std::string &key, xs::Sink &out)
    {
        // destruction while the allocator refuses everything: it needs no memory, so every block is still released and every element destroyed
        for (int with_dtor = 0; with_dtor < 2; ++with_dtor)
        {
            xs::Op tag{Q_DIE, with_dtor, 0, 0};
            if (!out.enter(tag)) { continue; }
            QueLive L;
            make(L, key);
            Ck ck;
            ++fault_runs;
            dtor_log.clear();
            shim::arm(0, true);
            a_que_die(L.q, with_dtor ? log_dtor : nullptr);
            shim::disarm();
            L.q = nullptr;
            if (L.aux) { a_que_die(L.aux, nullptr); L.aux = nullptr; }
            if (shim::st().live_blocks != 0) { ck.fail("leak", std::to_string(shim::st().live_blocks) + " block(s) still allocated after the queue was destroyed"); }
            else if (!shim::st().error.empty()) { ck.fail("memory", shim::st().error); }
            else if (with_dtor)
            {
                std::multiset<unsigned char> seen(dtor_log.begin(), dtor_log.end());
                for (const QElem &e : L.m)
                {
                    auto it = seen.find(e.b0);
                    if (it == seen.end()) { ck.fail("die-dtor", "destruction did not run the destructor on every element"); break; }
                    seen.erase(it);
                }
            }
            out.leave();
            if (!ck.ok()) { out.viol(tag, std::string("que|die|oom@all|") + ck.cls, "every allocation request fails during the destruction of " + key_str(key) + ": " + ck.err); continue; }
            out.succ(tag, key, "oom", "die");
        }
        for (const xs::Op &o : menu(key))
        {
            long requests;
            std::string succ_key;
            {
                QueLive L;
                make(L, key);
                shim::arm(-1, false);
                Ck ck;
                std::string oc;
                apply(L, o, ck, oc);
                requests = shim::st().requests;
                if (!ck.ok() || requests == 0) { continue; }
                succ_key = encode(L);
            }
            if (o.code == Q_SWAP_QUE) { requests = 1; } // only the constructor of the other queue belongs to the operation under test
            for (long k = 0; k < requests; ++k)
            {
                for (int from = 0; from < 2; ++from)
                {
                    if (from && k == requests - 1) { continue; }
                    xs::Op tag{o.code, o.a, o.b, o.c + 1000 * (1 + k) + 100000 * from};
                    if (!out.enter(tag)) { continue; }
                    QueLive L;
                    make(L, key);
                    std::vector<QElem> before = L.m;
                    Ck ck;
                    ++fault_runs;
                    dtor_log.clear();
                    shim::arm(k, from != 0);
                    bool reported = call_expect_failure(L, o);
                    shim::disarm();
                    std::string why = std::string("allocation request #") + std::to_string(k) + (from ? " and all later ones fail" : " fails") + " during " + op_str(o) + " on " + key_str(key) + ": ";
                    std::string where = std::string(k == 0 ? "first" : "later") + "-request";
                    if (!reported) { ck.fail("failure-not-reported", "the operation did not report the failure through its return value"); }
                    // the queue "still holds exactly its previous contents": no element may have been handed to the destructor
                    if (ck.ok() && !dtor_log.empty()) { ck.fail("destroyed-on-failure", "the failed operation ran the element destructor " + std::to_string(dtor_log.size()) + " time(s) although it reports that nothing was done"); }
                    if (ck.ok())
                    {
                        L.m = before;
                        if (check_que(L.q, L.m, ck))
                        {
                            // contents must be exactly the previous ones (the pool may legitimately have grown)
                            std::string k2 = encode(L);
                            if (k2.substr(3) != key.substr(3) || k2[0] != key[0]) { ck.fail("state-changed", "the queue does not hold its previous contents after the failed operation"); }
                        }
                        else if (ck.cls == "length" || ck.cls == "sequence") { ck.cls = "state-changed"; }
                    }
                    if (ck.ok())
                    {
                        std::string oc;
                        if (o.code != Q_SWAP_QUE) { apply(L, o, ck, oc); }
                        if (ck.ok()) { check_que(L.q, L.m, ck); }
                        if (ck.ok() && o.code != Q_SWAP_QUE && encode(L).substr(3) != succ_key.substr(3)) { ck.fail("retry-differs", "the retried operation does not produce the contents the fault-free operation produces"); }
                    }
                    if (ck.ok()) { destroy(L, ck); }
                    out.leave();
                    if (!ck.ok()) { out.viol(tag, std::string("que|") + q_names[o.code] + "|oom@" + where + "|" + ck.cls, why + ck.err); continue; }
                    out.succ(tag, key, "oom", q_names[o.code]);
                }
            }
        }
    }

    bool api_build(QueLive &L, const std::vector<xs::Op> &path, std::string &err)
    {
        L.q = a_que_new(siz0);
        if (!L.q) { err = "constructor failed"; return false; }
        for (size_t i = 0; i < path.size(); ++i)
        {
            Ck ck;
            std::string oc;
            apply(L, path[i], ck, oc);
            if (ck.ok()) { check_que(L.q, L.m, ck); }
            if (!ck.ok()) { err = std::string("que|") + q_names[path[i].code] + "|" + ck.cls + " at step " + std::to_string(i); return false; }
            if (L.aux) { a_que_die(L.aux, nullptr); L.aux = nullptr; L.am.clear(); }
        }
        return true;
    }
    bool replay(const std::vector<xs::Op> &path, std::string &key, std::string &err)
    {
        shim::reset();
        QueLive L;
        if (!api_build(L, path, err)) { return false; }
        key = encode(L);
        return true;
    }
};

template <class H>
static int run(H &h, vx::Args &args, bool is_que)
{
    if (args.has("replay-raw")) { return xs::replay_main(h, args.get("replay-raw")); }
    return vx::run_contained([&] {
        xs::Explorer<H> ex(h);
        ex.job = h.job;
        ex.run();
        ex.emit_stats(h.job);
        ex.emit_samples(3);
        (void)is_que;
        vx::book().flush_counts();
        vx::done(ex.st.fixpoint, ex.st.fixpoint ? "fixpoint: every history within the size bound" : ex.st.cap_note);
    });
}

int main(int argc, char **argv)
{
    vx::Args args(argc, argv);
    shim::install();
    std::string kind = args.get("kind", "list");
    vx::deadline().limit_s = args.getd("deadline", 1e18);
    {
        // entry macros: the enclosing element of a link embedded at a non-zero offset, also for the neighbours and expression arguments
        struct WL { char pad[24]; a_list n; long tail; };
        struct WS { char pad[40]; a_slist_node n; long tail; };
        static WL wl[3];
        static WS ws[2];
        for (int i = 0; i < 3; ++i) { wl[i].n.next = &wl[(i + 1) % 3].n; wl[i].n.prev = &wl[(i + 2) % 3].n; }
        ws[0].n.next = &ws[1].n; ws[1].n.next = nullptr;
        a_list *pl = &wl[0].n;
        bool ok = a_list_entry(&wl[1].n, WL, n) == &wl[1] && a_list_entry(pl + 0, WL, n) == &wl[0] && a_list_entry_next(&wl[0].n, WL, n) == &wl[1] && a_list_entry_prev(&wl[0].n, WL, n) == &wl[2] &&
                  a_list_entry_next(pl + 0, WL, n) == &wl[1] && a_slist_entry(&ws[1].n, WS, n) == &ws[1] && a_slist_entry_next(&ws[0].n, WS, n) == &ws[1];
        if (!ok) { vx::viol(kind + "|entry-macro", "an entry macro does not recover the enclosing element from its embedded link", "{\"job\":" + vx::jstr(args.get("job", kind)) + "}"); }
    }
    if (kind == "list")
    {
        ListH h;
        h.N = (int)args.geti("n", 5);
        h.job = args.get("job", "list");
        return run(h, args, false);
    }
    if (kind == "slist")
    {
        SlistH h;
        h.N = (int)args.geti("n", 5);
        h.job = args.get("job", "slist");
        return run(h, args, false);
    }
    QueH h;
    h.N = (int)args.geti("n", 4);
    h.siz0 = (size_t)args.geti("siz", 4);
    h.siz2 = (size_t)args.geti("siz2", 0);
    h.nkeys = (int)args.geti("keys", 2);
    h.faults = args.geti("faults", 0) != 0;
    h.job = args.get("job", "que");
    int rc = run(h, args, true);
    return rc;
}
