// crc.cpp — C17: table-driven CRCs (8/16/32/64 bit, both bit orders) and the multiplicative
// string hashes against bit-at-a-time polynomial division.  DESIGN.md §4.C17.
#include "../engine/grid.hpp"
#include <sys/mman.h>

extern "C" {
#include "a/crc.h"
#include "a/hash.h"
}

static grid::Run R;

static inline uint64_t maskw(int w) { return w == 64 ? ~0ull : ((1ull << w) - 1); }
static uint64_t revw(uint64_t x, int w)
{
    uint64_t r = 0;
    for (int i = 0; i < w; ++i) { if (x & (1ull << i)) { r |= 1ull << (w - 1 - i); } }
    return r;
}
// bit-by-bit polynomial division, most significant bit first
static uint64_t ref_m(int w, uint64_t poly, const unsigned char *d, size_t n, uint64_t v)
{
    uint64_t top = 1ull << (w - 1), M = maskw(w);
    for (size_t i = 0; i < n; ++i)
    {
        v ^= (uint64_t)d[i] << (w - 8);
        for (int b = 0; b < 8; ++b) { v = (v & top) ? (((v << 1) ^ poly) & M) : ((v << 1) & M); }
    }
    return v;
}
// least significant bit first; `poly` is given in the normal (MSB-first) notation and reflected here, as the library's init does
static uint64_t ref_l(int w, uint64_t poly, const unsigned char *d, size_t n, uint64_t v)
{
    uint64_t rp = revw(poly, w);
    for (size_t i = 0; i < n; ++i)
    {
        v ^= d[i];
        for (int b = 0; b < 8; ++b) { v = (v & 1) ? ((v >> 1) ^ rp) : (v >> 1); }
    }
    return v;
}

struct Tab
{
    a_u8 t8[256];
    a_u16 t16[256];
    a_u32 t32[256];
    a_u64 t64[256];
};
static void init(Tab &T, int w, bool msb, uint64_t poly)
{
    switch (w)
    {
    case 8: msb ? a_crc8m_init(T.t8, (a_u8)poly) : a_crc8l_init(T.t8, (a_u8)poly); break;
    case 16: msb ? a_crc16m_init(T.t16, (a_u16)poly) : a_crc16l_init(T.t16, (a_u16)poly); break;
    case 32: msb ? a_crc32m_init(T.t32, (a_u32)poly) : a_crc32l_init(T.t32, (a_u32)poly); break;
    case 64: msb ? a_crc64m_init(T.t64, poly) : a_crc64l_init(T.t64, poly); break;
    }
}
static uint64_t entry(const Tab &T, int w, int i) { return w == 8 ? T.t8[i] : w == 16 ? T.t16[i] : w == 32 ? T.t32[i] : T.t64[i]; }
static uint64_t crc(const Tab &T, int w, bool msb, const void *d, size_t n, uint64_t v)
{
    switch (w)
    {
    case 8: return a_crc8(T.t8, d, n, (a_u8)v);
    case 16: return msb ? a_crc16m(T.t16, d, n, (a_u16)v) : a_crc16l(T.t16, d, n, (a_u16)v);
    case 32: return msb ? a_crc32m(T.t32, d, n, (a_u32)v) : a_crc32l(T.t32, d, n, (a_u32)v);
    }
    return msb ? a_crc64m(T.t64, d, n, v) : a_crc64l(T.t64, d, n, v);
}
static std::string nm(int w, bool msb) { return "crc" + std::to_string(w) + (msb ? "m" : "l"); }

static std::vector<uint64_t> polys(int w, bool thorough)
{
    std::vector<uint64_t> p;
    if (w == 8) { for (int i = 0; i < 256; ++i) { p.push_back((uint64_t)i); } return p; }
    static const uint64_t pub16[] = {0x1021, 0x8005, 0x3D65, 0x8BB7, 0xA097, 0x0589, 0xC867, 0x755B};
    static const uint64_t pub32[] = {0x04C11DB7, 0x1EDC6F41, 0x741B8CD7, 0xA833982B, 0x814141AB, 0x000000AF};
    static const uint64_t pub64[] = {0x42F0E1EBA9EA3693ull, 0x000000000000001Bull, 0xAD93D23594C935A9ull};
    if (w == 16) { p.assign(pub16, pub16 + 8); }
    if (w == 32) { p.assign(pub32, pub32 + 6); }
    if (w == 64) { p.assign(pub64, pub64 + 3); }
    for (int b = 0; b < w; ++b) { if (thorough || b % 5 == 0 || b >= w - 2) { p.push_back(1ull << b); } }
    p.push_back(maskw(w));
    p.push_back(0);
    p.push_back(0xAAAAAAAAAAAAAAAAull & maskw(w));
    static const int xs[] = {0x01, 0x03, 0x1D, 0x7F, 0x80, 0x81, 0xC3, 0xFF};
    for (int x : xs) { p.push_back((0x0101010101010101ull * (uint64_t)x) & maskw(w)); }
    return p;
}

// every message of length <= maxlen over `alpha`, each with every split point
static void messages(const Tab &T, int w, bool msb, uint64_t poly, const std::vector<unsigned char> &alpha, int maxlen, const std::vector<uint64_t> &inits, uint64_t &n, uint64_t &nt)
{
    std::vector<int> idx;
    unsigned char msg[16];
    for (int len = 0; len <= maxlen; ++len)
    {
        idx.assign((size_t)len, 0);
        for (;;)
        {
            for (int i = 0; i < len; ++i) { msg[i] = alpha[(size_t)idx[(size_t)i]]; }
            for (uint64_t v0 : inits)
            {
                uint64_t want = msb ? ref_m(w, poly, msg, (size_t)len, v0) : ref_l(w, poly, msg, (size_t)len, v0);
                uint64_t got = crc(T, w, msb, msg, (size_t)len, v0);
                ++n;
                nt += len > 0;
                if (got != want)
                {
                    R.viol(nm(w, msb) + "|definition|" + (len == 0 ? "empty-message" : "message"), nm(w, msb) + " with polynomial " + grid::hex(poly) + " on a " + std::to_string(len) + "-byte message, initial value " + grid::hex(v0) + ": " + grid::hex(got) + " is not the remainder of bit-by-bit division " + grid::hex(want),
                           "{\"width\":" + std::to_string(w) + ",\"poly\":" + grid::hex(poly) + ",\"len\":" + std::to_string(len) + ",\"init\":" + grid::hex(v0) + "}");
                }
                for (int s = 0; s <= len; ++s)
                {
                    uint64_t piece = crc(T, w, msb, msg + s, (size_t)(len - s), crc(T, w, msb, msg, (size_t)s, v0));
                    ++n;
                    if (piece != got)
                    {
                        R.viol(nm(w, msb) + "|split|" + (s == 0 || s == len ? "empty-piece" : "inner"), nm(w, msb) + ": feeding a " + std::to_string(len) + "-byte message in pieces split at " + std::to_string(s) + " with the running value carried over differs from feeding it at once (initial value " + grid::hex(v0) + ")",
                               "{\"width\":" + std::to_string(w) + ",\"poly\":" + grid::hex(poly) + ",\"len\":" + std::to_string(len) + ",\"split\":" + std::to_string(s) + ",\"init\":" + grid::hex(v0) + "}");
                    }
                }
            }
            int k = len - 1;
            while (k >= 0 && ++idx[(size_t)k] == (int)alpha.size()) { idx[(size_t)k] = 0; --k; }
            if (k < 0) { break; }
        }
    }
}

static void crc_all(bool thorough)
{
    uint64_t n = 0, nt = 0, job = 0;
    std::vector<unsigned char> full(256), small{0x00, 0x01, 0x30, 0x7F, 0x80, 0xFF};
    for (int i = 0; i < 256; ++i) { full[(size_t)i] = (unsigned char)i; }
    for (int w = 8; w <= 64; w *= 2)
    {
        for (uint64_t poly : polys(w, thorough))
        {
            for (int msb = 0; msb < 2; ++msb)
            {
                if (!R.shard.mine(job++)) { continue; }
                vx::tick();
                Tab T;
                init(T, w, msb != 0, poly);
                // 1. table entries: remainder of the one-byte message
                for (int c = 0; c < 256; ++c)
                {
                    unsigned char b = (unsigned char)c;
                    uint64_t want = msb ? ref_m(w, poly, &b, 1, 0) : ref_l(w, poly, &b, 1, 0);
                    ++n; nt += c != 0;
                    if (entry(T, w, c) != want)
                    {
                        R.viol(nm(w, msb != 0) + "|table", nm(w, msb != 0) + "_init: table entry " + std::to_string(c) + " for polynomial " + grid::hex(poly) + " is not the remainder of the one-byte message",
                               "{\"width\":" + std::to_string(w) + ",\"poly\":" + grid::hex(poly) + ",\"entry\":" + std::to_string(c) + "}");
                        break;
                    }
                }
                // 2. single update step from many running values
                std::vector<uint64_t> vals;
                if (w == 8) { for (int v = 0; v < 256; ++v) { vals.push_back((uint64_t)v); } }
                else if (w == 16 && (thorough || poly == 0x1021 || poly == 0x8005)) { for (int v = 0; v < 65536; ++v) { vals.push_back((uint64_t)v); } }
                else
                {
                    for (int b = 0; b < w; ++b) { vals.push_back(1ull << b); vals.push_back(maskw(w) ^ (1ull << b)); }
                    for (uint64_t m = 0; m < 256; ++m) { for (int e = 0; e + 8 <= w; e += 4) { vals.push_back(m << e); } }
                    vals.push_back(0); vals.push_back(maskw(w));
                }
                for (uint64_t v : vals)
                {
                    for (int c = 0; c < 256; ++c)
                    {
                        unsigned char b = (unsigned char)c;
                        uint64_t want = msb ? ref_m(w, poly, &b, 1, v) : ref_l(w, poly, &b, 1, v);
                        ++n; ++nt;
                        if (crc(T, w, msb != 0, &b, 1, v) != want)
                        {
                            R.viol(nm(w, msb != 0) + "|step", nm(w, msb != 0) + ": one update step from running value " + grid::hex(v) + " with byte " + std::to_string(c) + " (polynomial " + grid::hex(poly) + ") is not the bitwise remainder",
                                   "{\"width\":" + std::to_string(w) + ",\"poly\":" + grid::hex(poly) + ",\"value\":" + grid::hex(v) + ",\"byte\":" + std::to_string(c) + "}");
                            goto next;
                        }
                    }
                }
            next:
                // 3. messages and split points
                {
                    std::vector<uint64_t> inits{0, maskw(w), 0x5A5A5A5A5A5A5A5Aull & maskw(w)};
                    bool main_poly = w == 8 ? (poly == 0x07 || poly == 0x31 || poly == 0x9B || poly == 0xFF || poly == 0x01) : (poly == polys(w, thorough)[0] || poly == polys(w, thorough)[1]);
                    if (main_poly || thorough) { messages(T, w, msb != 0, poly, full, 2, inits, n, nt); }
                    messages(T, w, msb != 0, poly, small, main_poly ? (thorough ? 6 : 5) : 3, inits, n, nt);
                }
                // 3c. chunks around the 8- and 16-bit counter boundaries (a byte counter narrower than the length wraps at 256 / 65536):
                //     one chunk against the bitwise definition and against the same bytes fed in two pieces
                {
                    static unsigned char big[66000];
                    static bool filled = false;
                    if (!filled) { for (size_t i = 0; i < sizeof big; ++i) { big[i] = (unsigned char)(i * 131 + (i >> 8) * 7 + 3); } filled = true; }
                    bool wide = (w == 8) || poly == 0x1021 || poly == 0x04C11DB7 || poly == 0x42F0E1EBA9EA3693ull; // the 16-bit boundary on one generator per width
                    for (size_t len : std::vector<size_t>{255, 256, 257, 300, 511, 512, 513, 1000, 65535, 65536, 65537})
                    {
                        if (len > 2000 && !(wide && (w != 8 || poly == 0x07 || poly == 0x9B))) { continue; }
                        uint64_t v0 = maskw(w);
                        uint64_t want = msb ? ref_m(w, poly, big, len, v0) : ref_l(w, poly, big, len, v0);
                        uint64_t got = crc(T, w, msb != 0, big, len, v0);
                        uint64_t piece = crc(T, w, msb != 0, big + 100, len - 100, crc(T, w, msb != 0, big, 100, v0));
                        ++n; ++nt;
                        if (got != want || piece != want)
                        {
                            R.viol(nm(w, msb != 0) + "|definition|long-chunk", nm(w, msb != 0) + " with polynomial " + grid::hex(poly) + " on one chunk of " + std::to_string(len) + " bytes: " + grid::hex(got) + " (in two pieces " + grid::hex(piece) + ") is not the remainder of bit-by-bit division " + grid::hex(want),
                                   "{\"width\":" + std::to_string(w) + ",\"poly\":" + grid::hex(poly) + ",\"len\":" + std::to_string(len) + "}");
                            break;
                        }
                    }
                }
                // 3b. long messages: every length 6..40 (any unrolling by 2, 4, 8, 16 or 32 bytes meets each of its remainders,
                //     including "remainder = a whole block"), two byte patterns, every split point
                {
                    unsigned char lm[2][40];
                    for (int i = 0; i < 40; ++i) { lm[0][i] = (unsigned char)(i * 37 + 11); lm[1][i] = 0xFF; }
                    for (int pat = 0; pat < 2; ++pat)
                    {
                        for (int len = 6; len <= 40; ++len)
                        {
                            for (uint64_t v0 : std::vector<uint64_t>{0, maskw(w)})
                            {
                                uint64_t want = msb ? ref_m(w, poly, lm[pat], (size_t)len, v0) : ref_l(w, poly, lm[pat], (size_t)len, v0);
                                uint64_t got = crc(T, w, msb != 0, lm[pat], (size_t)len, v0);
                                ++n; ++nt;
                                if (got != want)
                                {
                                    R.viol(nm(w, msb != 0) + "|definition|long-message", nm(w, msb != 0) + " with polynomial " + grid::hex(poly) + " on a " + std::to_string(len) + "-byte message, initial value " + grid::hex(v0) + ": " + grid::hex(got) + " is not the remainder of bit-by-bit division " + grid::hex(want),
                                           "{\"width\":" + std::to_string(w) + ",\"poly\":" + grid::hex(poly) + ",\"len\":" + std::to_string(len) + ",\"init\":" + grid::hex(v0) + "}");
                                    continue;
                                }
                                for (int sp = 0; sp <= len; ++sp)
                                {
                                    uint64_t piece = crc(T, w, msb != 0, lm[pat] + sp, (size_t)(len - sp), crc(T, w, msb != 0, lm[pat], (size_t)sp, v0));
                                    ++n;
                                    if (piece != got)
                                    {
                                        R.viol(nm(w, msb != 0) + "|split|long-message", nm(w, msb != 0) + ": feeding a " + std::to_string(len) + "-byte message in pieces split at " + std::to_string(sp) + " differs from feeding it at once",
                                               "{\"width\":" + std::to_string(w) + ",\"poly\":" + grid::hex(poly) + ",\"len\":" + std::to_string(len) + ",\"split\":" + std::to_string(sp) + "}");
                                    }
                                }
                            }
                        }
                    }
                }
                // 4. the two bit orders are related by bit reflection of polynomial, data and value
                if (msb)
                {
                    Tab TL;
                    init(TL, w, false, poly);
                    unsigned char msg[5] = {0x00, 0x01, 0x80, 0xA7, 0xFF}, rmsg[5];
                    for (int i = 0; i < 5; ++i) { rmsg[i] = (unsigned char)revw(msg[i], 8); }
                    for (uint64_t v0 : std::vector<uint64_t>{0, maskw(w), 0x1234567890ABCDEFull & maskw(w)})
                    {
                        for (int len = 0; len <= 5; ++len)
                        {
                            uint64_t l = crc(TL, w, false, msg, (size_t)len, v0);
                            uint64_t m = revw(crc(T, w, true, rmsg, (size_t)len, revw(v0, w)), w);
                            ++n; ++nt;
                            if (l != m)
                            {
                                R.viol("crc" + std::to_string(w) + "|reflection", "crc" + std::to_string(w) + "l(P, d, v) != rev(crc" + std::to_string(w) + "m(P, rev8(d), rev(v))) for polynomial " + grid::hex(poly),
                                       "{\"width\":" + std::to_string(w) + ",\"poly\":" + grid::hex(poly) + ",\"len\":" + std::to_string(len) + "}");
                            }
                        }
                    }
                }
            }
        }
    }
    R.part("CRC 8/16/32/64, both bit orders: table entries, single update steps, all messages of length <=2 over all bytes and <=5 (6 thorough) over {00,01,30,7F,80,FF} with every split point and 3 initial values, every length 6..40 of two byte patterns with every split point, reflection relation; polynomials: all 256 8-bit, published + single-bit + all-ones + 0 + alternating + repeated-byte for wider", n, nt);
    R.sample("{\"fn\":\"a_crc32l\",\"poly\":\"0x04C11DB7\",\"message\":\"123456789\",\"init\":\"0xFFFFFFFF\",\"crc^0xFFFFFFFF\":" + [] { a_u32 t[256]; a_crc32l_init(t, 0x04C11DB7); return grid::hex(a_crc32l(t, "123456789", 9, 0xFFFFFFFFu) ^ 0xFFFFFFFFu); }() + "}");
}

// ---------------------------------------------------------------- hashes
// ---------------------------------------------------------------- table objects that are re-initialised
// One table object per width goes through a history: built MSB-first, rebuilt LSB-first with the same generator, wiped by the caller and
// built again, rebuilt MSB-first, rebuilt with another generator and back.  After every step all 256 entries must be the remainders for
// the generator and bit order just requested (a builder that remembers what it built last must not skip a rebuild).
static void reuse_all(bool thorough)
{
    uint64_t n = 0, nt = 0, job = 1u << 20;
    for (int w = 8; w <= 64; w *= 2)
    {
        std::vector<uint64_t> ps = polys(w, thorough);
        for (size_t pi = 0; pi < ps.size(); ++pi)
        {
            if (!R.shard.mine(job++)) { continue; }
            static Tab T; // one object: the same storage in every step
            uint64_t poly = ps[pi], other = ps[(pi + 1) % ps.size()];
            struct Step { int msb; uint64_t poly; bool wipe; } steps[] = {{1, poly, false}, {0, poly, false}, {0, poly, true}, {1, poly, false}, {1, poly, true}, {1, other, false}, {1, poly, false}, {0, other, false}, {0, poly, false}};
            int k = 0;
            for (const Step &st : steps)
            {
                if (st.wipe) { memset(&T, 0x5A, sizeof T); }
                init(T, w, st.msb != 0, st.poly);
                for (int c = 0; c < 256; ++c)
                {
                    unsigned char b = (unsigned char)c;
                    uint64_t want = st.msb ? ref_m(w, st.poly, &b, 1, 0) : ref_l(w, st.poly, &b, 1, 0);
                    ++n; nt += c != 0;
                    if (entry(T, w, c) != want)
                    {
                        R.viol(nm(w, st.msb != 0) + "|table-rebuilt", nm(w, st.msb != 0) + "_init on a table object that was used before (step " + std::to_string(k) + " of: m, l, wipe+l, m, wipe+m, m other generator, m, l other generator, l): entry " + std::to_string(c) + " for polynomial " + grid::hex(st.poly) + " is not the remainder of the one-byte message",
                               "{\"width\":" + std::to_string(w) + ",\"poly\":" + grid::hex(st.poly) + ",\"step\":" + std::to_string(k) + "}");
                        break;
                    }
                }
                ++k;
            }
        }
    }
    R.part("table objects re-initialised in place: bit order switched with the same generator, storage wiped between two identical builds, generator changed and changed back; all 256 entries after each of 9 steps, every generator of every width", n, nt);
}

// ---------------------------------------------------------------- the same buffer hashed again after an in-place edit
// straight-line code through opaque pointers, compiled with optimisation: every call reads the bytes as they are at that moment
// (a declaration that promises the compiler the result does not depend on memory lets it reuse the first result)
static __attribute__((noinline)) void rehash_inplace(unsigned char *p, size_t n, uint32_t v0, uint32_t *out)
{
    out[0] = a_hash_bkdr_(p, n, v0);
    out[1] = a_hash_sdbm_(p, n, v0);
    out[2] = a_hash_bkdr(p, v0);
    out[3] = a_hash_sdbm(p, v0);
    p[0] ^= 0x21;
    out[4] = a_hash_bkdr_(p, n, v0);
    out[5] = a_hash_sdbm_(p, n, v0);
    out[6] = a_hash_bkdr(p, v0);
    out[7] = a_hash_sdbm(p, v0);
    p[n - 1] = (unsigned char)(p[n - 1] + 3);
    out[8] = a_hash_bkdr_(p, n, v0);
    out[9] = a_hash_sdbm_(p, n, v0);
    out[10] = a_hash_bkdr(p, v0);
    out[11] = a_hash_sdbm(p, v0);
}
static __attribute__((noinline)) void recrc_inplace(a_u32 *t32, a_u64 *t64, a_u8 *t8, a_u16 *t16, unsigned char *p, size_t n, uint64_t *out)
{
    out[0] = a_crc32m(t32, p, n, 0); out[1] = a_crc32l(t32, p, n, 0); out[2] = a_crc64m(t64, p, n, 0); out[3] = a_crc64l(t64, p, n, 0);
    out[4] = a_crc8(t8, p, n, 0); out[5] = a_crc16m(t16, p, n, 0); out[6] = a_crc16l(t16, p, n, 0);
    p[1] ^= 0x40;
    out[7] = a_crc32m(t32, p, n, 0); out[8] = a_crc32l(t32, p, n, 0); out[9] = a_crc64m(t64, p, n, 0); out[10] = a_crc64l(t64, p, n, 0);
    out[11] = a_crc8(t8, p, n, 0); out[12] = a_crc16m(t16, p, n, 0); out[13] = a_crc16l(t16, p, n, 0);
    t32[5] ^= 0x10; t64[5] ^= 0x10; t8[5] ^= 0x10; t16[5] ^= 0x10; // the table is data too: p[0] == 5 selects the edited entry
    out[14] = a_crc32m(t32, p, n, 0); out[15] = a_crc32l(t32, p, n, 0); out[16] = a_crc64m(t64, p, n, 0); out[17] = a_crc64l(t64, p, n, 0);
    out[18] = a_crc8(t8, p, n, 0); out[19] = a_crc16m(t16, p, n, 0); out[20] = a_crc16l(t16, p, n, 0);
}
static void inplace_all()
{
    uint64_t n = 0;
    if (R.shard.idx != 0) { return; }
    auto refh = [](uint32_t mul, const unsigned char *p, size_t k, uint32_t v) { for (size_t i = 0; i < k; ++i) { v = v * mul + p[i]; } return v; };
    for (size_t len = 1; len <= 9; ++len)
    {
        for (uint32_t v0 : {0u, 0x9E3779B9u})
        {
            unsigned char buf[16], c0[16], c1[16], c2[16];
            for (size_t i = 0; i < len; ++i) { buf[i] = (unsigned char)(0x41 + 7 * i); }
            buf[len] = 0;
            memcpy(c0, buf, 16); memcpy(c1, buf, 16); c1[0] ^= 0x21; memcpy(c2, c1, 16); c2[len - 1] = (unsigned char)(c2[len - 1] + 3);
            uint32_t out[12];
            unsigned char *volatile vp = buf;
            rehash_inplace(vp, len, v0, out);
            const unsigned char *cs[3] = {c0, c1, c2};
            for (int st = 0; st < 3; ++st)
            {
                size_t sl = strlen((const char *)cs[st]);
                uint32_t want[4] = {refh(131, cs[st], len, v0), refh(65599, cs[st], len, v0), refh(131, cs[st], sl, v0), refh(65599, cs[st], sl, v0)};
                for (int f = 0; f < 4; ++f)
                {
                    ++n;
                    if (out[st * 4 + f] != want[f])
                    {
                        static const char *FN[4] = {"a_hash_bkdr_", "a_hash_sdbm_", "a_hash_bkdr", "a_hash_sdbm"};
                        R.viol(std::string(FN[f]) + "|in-place-edit", std::string(FN[f]) + " on a buffer that was edited in place between two calls (same pointer, same length) returned " + grid::hex(out[st * 4 + f]) + " after edit " + std::to_string(st) + ", the bytes hash to " + grid::hex(want[f]), "{\"len\":" + std::to_string(len) + ",\"edit\":" + std::to_string(st) + "}");
                    }
                }
            }
        }
    }
    {
        static Tab T;
        init(T, 8, true, 0x07); init(T, 16, true, 0x1021); init(T, 32, true, 0x04C11DB7); init(T, 64, true, 0x42F0E1EBA9EA3693ull);
        Tab T0 = T, T2 = T;
        T2.t32[5] ^= 0x10; T2.t64[5] ^= 0x10; T2.t8[5] ^= 0x10; T2.t16[5] ^= 0x10;
        unsigned char buf[8] = {5, 1, 2, 3, 4, 5, 6, 7}, c0[8], c1[8];
        memcpy(c0, buf, 8); memcpy(c1, buf, 8); c1[1] ^= 0x40;
        uint64_t out[21];
        unsigned char *volatile vp = buf;
        recrc_inplace(T.t32, T.t64, T.t8, T.t16, vp, 8, out);
        // reference: the table-driven definition on copies (the table after the edit is no CRC table any more; the functions still fold it)
        auto fold = [&](const Tab &Q, int f, const unsigned char *p) -> uint64_t {
            switch (f)
            {
            case 0: { a_u32 v = 0; for (int i = 0; i < 8; ++i) { v = Q.t32[(unsigned char)((v >> 24) ^ p[i])] ^ (v << 8); } return v; }
            case 1: { a_u32 v = 0; for (int i = 0; i < 8; ++i) { v = Q.t32[(unsigned char)(v ^ p[i])] ^ (v >> 8); } return v; }
            case 2: { a_u64 v = 0; for (int i = 0; i < 8; ++i) { v = Q.t64[(unsigned char)((v >> 56) ^ p[i])] ^ (v << 8); } return v; }
            case 3: { a_u64 v = 0; for (int i = 0; i < 8; ++i) { v = Q.t64[(unsigned char)(v ^ p[i])] ^ (v >> 8); } return v; }
            case 4: { a_u8 v = 0; for (int i = 0; i < 8; ++i) { v = Q.t8[(unsigned char)(v ^ p[i])]; } return v; }
            case 5: { a_u16 v = 0; for (int i = 0; i < 8; ++i) { v = (a_u16)(Q.t16[(unsigned char)((v >> 8) ^ p[i])] ^ (a_u16)(v << 8)); } return v; }
            default: { a_u16 v = 0; for (int i = 0; i < 8; ++i) { v = (a_u16)(Q.t16[(unsigned char)(v ^ p[i])] ^ (v >> 8)); } return v; }
            }
        };
        static const char *FN[7] = {"a_crc32m", "a_crc32l", "a_crc64m", "a_crc64l", "a_crc8", "a_crc16m", "a_crc16l"};
        for (int st = 0; st < 3; ++st)
        {
            for (int f = 0; f < 7; ++f)
            {
                ++n;
                uint64_t want = fold(st == 2 ? T2 : T0, f, st == 0 ? c0 : c1);
                if (out[st * 7 + f] != want) { R.viol(std::string(FN[f]) + "|in-place-edit", std::string(FN[f]) + " called again with the same pointers after the " + (st == 2 ? "table" : "message") + " was edited in place returned " + grid::hex(out[st * 7 + f]) + ", the bytes give " + grid::hex(want), "{\"edit\":" + std::to_string(st) + "}"); }
            }
        }
    }
    R.part("hash and CRC functions called again with the same pointers after the message (and the table) was edited in place, straight-line code at -O2", n, n);
}

// ---------------------------------------------------------------- one chunk of more than 4 GiB
// The length parameter is a size value: a chunk of 2^32 + 5 bytes is hashed byte by byte like any other.  The chunk is an untouched
// (all-zero, never resident) anonymous mapping with a few bytes set, so the expected value has a closed form:
// v0 * K^n + sum b_i * K^(n-1-i) (mod 2^32).  Skipped, and said so, if the address space cannot be reserved.
static void hash_huge()
{
#if !defined(__SANITIZE_ADDRESS__)
    const size_t n = ((size_t)1 << 32) + 5;
    unsigned char *p = (unsigned char *)mmap(nullptr, n, PROT_READ | PROT_WRITE, MAP_PRIVATE | MAP_ANONYMOUS | MAP_NORESERVE, -1, 0);
    if (p == MAP_FAILED) { vx::info_str("hash-huge-chunk", "the address space for a chunk of 2^32+5 bytes could not be reserved: part skipped"); return; }
    const size_t pos[4] = {0, 4097, ((size_t)1 << 32) - 1, n - 2};
    const unsigned char val[4] = {7, 0x80, 3, 0xFF};
    for (int i = 0; i < 4; ++i) { p[pos[i]] = val[i]; }
    auto powm = [](uint32_t k, uint64_t e) { uint32_t r = 1; while (e) { if (e & 1) { r *= k; } k *= k; e >>= 1; } return r; };
    uint64_t done = 0;
    for (uint32_t v0 : {0u, 0x9E3779B9u})
    {
        for (int f = 0; f < 2; ++f)
        {
            uint32_t K = f ? 65599u : 131u;
            uint32_t want = v0 * powm(K, n);
            for (int i = 0; i < 4; ++i) { want += (uint32_t)val[i] * powm(K, n - 1 - pos[i]); }
            uint32_t got = f ? a_hash_sdbm_(p, n, v0) : a_hash_bkdr_(p, n, v0);
            ++done;
            if (got != want) { R.viol(std::string(f ? "hash_sdbm_" : "hash_bkdr_") + "|huge-chunk", std::string("a_") + (f ? "hash_sdbm_" : "hash_bkdr_") + " of one chunk of 2^32+5 bytes returned " + grid::hex(got) + ", folding every byte gives " + grid::hex(want), "{\"bytes\":4294967301,\"seed\":" + std::to_string(v0) + "}"); }
            vx::tick();
        }
    }
    munmap(p, n);
    R.part("hashes of one chunk of 2^32+5 bytes (untouched address space, four bytes set) against the closed form", done, done);
#endif
}

static void hash_all(bool thorough)
{
    uint64_t n = 0, nt = 0;
    // strings live right before an inaccessible page: the string forms must stop at the NUL
    unsigned char *page = (unsigned char *)mmap(nullptr, 8192, PROT_READ | PROT_WRITE, MAP_PRIVATE | MAP_ANONYMOUS, -1, 0);
    mprotect(page + 4096, 4096, PROT_NONE);
    auto refh = [](uint32_t mul, const unsigned char *p, size_t k, uint32_t v) { for (size_t i = 0; i < k; ++i) { v = v * mul + p[i]; } return v; };
    std::vector<unsigned char> alpha;
    if (thorough) { for (int i = 0; i < 256; ++i) { alpha.push_back((unsigned char)i); } }
    else { for (int i = 0; i < 256; i += 1) { alpha.push_back((unsigned char)i); } }
    std::vector<unsigned char> small{0x00, 0x01, 0x41, 0x7F, 0x80, 0xFF};
    int pass_len[2] = {2, thorough ? 6 : 5};
    for (int pass = 0; pass < 2; ++pass)
    {
        const std::vector<unsigned char> &A = pass == 0 ? alpha : small;
        int maxlen = pass_len[pass];
        std::vector<int> idx;
        uint64_t item = 0;
        for (int len = 0; len <= maxlen; ++len)
        {
            idx.assign((size_t)len, 0);
            for (;;)
            {
                if (R.shard.mine(item++))
                {
                    unsigned char *msg = page + 4096 - len - 1;
                    for (int i = 0; i < len; ++i) { msg[i] = A[(size_t)idx[(size_t)i]]; }
                    msg[len] = 0;
                    size_t slen = strlen((char *)msg);
                    for (uint32_t v0 : {0u, 1u, 0xFFFFFFFFu, 0x9E3779B9u})
                    {
                        uint32_t b = a_hash_bkdr_(msg, (size_t)len, v0), s = a_hash_sdbm_(msg, (size_t)len, v0);
                        n += 2; nt += len > 0 ? 2 : 0;
                        std::string in = "{\"len\":" + std::to_string(len) + ",\"init\":" + grid::hex(v0) + ",\"bytes\":\"" + [&] { std::string h; char t[4]; for (int i = 0; i < len; ++i) { snprintf(t, sizeof t, "%02X", msg[i]); h += t; } return h; }() + "\"}";
                        if (b != refh(131, msg, (size_t)len, v0)) { R.viol("hash_bkdr_|definition", "a_hash_bkdr_ is not val*131+byte folded over the bytes", in); }
                        if (s != refh(65599, msg, (size_t)len, v0)) { R.viol("hash_sdbm_|definition", "a_hash_sdbm_ is not val*65599+byte folded over the bytes", in); }
                        // string forms: agree with the length-delimited form on the NUL-free prefix and stop at the first NUL
                        if (a_hash_bkdr(msg, v0) != refh(131, msg, slen, v0)) { R.viol(std::string("hash_bkdr|string-form|") + (len && msg[0] >= 0x80 ? "high-byte" : "other"), "a_hash_bkdr (string form) disagrees with the length-delimited form on the bytes before the first NUL", in); }
                        if (a_hash_sdbm(msg, v0) != refh(65599, msg, slen, v0)) { R.viol(std::string("hash_sdbm|string-form|") + (slen && *std::max_element(msg, msg + slen) >= 0x80 ? "high-byte" : "other"), "a_hash_sdbm (string form) disagrees with the length-delimited form on the bytes before the first NUL", in); }
                        for (int sp = 0; sp <= len; ++sp)
                        {
                            n += 2;
                            if (a_hash_bkdr_(msg + sp, (size_t)(len - sp), a_hash_bkdr_(msg, (size_t)sp, v0)) != b) { R.viol("hash_bkdr_|split", "a_hash_bkdr_ fed in pieces differs from one piece", in); }
                            if (a_hash_sdbm_(msg + sp, (size_t)(len - sp), a_hash_sdbm_(msg, (size_t)sp, v0)) != s) { R.viol("hash_sdbm_|split", "a_hash_sdbm_ fed in pieces differs from one piece", in); }
                        }
                    }
                }
                int k = len - 1;
                while (k >= 0 && ++idx[(size_t)k] == (int)A.size()) { idx[(size_t)k] = 0; --k; }
                if (k < 0) { break; }
            }
        }
    }
    if (R.shard.idx == 0)
    {
        for (uint32_t v0 : {0u, 7u, 0xFFFFFFFFu})
        {
            n += 2;
            if (a_hash_bkdr(nullptr, v0) != v0 || a_hash_sdbm(nullptr, v0) != v0) { R.viol("hash|null", "a null string must return the seed", grid::hex(v0)); }
        }
    }
    munmap(page, 8192);
    R.part("hashes bkdr/sdbm: definition, string form vs length form (strings end at an inaccessible page), every split point, null pointer; all byte strings of length <=2 over all 256 bytes and <=5 (6 thorough) over {00,01,41,7F,80,FF}; 4 seeds", n, nt);
    R.sample("{\"fn\":\"a_hash_bkdr\",\"str\":\"liba\",\"seed\":0,\"hash\":" + grid::hex(a_hash_bkdr("liba", 0)) + "}");
}

int main(int argc, char **argv)
{
    vx::Args args(argc, argv);
    R.init(args);
    bool thorough = R.tier == "thorough";
    return vx::run_contained([&] {
        crc_all(thorough);
        reuse_all(thorough);
        inplace_all();
        hash_all(thorough);
        if (R.shard.idx == R.shard.n - 1) { hash_huge(); }
        R.finish(true, "every listed domain enumerated completely");
    }, 120.0);
}
