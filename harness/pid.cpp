// pid.cpp — C12: explicit-state exploration of the plain, single-neuron and fuzzy PID controllers.
// The controller struct itself is the state; with dyadic inputs, gains and limits all arithmetic is exact,
// so the plain controller's reachable set is finite and the BFS runs to a fixpoint.  DESIGN.md §4.C12.
//
// usage: pid --mode plain|pair|neuro|fuzzy --tier quick|thorough --shard i --nshards n
#include "../engine/xs.hpp"
#include <cmath>

extern "C" {
#include "a/pid.h"
#include "a/pid_neuro.h"
#include "a/pid_fuzzy.h"
#include "a/mf.h"
}
#include "fuzzy_ref.hpp"

static std::string num(double v)
{
    char b[40];
    snprintf(b, sizeof b, "%.17g", v);
    return b;
}
static double cz(double v) { return v + 0.0; } // -0.0 -> +0.0: the controllers cannot tell the two apart

struct Params
{
    double kp, ki, kd, summin, summax, outmin, outmax;
    std::string str() const
    {
        return "kp=" + num(kp) + " ki=" + num(ki) + " kd=" + num(kd) + " sum[" + num(summin) + "," + num(summax) + "] out[" + num(outmin) + "," + num(outmax) + "]";
    }
};
enum { M_RUN = 0, M_POS = 1, M_INC = 2, M_ZERO = 3 };
static const char *mode_name[4] = {"run", "pos", "inc", "zero"};

struct Ck
{
    std::string cls, err;
    bool fail(const char *c, const std::string &d)
    {
        if (err.empty()) { cls = c; err = std::string(c) + ": " + d; }
        return false;
    }
    bool ok() const { return err.empty(); }
};

static double sat(double x, double lo, double hi) { return x < lo ? lo : (x > hi ? hi : x); }

// reference check of one positional / incremental / open-loop step of the plain equations.
// `b` is the state before, `a` the state after, gains are the ones in effect during the step.
static void check_step(int mode, const a_pid &b, const a_pid &a, double set, double fdb, double kp, double ki, double kd, Ck &ck, bool *limit_active = nullptr, double ulps = 0)
{
    // ulps == 0: all quantities are dyadic and the arithmetic is exact, results are compared with ==; otherwise the gains are
    // weighted means (fuzzy scheduling) and results may differ by the association order of the sums
    auto near = [&](double x, double y, double mag) { return ulps == 0 ? x == y : std::fabs(x - y) <= ulps * (double)A_REAL_EPSILON * (mag + 1e-300); };
    double err = set - fdb, var = b.fdb - fdb;
    const double f[5] = {a.sum, a.out, a.var, a.fdb, a.err};
    for (double v : f) { if (!std::isfinite(v)) { ck.fail("not-finite", "a state variable became non-finite"); return; } }
    if (!(a.out >= b.outmin && a.out <= b.outmax)) { ck.fail("out-of-limits", "output " + num(a.out) + " outside [" + num(b.outmin) + "," + num(b.outmax) + "]"); return; }
    if (a.fdb != fdb || a.err != err || a.var != var) { ck.fail("cache", "the cached feedback / error / feedback change are not those of this step"); return; }
    if (mode == M_RUN)
    {
        if (a.out != sat(set, b.outmin, b.outmax)) { ck.fail("run-equation", "open-loop output is not the saturated set-point"); }
        if (a.sum != b.sum) { ck.fail("run-equation", "open-loop mode changed the integrator"); }
        return;
    }
    if (mode == M_POS)
    {
        double inc = ki * err, integ = b.sum + inc;
        bool inside = b.sum > b.summin && b.sum < b.summax;
        bool beyond = b.sum > b.summax || b.sum < b.summin;
        if (limit_active && !inside) { *limit_active = true; }
        if (beyond && ki >= 0)
        {
            // once outside the clamp the integrator never moves further out (premise of the statement: ki >= 0; a fuzzy-scheduled gain
            // whose exact value is 0 can come out as -1e-16, and then the step legitimately moves the sum by that rounding amount)
            if (b.sum > b.summax && a.sum > b.sum) { ck.fail("windup", "integrator " + num(b.sum) + " above its clamp " + num(b.summax) + " moved further out to " + num(a.sum)); return; }
            if (b.sum < b.summin && a.sum < b.sum) { ck.fail("windup", "integrator " + num(b.sum) + " below its clamp " + num(b.summin) + " moved further out to " + num(a.sum)); return; }
        }
        if (inside)
        {
            if (!near(a.sum, integ, std::fabs(b.sum) + std::fabs(inc))) { ck.fail("integrator-equation", "inside the clamp the integrator must advance by ki*err: " + num(b.sum) + " + " + num(inc) + " -> " + num(a.sum)); return; }
        }
        else if (beyond)
        {
            bool inward = (b.sum > 0 && err < 0) || (b.sum < 0 && err > 0);
            if (inward && !near(a.sum, integ, std::fabs(b.sum) + std::fabs(inc))) { ck.fail("integrator-release", "beyond the clamp with the error pointing inward the integrator must integrate back: " + num(b.sum) + " -> " + num(a.sum) + ", expected " + num(integ)); return; }
            if (!inward && a.sum != b.sum) { ck.fail("integrator-hold", "beyond the clamp with the error pointing outward the integrator must hold: " + num(b.sum) + " -> " + num(a.sum)); return; }
        }
        else
        {
            // exactly on the clamp.  The documented switch (pid.h: q = 0 when |sum| > E or sum*e > 0, else q = 1) integrates when the
            // error points back inside; with the error pointing outward, or a clamp at zero, holding and integrating are both accepted
            bool inward = (b.sum > 0 && err < 0) || (b.sum < 0 && err > 0);
            if (inward && !near(a.sum, integ, std::fabs(b.sum) + std::fabs(inc))) { ck.fail("integrator-release", "exactly on the clamp with the error pointing inward the integrator must integrate back: " + num(b.sum) + " -> " + num(a.sum) + ", expected " + num(integ)); return; }
            if (a.sum != b.sum && !near(a.sum, integ, std::fabs(b.sum) + std::fabs(inc))) { ck.fail("integrator-equation", "at the clamp the integrator must hold or integrate"); return; }
        }
        double raw = kp * err + a.sum + kd * var;
        if (limit_active && raw != sat(raw, b.outmin, b.outmax)) { *limit_active = true; }
        if (!near(a.out, sat(raw, b.outmin, b.outmax), std::fabs(kp * err) + std::fabs(a.sum) + std::fabs(kd * var))) { ck.fail("pos-equation", "positional output " + num(a.out) + " is not sat(kp*err + sum + kd*(fdb_prev - fdb)) = " + num(sat(raw, b.outmin, b.outmax))); }
        return;
    }
    if (mode == M_INC)
    {
        double raw = b.out + kp * (err - b.err) + ki * err + kd * (var - b.var);
        if (limit_active && raw != sat(raw, b.outmin, b.outmax)) { *limit_active = true; }
        if (!near(a.out, sat(raw, b.outmin, b.outmax), std::fabs(b.out) + std::fabs(kp * (err - b.err)) + std::fabs(ki * err) + std::fabs(kd * (var - b.var)))) { ck.fail("inc-equation", "incremental output " + num(a.out) + " is not sat(out_prev + kp*(err-err_prev) + ki*err + kd*(var-var_prev)) = " + num(sat(raw, b.outmin, b.outmax))); }
        if (a.sum != b.sum) { ck.fail("inc-equation", "incremental mode changed the positional integrator"); }
    }
}

// ============================================================================ plain controller
struct PlainH
{
    Params P;
    std::vector<double> A; // input alphabet for set-point and feedback
    std::string job;
    const std::vector<xs::Op> *via_api = nullptr;
    struct St { double sum, out, var, fdb, err; };
    static std::string enc(const a_pid &c)
    {
        St s{cz(c.sum), cz(c.out), cz(c.var), cz(c.fdb), cz(c.err)};
        return std::string((const char *)&s, sizeof s);
    }
    void setup(a_pid &c) const
    {
        memset(&c, 0, sizeof c);
        a_pid_init(&c);
        a_pid_set_kpid(&c, (a_real)P.kp, (a_real)P.ki, (a_real)P.kd);
        c.summin = (a_real)P.summin; c.summax = (a_real)P.summax; c.outmin = (a_real)P.outmin; c.outmax = (a_real)P.outmax;
    }
    void dec(a_pid &c, const std::string &k) const
    {
        setup(c);
        St s;
        memcpy(&s, k.data(), sizeof s);
        c.sum = (a_real)s.sum; c.out = (a_real)s.out; c.var = (a_real)s.var; c.fdb = (a_real)s.fdb; c.err = (a_real)s.err;
    }
    std::string init_key() { a_pid c; setup(c); return enc(c); }
    std::string key_str(const std::string &k) const
    {
        St s;
        memcpy(&s, k.data(), sizeof s);
        return "pid{" + P.str() + " | sum=" + num(s.sum) + " out=" + num(s.out) + " var=" + num(s.var) + " fdb=" + num(s.fdb) + " err=" + num(s.err) + "}";
    }
    std::string op_str(const xs::Op &o) const { return o.code == M_ZERO ? "zero" : std::string(mode_name[o.code]) + "(set=" + num(A[(size_t)o.a]) + ",fdb=" + num(A[(size_t)o.b]) + ")"; }
    std::string op_sig(const xs::Op &o, const std::string &) const { return std::string("pid|") + mode_name[o.code]; }
    void make(a_pid &c, const std::string &key)
    {
        if (!via_api) { dec(c, key); return; }
        setup(c);
        for (auto &o : *via_api) { step(c, o); }
    }
    void step(a_pid &c, const xs::Op &o) const
    {
        double s = o.code == M_ZERO ? 0 : A[(size_t)o.a], f = o.code == M_ZERO ? 0 : A[(size_t)o.b];
        switch (o.code)
        {
        case M_RUN: a_pid_run(&c, (a_real)s, (a_real)f); break;
        case M_POS: a_pid_pos(&c, (a_real)s, (a_real)f); break;
        case M_INC: a_pid_inc(&c, (a_real)s, (a_real)f); break;
        case M_ZERO: a_pid_zero(&c); break;
        }
    }
    void expand(const std::string &key, uint32_t, xs::Sink &out)
    {
        for (int mode = 0; mode < 4; ++mode)
        {
            for (size_t i = 0; i < A.size(); ++i)
            {
                for (size_t j = 0; j < A.size(); ++j)
                {
                    if (mode == M_ZERO && (i || j)) { continue; }
                    xs::Op o{mode, (long)i, (long)j, 0};
                    if (!out.enter(o)) { continue; }
                    a_pid c, b;
                    make(c, key);
                    b = c;
                    a_real ret = 0;
                    switch (mode)
                    {
                    case M_RUN: ret = a_pid_run(&c, (a_real)A[i], (a_real)A[j]); break;
                    case M_POS: ret = a_pid_pos(&c, (a_real)A[i], (a_real)A[j]); break;
                    case M_INC: ret = a_pid_inc(&c, (a_real)A[i], (a_real)A[j]); break;
                    case M_ZERO: a_pid_zero(&c); break;
                    }
                    Ck ck;
                    if (mode == M_ZERO)
                    {
                        if (enc(c) != init_key()) { ck.fail("zero", "zeroing did not restore the freshly initialised state"); }
                        if (c.kp != b.kp || c.ki != b.ki || c.kd != b.kd || c.summax != b.summax || c.summin != b.summin || c.outmax != b.outmax || c.outmin != b.outmin) { ck.fail("zero", "zeroing changed gains or limits"); }
                    }
                    else
                    {
                        check_step(mode, b, c, A[i], A[j], P.kp, P.ki, P.kd, ck);
                        if (ck.ok() && ret != c.out) { ck.fail("return", "the returned value is not the stored output"); }
                        if (ck.ok() && (c.kp != b.kp || c.ki != b.ki || c.kd != b.kd)) { ck.fail("gains", "a step changed the gains"); }
                    }
                    out.leave();
                    if (!ck.ok()) { out.viol(o, std::string("pid|") + mode_name[mode] + "|" + ck.cls, op_str(o) + " on " + key_str(key) + ": " + ck.err); continue; }
                    out.succ(o, enc(c), mode_name[mode], c.out == P.outmin || c.out == P.outmax ? "saturated" : "linear");
                }
            }
        }
    }
    bool replay(const std::vector<xs::Op> &path, std::string &key, std::string &err)
    {
        a_pid c;
        setup(c);
        for (size_t i = 0; i < path.size(); ++i)
        {
            a_pid b = c;
            step(c, path[i]);
            Ck ck;
            if (path[i].code != M_ZERO) { check_step(path[i].code, b, c, A[(size_t)path[i].a], A[(size_t)path[i].b], P.kp, P.ki, P.kd, ck); }
            if (!ck.ok()) { err = std::string("pid|") + mode_name[path[i].code] + "|" + ck.cls + " at step " + std::to_string(i); return false; }
        }
        key = enc(c);
        return true;
    }
};

// ============================================================================ positional / incremental shadow pair
struct PairH
{
    Params P;
    std::vector<double> A;
    std::string job;
    const std::vector<xs::Op> *via_api = nullptr;
    struct St { double psum, pout, iout, var, fdb, err, ivar; int limited; int pad; };
    PlainH base() const { PlainH h; h.P = P; h.A = A; return h; }
    static std::string enc(const a_pid &p, const a_pid &i, bool lim)
    {
        St s{cz(p.sum), cz(p.out), cz(i.out), cz(p.var), cz(p.fdb), cz(p.err), cz(i.var), lim ? 1 : 0, 0};
        return std::string((const char *)&s, sizeof s);
    }
    void dec(a_pid &p, a_pid &i, bool &lim, const std::string &k) const
    {
        base().setup(p);
        base().setup(i);
        St s;
        memcpy(&s, k.data(), sizeof s);
        p.sum = (a_real)s.psum; p.out = (a_real)s.pout; i.out = (a_real)s.iout;
        p.var = (a_real)s.var; i.var = (a_real)s.ivar; p.fdb = i.fdb = (a_real)s.fdb; p.err = i.err = (a_real)s.err;
        lim = s.limited != 0;
    }
    std::string init_key() { a_pid p, i; base().setup(p); base().setup(i); return enc(p, i, false); }
    std::string key_str(const std::string &k) const
    {
        St s;
        memcpy(&s, k.data(), sizeof s);
        return "pair{" + P.str() + " | pos: sum=" + num(s.psum) + " out=" + num(s.pout) + " | inc: out=" + num(s.iout) + " | fdb=" + num(s.fdb) + " err=" + num(s.err) + (s.limited ? " (a limit has been active)" : "") + "}";
    }
    std::string op_str(const xs::Op &o) const { return "step(set=" + num(A[(size_t)o.a]) + ",fdb=" + num(A[(size_t)o.b]) + ")"; }
    std::string op_sig(const xs::Op &, const std::string &) const { return "pid|pair"; }
    void expand(const std::string &key, uint32_t, xs::Sink &out)
    {
        for (size_t a = 0; a < A.size(); ++a)
        {
            for (size_t f = 0; f < A.size(); ++f)
            {
                xs::Op o{1, (long)a, (long)f, 0};
                if (!out.enter(o)) { continue; }
                a_pid p, i, pb, ib;
                bool lim;
                if (via_api) { rebuild(p, i, lim, *via_api); } else { dec(p, i, lim, key); }
                pb = p; ib = i;
                a_pid_pos(&p, (a_real)A[a], (a_real)A[f]);
                a_pid_inc(&i, (a_real)A[a], (a_real)A[f]);
                Ck ck;
                bool l2 = lim;
                check_step(M_POS, pb, p, A[a], A[f], P.kp, P.ki, P.kd, ck, &l2);
                if (ck.ok()) { check_step(M_INC, ib, i, A[a], A[f], P.kp, P.ki, P.kd, ck, &l2); }
                if (ck.ok() && !l2 && p.out != i.out) { ck.fail("pos-inc-differ", "no limit has been active, yet the positional output " + num(p.out) + " and the incremental output " + num(i.out) + " differ"); }
                out.leave();
                if (!ck.ok()) { out.viol(o, "pid|pair|" + ck.cls, op_str(o) + " on " + key_str(key) + ": " + ck.err); continue; }
                if (l2) { out.succ(o, key, "step", "limited (not expanded further)"); continue; } // once a limit was active the clause no longer applies
                out.succ(o, enc(p, i, l2), "step", "coincide");
            }
        }
    }
    void rebuild(a_pid &p, a_pid &i, bool &lim, const std::vector<xs::Op> &path) const
    {
        base().setup(p);
        base().setup(i);
        lim = false;
        for (auto &o : path)
        {
            a_pid pb = p, ib = i;
            a_pid_pos(&p, (a_real)A[(size_t)o.a], (a_real)A[(size_t)o.b]);
            a_pid_inc(&i, (a_real)A[(size_t)o.a], (a_real)A[(size_t)o.b]);
            Ck ck;
            check_step(M_POS, pb, p, A[(size_t)o.a], A[(size_t)o.b], P.kp, P.ki, P.kd, ck, &lim);
            check_step(M_INC, ib, i, A[(size_t)o.a], A[(size_t)o.b], P.kp, P.ki, P.kd, ck, &lim);
        }
    }
    bool replay(const std::vector<xs::Op> &path, std::string &key, std::string &err)
    {
        a_pid p, i;
        bool lim;
        rebuild(p, i, lim, path);
        (void)err;
        key = enc(p, i, lim);
        return true;
    }
};

// ============================================================================ single-neuron controller (depth-bounded: the weights grow without bound)
struct NeuroH
{
    Params P;
    double k, w0[3];
    std::vector<double> A;
    int depth = 4;
    std::string job;
    const std::vector<xs::Op> *via_api = nullptr;
    struct St { double sum, out, var, fdb, err, wp, wi, wd, ec; int depth; int pad; };
    void setup(a_pid_neuro &c) const
    {
        memset(&c, 0, sizeof c);
        a_pid_neuro_init(&c);
        a_pid_neuro_set_kpid(&c, (a_real)k, (a_real)P.kp, (a_real)P.ki, (a_real)P.kd);
        a_pid_neuro_set_wpid(&c, (a_real)w0[0], (a_real)w0[1], (a_real)w0[2]);
        c.pid.summin = (a_real)P.summin; c.pid.summax = (a_real)P.summax; c.pid.outmin = (a_real)P.outmin; c.pid.outmax = (a_real)P.outmax;
    }
    static std::string enc(const a_pid_neuro &c, int d)
    {
        St s{cz(c.pid.sum), cz(c.pid.out), cz(c.pid.var), cz(c.pid.fdb), cz(c.pid.err), cz(c.wp), cz(c.wi), cz(c.wd), cz(c.ec), d, 0};
        return std::string((const char *)&s, sizeof s);
    }
    void dec(a_pid_neuro &c, int &d, const std::string &key) const
    {
        setup(c);
        St s;
        memcpy(&s, key.data(), sizeof s);
        c.pid.sum = (a_real)s.sum; c.pid.out = (a_real)s.out; c.pid.var = (a_real)s.var; c.pid.fdb = (a_real)s.fdb; c.pid.err = (a_real)s.err;
        c.wp = (a_real)s.wp; c.wi = (a_real)s.wi; c.wd = (a_real)s.wd; c.ec = (a_real)s.ec;
        d = s.depth;
    }
    std::string init_key() { a_pid_neuro c; setup(c); return enc(c, 0); }
    std::string key_str(const std::string &key) const
    {
        St s;
        memcpy(&s, key.data(), sizeof s);
        return "neuro{" + P.str() + " k=" + num(k) + " | out=" + num(s.out) + " err=" + num(s.err) + " ec=" + num(s.ec) + " w=(" + num(s.wp) + "," + num(s.wi) + "," + num(s.wd) + ")}";
    }
    std::string op_str(const xs::Op &o) const { return o.code == M_ZERO ? "zero" : std::string(o.code == M_RUN ? "run" : "inc") + "(set=" + num(A[(size_t)o.a]) + ",fdb=" + num(A[(size_t)o.b]) + ")"; }
    std::string op_sig(const xs::Op &o, const std::string &) const { return std::string("pid_neuro|") + mode_name[o.code]; }
    void apply(a_pid_neuro &c, const xs::Op &o) const
    {
        if (o.code == M_ZERO) { a_pid_neuro_zero(&c); return; }
        if (o.code == M_RUN) { last_ret = a_pid_neuro_run(&c, (a_real)A[(size_t)o.a], (a_real)A[(size_t)o.b]); return; }
        last_ret = a_pid_neuro_inc(&c, (a_real)A[(size_t)o.a], (a_real)A[(size_t)o.b]);
    }
    mutable a_real last_ret = 0; // what the step function handed back: "the output" the caller acts on
    void check(const a_pid_neuro &b, const a_pid_neuro &c, const xs::Op &o, Ck &ck) const
    {
        const double f[9] = {c.pid.sum, c.pid.out, c.pid.var, c.pid.fdb, c.pid.err, c.wp, c.wi, c.wd, c.ec};
        for (double v : f) { if (!std::isfinite(v)) { ck.fail("not-finite", "a state variable became non-finite"); return; } }
        if (o.code != M_ZERO && !(c.pid.out >= P.outmin && c.pid.out <= P.outmax)) { ck.fail("out-of-limits", "output " + num(c.pid.out) + " outside [" + num(P.outmin) + "," + num(P.outmax) + "]"); return; }
        if (o.code != M_ZERO && last_ret != c.pid.out) { ck.fail("return-value", "the step returned " + num((double)last_ret) + " but the output it stored is " + num(c.pid.out)); return; }
        if (o.code == M_ZERO)
        {
            if (c.pid.sum != 0 || c.pid.out != 0 || c.pid.var != 0 || c.pid.fdb != 0 || c.pid.err != 0 || c.ec != 0) { ck.fail("zero", "zeroing did not clear the controller state"); }
            if (c.wp != b.wp || c.wi != b.wi || c.wd != b.wd || c.k != b.k) { ck.fail("zero", "zeroing changed the weights or the gain"); }
            return;
        }
        double err = A[(size_t)o.a] - A[(size_t)o.b];
        if (c.pid.err != err || c.pid.fdb != A[(size_t)o.b] || c.ec != err - b.pid.err) { ck.fail("cache", "cached error / feedback / error change are not those of this step"); }
        if (o.code == M_INC && ck.ok())
        {
            // documented control law: the weighted inputs (error change, error, second difference) normalised by |wp|+|wi|+|wd| and scaled by K.
            // The header adds this to u(k-1), the code does not: both readings are accepted, anything else is not the documented law.
            double ec = err - b.pid.err, var = ec - b.ec;
            double den = std::fabs((double)c.wp) + std::fabs((double)c.wi) + std::fabs((double)c.wd);
            if (den > 0)
            {
                double delta = (double)c.k * ((double)c.wp * ec + (double)c.wi * err + (double)c.wd * var) / den;
                double mag = std::fabs(delta) + std::fabs((double)b.pid.out) + 1, tol = 64 * (double)A_REAL_EPSILON * mag;
                double w1 = sat(delta, P.outmin, P.outmax), w2 = sat((double)b.pid.out + delta, P.outmin, P.outmax);
                if (!(std::fabs((double)c.pid.out - w1) <= tol) && !(std::fabs((double)c.pid.out - w2) <= tol))
                {
                    ck.fail("neuron-equation", "the output " + num(c.pid.out) + " is neither sat(K*(wp*xp + wi*xi + wd*xd)/(|wp|+|wi|+|wd|)) = " + num(w1) + " nor that added to the previous output (" + num(w2) + ")");
                }
            }
        }
    }
    void expand(const std::string &key, uint32_t, xs::Sink &out)
    {
        int d;
        { a_pid_neuro t; dec(t, d, key); }
        if (d >= depth) { return; }
        for (int mode : {M_RUN, M_INC, M_ZERO})
        {
            for (size_t i = 0; i < A.size(); ++i)
            {
                for (size_t j = 0; j < A.size(); ++j)
                {
                    if (mode == M_ZERO && (i || j)) { continue; }
                    xs::Op o{mode, (long)i, (long)j, 0};
                    if (!out.enter(o)) { continue; }
                    a_pid_neuro c, b;
                    if (via_api) { setup(c); for (auto &p : *via_api) { apply(c, p); } } else { dec(c, d, key); }
                    b = c;
                    apply(c, o);
                    Ck ck;
                    check(b, c, o, ck);
                    out.leave();
                    if (!ck.ok()) { out.viol(o, std::string("pid_neuro|") + mode_name[mode] + "|" + ck.cls, op_str(o) + " on " + key_str(key) + ": " + ck.err); continue; }
                    out.succ(o, enc(c, d + 1), mode_name[mode], c.pid.out == P.outmin || c.pid.out == P.outmax ? "saturated" : "linear");
                }
            }
        }
    }
    bool replay(const std::vector<xs::Op> &path, std::string &key, std::string &err)
    {
        a_pid_neuro c;
        setup(c);
        for (auto &o : path) { apply(c, o); }
        (void)err;
        key = enc(c, (int)path.size());
        return true;
    }
};

// ============================================================================ fuzzy controller (depth-bounded: the gains are rescheduled every step)
#define TRI A_MF_TRI
static const a_real m3e[] = {TRI, -1, -1, 0, TRI, -1, 0, 1, TRI, 0, 1, 1};
static const a_real m3ec[] = {TRI, -2, -2, 0, TRI, -2, 0, 2, TRI, 0, 2, 2};
static const a_real m3kp[] = {-4, -4, -4, -4, 4, 4, 4, 4, 4};
static const a_real m3ki[] = {0, 0, 0, 0.5, 0.5, 0.5, 0, 0, 0};
static const a_real m3kd[] = {-1, -1, 0, 0, 0, 0, 0, 1, 1};
// a 5-set partition mixing trapezoid shoulders and triangles; up to 2 sets active at once
static const a_real m5e[] = {A_MF_TRAP, -9, -9, -2, -1, TRI, -2, -1, 0, TRI, -1, 0, 1, TRI, 0, 1, 2, A_MF_TRAP, 1, 2, 9, 9};
static const a_real m5k[] = {-2, -2, -1, 0, 0, -2, -1, -1, 0, 1, -1, -1, 0, 1, 1, -1, 0, 1, 1, 2, 0, 0, 1, 2, 2};
// three wide overlapping triangles: up to 3 sets active at once
static const a_real w3e[] = {TRI, -4, -1, 2, TRI, -3, 0, 3, TRI, -2, 1, 4};
static const a_real w3k[] = {-1, 0, 1, 0, 1, 2, 1, 2, 3};
// a table that is not sorted by position (left shoulder, right shoulder, middle): the active sets need not be neighbours in table order
static const a_real u3e[] = {TRI, -1, -1, 0, TRI, 0, 1, 1, TRI, -1, 0, 1};
static const a_real u3k[] = {-2, 3, 0, 1, -1, 2, 4, 0, -3};
// two enormously wide ramps and one ordinary triangle: on the whole input lattice the ramps fire with degrees around 1e-9 (far above
// the activity threshold epsilon, far from crossing it), so away from the triangle the total firing strength of product-type rules is
// positive but around 1e-18 - a normalisation guarded by "sum > epsilon" instead of "sum > 0" gives up there
static const a_real n3e[] = {A_MF_LINS, -8, (a_real)1e10, A_MF_LINZ, (a_real)-1e10, 8, A_MF_TRI, -1, 0, 1};
// the 7 x 7 base of test/pid_fuzzy.h (dyadic scaling)
#define NL -3
#define NM -2
#define NS -1
#define ZO 0
#define PS 1
#define PM 2
#define PL 3
static const a_real m7e[] = {TRI, -1.5, -1.5, -1, TRI, -1.5, -1, -.5, TRI, -1, -.5, 0, TRI, -.5, 0, .5, TRI, 0, .5, 1, TRI, .5, 1, 1.5, TRI, 1, 1.5, 1.5};
static const a_real m7kp[] = {NL, NL, NM, NM, NS, ZO, ZO, NL, NL, NM, NS, NS, ZO, PS, NM, NM, NM, NS, ZO, PS, PS, NM, NM, NS, ZO, PS, PM, PM, NS, NS, ZO, PS, PS, PM, PM, NS, ZO, PS, PM, PM, PM, PL, ZO, ZO, PM, PM, PM, PL, PL};
static const a_real m7ki[] = {PL, PL, PM, PM, PS, ZO, ZO, PL, PL, PM, PS, PS, ZO, ZO, PL, PM, PS, PS, ZO, NS, NS, PM, PM, PS, ZO, NS, NM, NM, PM, PS, ZO, NS, NS, NM, NL, ZO, ZO, NS, NS, NM, NL, NL, ZO, ZO, NS, NM, NM, NL, NL};
static const a_real m7kd[] = {NS, PS, PL, PL, PL, PM, NS, NS, PS, PL, PM, PM, PS, ZO, ZO, PS, PM, PM, PS, PS, ZO, ZO, PS, PS, PS, PS, PS, ZO, ZO, ZO, ZO, ZO, ZO, ZO, ZO, NL, NS, NS, NS, NS, NS, NL, NL, NM, NM, NM, NS, NS, NL};
struct Base
{
    const char *name;
    unsigned n, active;
    const a_real *me, *mec, *kp, *ki, *kd;
    double base_ki; // the base integral gain keeps ki >= 0 for every consequent
};
static const Base BASES[9] = {
    {"3x3 shoulder triangles", 3, 2, m3e, m3ec, m3kp, m3ki, m3kd, 0.5},
    {"5x5 trapezoid shoulders", 5, 2, m5e, m5e, m5k, m5k, m5k, 2},
    {"3x3 wide triangles (3 active)", 3, 3, w3e, w3e, w3k, w3k, w3k, 1},
    {"7x7 of test/pid_fuzzy.h", 7, 2, m7e, m7e, m7kp, m7ki, m7kd, 3},
    {"3x3 shoulder triangles without a kp table", 3, 2, m3e, m3ec, nullptr, m3ki, m3kd, 0.5}, // a table may be absent: that gain keeps its base value
    {"3x3 unsorted table (left, right, middle)", 3, 2, u3e, u3e, u3k, u3k, u3k, 3},
    {"2 huge ramps + triangle (tiny firing strengths)", 3, 3, n3e, n3e, u3k, u3k, u3k, 3},
    {"3x3 shoulder triangles without a ki table", 3, 2, m3e, m3ec, m3kp, nullptr, m3kd, 0.5},
    {"3x3 shoulder triangles without a kd table", 3, 2, m3e, m3ec, m3kp, m3ki, nullptr, 0.5},
};
static const unsigned OPRS[7] = {A_PID_FUZZY_EQU, A_PID_FUZZY_CAP, A_PID_FUZZY_CAP_ALGEBRA, A_PID_FUZZY_CAP_BOUNDED, A_PID_FUZZY_CUP, A_PID_FUZZY_CUP_ALGEBRA, A_PID_FUZZY_CUP_BOUNDED};
static const char *OPRN[7] = {"equ", "cap", "cap_algebra", "cap_bounded", "cup", "cup_algebra", "cup_bounded"};

struct FuzzyH
{
    Params P;
    const Base *B;
    int opr = 0;
    std::vector<double> A;
    int depth = 3;
    std::string job;
    const std::vector<xs::Op> *via_api = nullptr;
    struct St { double sum, out, var, fdb, err, kp, ki, kd; int depth; int pad; };
    // scratch buffer of exactly the documented size between two canary zones
    struct Buf
    {
        std::vector<unsigned char> raw;
        size_t n;
        explicit Buf(unsigned active) : raw(A_PID_FUZZY_BFUZZ(active) + 128, 0xCB), n(A_PID_FUZZY_BFUZZ(active)) {}
        void *p() { return raw.data() + 64; }
        bool intact() const
        {
            for (size_t i = 0; i < 64; ++i) { if (raw[i] != 0xCB || raw[64 + n + i] != 0xCB) { return false; } }
            return true;
        }
    };
    void setup(a_pid_fuzzy &c, Buf &buf) const
    {
        memset(&c, 0, sizeof c);
        c.pid.summin = (a_real)P.summin; c.pid.summax = (a_real)P.summax; c.pid.outmin = (a_real)P.outmin; c.pid.outmax = (a_real)P.outmax;
        a_pid_fuzzy_init(&c);
        a_pid_fuzzy_set_opr(&c, OPRS[opr]);
        a_pid_fuzzy_set_rule(&c, B->n, B->me, B->mec, B->kp, B->ki, B->kd);
        a_pid_fuzzy_set_kpid(&c, (a_real)P.kp, (a_real)(P.ki + B->base_ki), (a_real)P.kd);
        a_pid_fuzzy_set_bfuzz(&c, buf.p(), B->active);
    }
    static std::string enc(const a_pid_fuzzy &c, int d)
    {
        St s{cz(c.pid.sum), cz(c.pid.out), cz(c.pid.var), cz(c.pid.fdb), cz(c.pid.err), cz(c.pid.kp), cz(c.pid.ki), cz(c.pid.kd), d, 0};
        return std::string((const char *)&s, sizeof s);
    }
    void dec(a_pid_fuzzy &c, Buf &buf, int &d, const std::string &key) const
    {
        setup(c, buf);
        St s;
        memcpy(&s, key.data(), sizeof s);
        c.pid.sum = (a_real)s.sum; c.pid.out = (a_real)s.out; c.pid.var = (a_real)s.var; c.pid.fdb = (a_real)s.fdb; c.pid.err = (a_real)s.err;
        c.pid.kp = (a_real)s.kp; c.pid.ki = (a_real)s.ki; c.pid.kd = (a_real)s.kd;
        d = s.depth;
    }
    std::string init_key() { Buf b(B->active); a_pid_fuzzy c; setup(c, b); return enc(c, 0); }
    std::string key_str(const std::string &key) const
    {
        St s;
        memcpy(&s, key.data(), sizeof s);
        return std::string("fuzzy{") + B->name + ", " + OPRN[opr] + ", " + P.str() + " | sum=" + num(s.sum) + " out=" + num(s.out) + " fdb=" + num(s.fdb) + " err=" + num(s.err) + " gains=(" + num(s.kp) + "," + num(s.ki) + "," + num(s.kd) + ")}";
    }
    std::string op_str(const xs::Op &o) const { return o.code == M_ZERO ? "zero" : std::string(mode_name[o.code]) + "(set=" + num(A[(size_t)o.a]) + ",fdb=" + num(A[(size_t)o.b]) + ")"; }
    std::string op_sig(const xs::Op &o, const std::string &) const { return std::string("pid_fuzzy|") + mode_name[o.code] + "|" + OPRN[opr]; }
    void apply(a_pid_fuzzy &c, const xs::Op &o) const
    {
        a_real s = o.code == M_ZERO ? 0 : (a_real)A[(size_t)o.a], f = o.code == M_ZERO ? 0 : (a_real)A[(size_t)o.b];
        switch (o.code)
        {
        case M_RUN: last_ret = a_pid_fuzzy_run(&c, s, f); break;
        case M_POS: last_ret = a_pid_fuzzy_pos(&c, s, f); break;
        case M_INC: last_ret = a_pid_fuzzy_inc(&c, s, f); break;
        case M_ZERO: a_pid_fuzzy_zero(&c); break;
        }
    }
    mutable a_real last_ret = 0;
    // smallest / largest consequent of a table
    static void range(const a_real *t, unsigned n, double &lo, double &hi)
    {
        if (!t) { lo = hi = 0; return; } // no table: no correction
        lo = hi = (double)t[0];
        for (unsigned i = 1; i < n * n; ++i) { lo = std::min(lo, (double)t[i]); hi = std::max(hi, (double)t[i]); }
    }
    void check(const a_pid_fuzzy &b, const a_pid_fuzzy &c, const xs::Op &o, Buf &buf, Ck &ck) const
    {
        if (!buf.intact()) { ck.fail("buffer-overrun", "the scratch buffer of the documented size A_PID_FUZZY_BFUZZ(" + std::to_string(B->active) + ") was overrun"); return; }
        const double f[8] = {c.pid.sum, c.pid.out, c.pid.var, c.pid.fdb, c.pid.err, c.pid.kp, c.pid.ki, c.pid.kd};
        for (double v : f) { if (!std::isfinite(v)) { ck.fail("not-finite", "a state variable or scheduled gain became non-finite"); return; } }
        if (o.code != M_ZERO && last_ret != c.pid.out) { ck.fail("return-value", "the step returned " + num((double)last_ret) + " but the output it stored is " + num(c.pid.out)); return; }
        if (o.code == M_ZERO)
        {
            if (c.pid.sum != 0 || c.pid.out != 0 || c.pid.var != 0 || c.pid.fdb != 0 || c.pid.err != 0) { ck.fail("zero", "zeroing did not clear the controller state"); }
            return;
        }
        // scheduled gains: base + weighted mean of consequents, hence within [base+min, base+max]
        double lo, hi, tol = 4096 * (double)A_REAL_EPSILON;
        range(B->kp, B->n, lo, hi);
        if (!(c.pid.kp >= P.kp + lo - tol && c.pid.kp <= P.kp + hi + tol)) { ck.fail("gain-range", "scheduled kp " + num(c.pid.kp) + " outside base + [min,max] of the consequents"); return; }
        range(B->ki, B->n, lo, hi);
        if (!(c.pid.ki >= P.ki + B->base_ki + lo - tol && c.pid.ki <= P.ki + B->base_ki + hi + tol)) { ck.fail("gain-range", "scheduled ki " + num(c.pid.ki) + " outside base + [min,max] of the consequents"); return; }
        range(B->kd, B->n, lo, hi);
        if (!(c.pid.kd >= P.kd + lo - tol && c.pid.kd <= P.kd + hi + tol)) { ck.fail("gain-range", "scheduled kd " + num(c.pid.kd) + " outside base + [min,max] of the consequents"); return; }
        // the scheduled gains are the base gains plus the weighted mean of the consequents of the active rules
        // (base gains alone when no rule fires), recomputed from (e, ec) of THIS step by an independent reference
        {
            fref::L e = (fref::L)A[(size_t)o.a] - (fref::L)A[(size_t)o.b], ec = e - (fref::L)b.pid.err;
            fref::Gains G = fref::infer(B->n, B->me, B->mec, B->kp, B->ki, B->kd, (int)OPRS[opr], e, ec, (fref::L)A_REAL_EPSILON);
            double want[3] = {(double)((fref::L)P.kp + G.kp), (double)((fref::L)(P.ki + B->base_ki) + G.ki), (double)((fref::L)P.kd + G.kd)};
            double got[3] = {(double)c.pid.kp, (double)c.pid.ki, (double)c.pid.kd};
            static const char *gn[3] = {"kp", "ki", "kd"};
            for (int t = 0; t < 3; ++t)
            {
                if (!(std::fabs(got[t] - want[t]) <= 64 * (double)A_REAL_EPSILON * (std::fabs(want[t]) + 8)))
                {
                    ck.fail(G.any ? "gain-schedule" : "gain-schedule-no-rule", std::string("scheduled ") + gn[t] + " = " + num(got[t]) + " but base + weighted mean of the active consequents = " + num(want[t]) + " (e=" + num((double)e) + ", ec=" + num((double)ec) + ", " + std::to_string(G.ne) + "x" + std::to_string(G.nec) + " sets active)");
                    return;
                }
            }
        }
        // the step itself follows the plain equations with the gains scheduled for this step
        check_step(o.code, b.pid, c.pid, A[(size_t)o.a], A[(size_t)o.b], c.pid.kp, c.pid.ki, c.pid.kd, ck, nullptr, 16);
    }
    void expand(const std::string &key, uint32_t, xs::Sink &out)
    {
        int d;
        { Buf bb(B->active); a_pid_fuzzy t; dec(t, bb, d, key); }
        if (d >= depth) { return; }
        for (int mode = 0; mode < 4; ++mode)
        {
            for (size_t i = 0; i < A.size(); ++i)
            {
                for (size_t j = 0; j < A.size(); ++j)
                {
                    if (mode == M_ZERO && (i || j)) { continue; }
                    xs::Op o{mode, (long)i, (long)j, 0};
                    if (!out.enter(o)) { continue; }
                    Buf buf(B->active);
                    a_pid_fuzzy c, b;
                    if (via_api) { setup(c, buf); for (auto &p : *via_api) { apply(c, p); } } else { dec(c, buf, d, key); }
                    b = c;
                    apply(c, o);
                    Ck ck;
                    check(b, c, o, buf, ck);
                    out.leave();
                    if (!ck.ok()) { out.viol(o, std::string("pid_fuzzy|") + mode_name[mode] + "|" + OPRN[opr] + "|" + ck.cls, op_str(o) + " on " + key_str(key) + ": " + ck.err); continue; }
                    // after zeroing, the controller must behave as freshly initialised: its key must be the initial one up to the gains,
                    // which the next step reschedules before using them
                    out.succ(o, enc(c, d + 1), mode_name[mode], "ok");
                }
            }
        }
    }
    bool replay(const std::vector<xs::Op> &path, std::string &key, std::string &err)
    {
        Buf buf(B->active);
        a_pid_fuzzy c;
        setup(c, buf);
        for (auto &o : path) { apply(c, o); }
        (void)err;
        key = enc(c, (int)path.size());
        return true;
    }
};

// ---------------------------------------------------------------------------- rule base replaced in mid-history
// The explorations keep one rule base per controller.  Here a controller that has run one step on one rule base of the
// 3x3 family (all three tables, or one of them absent) is given another by a_pid_fuzzy_set_rule and stepped again: the
// step after the switch is checked exactly like any other step of the new rule base (a gain whose table is now absent
// is the base gain again, not the value scheduled last).
static void fuzzy_switch(const std::string &job, const std::vector<Params> &sets, bool thorough)
{
    static const size_t FAM[4] = {0, 4, 7, 8};
    const std::vector<double> A = thorough ? std::vector<double>{-3, -1, -0.5, 0, 0.25, 1, 2.5} : std::vector<double>{-3, -0.5, 0, 0.25, 1};
    unsigned long long steps = 0, bad = 0;
    for (int opr = 0; opr < 7; ++opr)
    {
        for (size_t pi = 0; pi < 2; ++pi)
        {
            for (size_t from = 0; from < 4; ++from)
            {
                for (size_t to = 0; to < 4; ++to)
                {
                    if (from == to) { continue; }
                    FuzzyH h0, h1;
                    h0.B = &BASES[FAM[from]]; h1.B = &BASES[FAM[to]];
                    h0.opr = h1.opr = opr;
                    h0.P = h1.P = sets[(pi * 5) % sets.size()];
                    h0.A = h1.A = A;
                    bool reported = false;
                    for (int m0 = 0; m0 < 3 && !reported; ++m0)
                    for (size_t i0 = 0; i0 < A.size() && !reported; ++i0)
                    for (size_t j0 = 0; j0 < A.size() && !reported; ++j0)
                    for (int m1 = 0; m1 < 3 && !reported; ++m1)
                    for (size_t i1 = 0; i1 < A.size() && !reported; ++i1)
                    for (size_t j1 = 0; j1 < A.size() && !reported; ++j1)
                    {
                        FuzzyH::Buf buf(3);
                        a_pid_fuzzy c, b;
                        h0.setup(c, buf);
                        xs::Op o0{m0, (long)i0, (long)j0, 0}, o1{m1, (long)i1, (long)j1, 0};
                        h0.apply(c, o0);
                        a_pid_fuzzy_set_rule(&c, h1.B->n, h1.B->me, h1.B->mec, h1.B->kp, h1.B->ki, h1.B->kd);
                        b = c;
                        h1.apply(c, o1);
                        Ck ck;
                        h1.check(b, c, o1, buf, ck);
                        ++steps;
                        if (!ck.ok())
                        {
                            ++bad;
                            reported = true; // one report per (operator, parameters, from, to)
                            vx::viol(std::string("pid_fuzzy|rule-base-switch|") + mode_name[m1] + "|" + ck.cls,
                                     std::string("after ") + h0.op_str(o0) + " on \"" + h0.B->name + "\" the rule base was replaced by \"" + h1.B->name + "\" (a_pid_fuzzy_set_rule); the next step " + h1.op_str(o1) + " (" + OPRN[opr] + ", " + h1.P.str() + "): " + ck.err,
                                     "{\"job\":" + vx::jstr(job) + ",\"scenario\":\"rule-base-switch\",\"from\":" + vx::jstr(h0.B->name) + ",\"to\":" + vx::jstr(h1.B->name) + ",\"operator\":" + vx::jstr(OPRN[opr]) + ",\"first\":" + vx::jstr(h0.op_str(o0)) + ",\"second\":" + vx::jstr(h1.op_str(o1)) + "}");
                        }
                    }
                }
            }
        }
    }
    (void)bad;
    vx::stat("rule_base_switch_steps", (long long)steps);
    vx::sample("{\"job\":" + vx::jstr(job) + ",\"case\":\"rule base replaced in mid-history: 7 operators x 2 parameter sets x 12 ordered pairs of the 3x3 family (full, without kp / ki / kd table) x every first step x every second step (3 modes x " + std::to_string(A.size() * A.size()) + " inputs each), the second step checked like any step of the new rule base\"}");
}

// ---------------------------------------------------------------------------- parameter sets
static std::vector<Params> param_sets(bool thorough)
{
    std::vector<Params> v;
    if (!thorough)
    {
        // one per limit relation: wide, integrator clamp at zero on one side, degenerate clamps, tight output, asymmetric, kd/kp only
        v = {
            {1, 0.5, 0.5, -4, 5, -3, 3}, {0.5, 1, 0, -2, 0, -6, -1}, {2, 0.5, 2, 0, 3, 0, 4}, {1, 1, 1, 0, 0, -3, 3},
            {0, 1, 0, -4, 5, 2, 2}, {0.5, 0.5, 0.5, -2, 0, 0, 4}, {2, 1, 0.5, 0, 3, -3, 3}, {0, 0, 2, -4, 5, -6, -1},
            {1, 0, 0, 0, 0, -3, 3}, {0, 0.5, 0, -1, 1, -8, 8}, {2, 2, 2, -4, 5, -3, 3}, {0.5, 1, 2, -1, 1, -2, 2},
        };
        return v;
    }
    static const double KP[] = {0, 0.5, 2}, KI[] = {0, 0.5, 1}, KD[] = {0, 0.5, 2};
    static const double SL[][2] = {{0, 0}, {-2, 0}, {0, 3}, {-4, 5}}, OL[][2] = {{-3, 3}, {0, 4}, {-6, -1}, {2, 2}};
    for (double kp : KP) { for (double ki : KI) { for (double kd : KD) { for (auto &s : SL) { for (auto &o : OL) { v.push_back({kp, ki, kd, s[0], s[1], o[0], o[1]}); } } } } }
    return v;
}

static uint64_t g_states, g_trans, g_replays, g_depth;
template <class H>
static void explore(H &h, const std::string &label, bool &all_fix)
{
    xs::Explorer<H> ex(h);
    ex.job = h.job;
    ex.run();
    g_states += ex.st.states; g_trans += ex.st.transitions; g_replays += ex.st.replays;
    if (ex.st.max_depth > g_depth) { g_depth = ex.st.max_depth; }
    vx::info(label.c_str(), "{\"states\":" + std::to_string(ex.st.states) + ",\"transitions\":" + std::to_string(ex.st.transitions) + ",\"max_depth\":" + std::to_string(ex.st.max_depth) + ",\"fixpoint\":" + (ex.st.fixpoint ? "true" : "false") + "}");
    if (!ex.st.fixpoint) { all_fix = false; }
    static int samples = 0;
    if (samples++ < 2) { ex.emit_samples(1); }
}

template <class H>
static int replay_one(H &h, vx::Args &args) { return xs::replay_main(h, args.get("replay-raw")); }

int main(int argc, char **argv)
{
    vx::Args args(argc, argv);
    std::string mode = args.get("mode", "plain"), tier = args.get("tier", "quick"), job = args.get("job", "pid");
    long shard = args.geti("shard", 0), nshards = args.geti("nshards", 1);
    bool thorough = tier == "thorough";
    vx::deadline().limit_s = args.getd("deadline", 1e18);
    std::vector<double> alpha = thorough ? std::vector<double>{-3, -1, 0, 2} : std::vector<double>{-2, 0, 1};
    std::vector<Params> sets = param_sets(thorough);
    // a replay names its exploration by index
    long only = args.geti("set", -1);
    auto run_all = [&](bool replay) -> int {
        bool all_fix = true;
        long item = 0;
        if (mode == "plain" || mode == "pair")
        {
            for (size_t i = 0; i < sets.size(); ++i, ++item)
            {
                if (only >= 0 ? (long)i != only : item % nshards != shard) { continue; }
                if (mode == "plain")
                {
                    PlainH h;
                    h.P = sets[i]; h.A = alpha; h.job = job + "#set" + std::to_string(i);
                    if (replay) { return replay_one(h, args); }
                    explore(h, "set" + std::to_string(i) + " " + sets[i].str(), all_fix);
                }
                else
                {
                    PairH h;
                    h.P = sets[i]; h.A = thorough ? std::vector<double>{-3, -1, 0, 1, 2} : std::vector<double>{-2, -1, 0, 1}; h.job = job + "#set" + std::to_string(i);
                    if (replay) { return replay_one(h, args); }
                    explore(h, "set" + std::to_string(i) + " " + sets[i].str(), all_fix);
                }
            }
        }
        else if (mode == "neuro")
        {
            static const double W[][3] = {{0, 0, 0}, {1, 1, 1}, {0.5, -1, 2}, {0, 0, 1}};
            static const double K[] = {1, 2};
            size_t np = thorough ? 6 : 3;
            for (size_t i = 0; i < np; ++i)
            {
                for (auto &w : W)
                {
                    for (double k : K)
                    {
                        long id = item++;
                        if (only >= 0 ? id != only : id % nshards != shard) { continue; }
                        NeuroH h;
                        h.P = sets[i * 2]; h.k = k; memcpy(h.w0, w, sizeof h.w0);
                        h.A = thorough ? std::vector<double>{-2, -1, 0, 1, 2} : std::vector<double>{-2, 0, 1};
                        h.depth = thorough ? 5 : 4;
                        h.job = job + "#set" + std::to_string(id);
                        if (replay) { return replay_one(h, args); }
                        explore(h, "neuro" + std::to_string(id), all_fix);
                    }
                }
            }
        }
        else
        {
            size_t np = thorough ? 4 : 2;
            for (size_t b = 0; b < sizeof BASES / sizeof *BASES; ++b)
            {
                for (int opr = 0; opr < 7; ++opr)
                {
                    for (size_t i = 0; i < np; ++i)
                    {
                        long id = item++;
                        if (only >= 0 ? id != only : id % nshards != shard) { continue; }
                        // (degrees around 1e-8: the two operators whose documented formula is a cancelling difference are not run on this base)
                        if (BASES[b].me == n3e && (OPRS[opr] == A_PID_FUZZY_EQU || OPRS[opr] == A_PID_FUZZY_CAP_BOUNDED)) { continue; }
                        FuzzyH h;
                        h.B = &BASES[b]; h.opr = opr;
                        h.P = sets[(i * 5) % sets.size()];
                        // feedback/set-point lattice: errors on and between the set centres, beyond the universe on both sides
                        h.A = thorough ? std::vector<double>{-3, -1, -0.5, 0, 0.25, 1, 2.5} : std::vector<double>{-3, -0.5, 0, 0.25, 1};
                        h.depth = thorough ? 4 : 3;
                        h.job = job + "#set" + std::to_string(id);
                        if (replay) { return replay_one(h, args); }
                        explore(h, std::string("fuzzy") + std::to_string(id) + " " + BASES[b].name + " " + OPRN[opr], all_fix);
                    }
                }
            }
        }
        if (mode == "fuzzy" && !replay && only < 0 && shard == 0) { fuzzy_switch(job, sets, thorough); }
        if (!replay)
        {
            vx::stat("states", (long long)g_states);
            vx::stat("transitions", (long long)g_trans);
            vx::stat("traces_validated_against_impl", (long long)g_replays);
            vx::maxstat("max_depth", (long long)g_depth);
            vx::book().flush_counts();
            vx::done(all_fix, all_fix ? (mode == "plain" || mode == "pair" ? "fixpoint for every parameter set: histories of any length" : "complete to the stated depth") : "deadline hit");
        }
        return 0;
    };
    if (args.has("replay-raw")) { return run_all(true); }
    return vx::run_contained([&] { run_all(false); }, 60.0);
}
