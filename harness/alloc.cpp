// alloc.cpp — C07 with the library's DEFAULT allocator (a_alloc_ in src/a.c).  The other C07 jobs install a shim through the a_alloc
// seam and therefore never execute a_alloc_; here the C library's malloc / realloc / free are interposed instead (the executable defines
// them and forwards to glibc's __libc_* entry points), so that every request the default allocator makes can be failed and every block
// it obtains and releases is tracked.  Enumerated: the allocator contract itself (fresh / grow / shrink / release x success / failure),
// and vector, string, queue and buffer histories in which each C-library request in turn is the one that fails.
#include "../engine/grid.hpp"
#include <cstring>
#include <cstdio>

extern "C" {
void *__libc_malloc(size_t);
void *__libc_realloc(void *, size_t);
void __libc_free(void *);
void *__libc_calloc(size_t, size_t);
}

// ---- interposition state (no dynamic memory in here)
static bool g_track = false;      // only requests made while a library call is running are tracked / failed
static long g_fail_at = -1;       // index (among tracked requests that can fail) of the request to fail
static bool g_fail_from = false;  // ... and every later one
static long g_requests = 0;
static const int MAXLIVE = 4096;
static void *g_live[MAXLIVE];
static int g_nlive = 0;
static int g_double_free = 0, g_foreign_free = 0, g_failed = 0;
static void *g_retired[MAXLIVE];
static int g_nretired = 0;

static int find(void **a, int n, void *p) { for (int i = 0; i < n; ++i) { if (a[i] == p) { return i; } } return -1; }
static void live_add(void *p) { if (p && g_nlive < MAXLIVE) { g_live[g_nlive++] = p; int r = find(g_retired, g_nretired, p); if (r >= 0) { g_retired[r] = g_retired[--g_nretired]; } } }
static bool live_del(void *p)
{
    int i = find(g_live, g_nlive, p);
    if (i < 0) { return false; }
    g_live[i] = g_live[--g_nlive];
    if (g_nretired < MAXLIVE) { g_retired[g_nretired++] = p; }
    return true;
}
static bool should_fail()
{
    long idx = g_requests++;
    if (g_fail_at >= 0 && (idx == g_fail_at || (g_fail_from && idx > g_fail_at))) { ++g_failed; return true; }
    return false;
}

extern "C" void *malloc(size_t n)
{
    if (!g_track) { return __libc_malloc(n); }
    if (should_fail()) { return nullptr; }
    void *p = __libc_malloc(n);
    live_add(p);
    return p;
}
extern "C" void *calloc(size_t a, size_t b)
{
    if (!g_track) { return __libc_calloc(a, b); }
    if (should_fail()) { return nullptr; }
    void *p = __libc_calloc(a, b);
    live_add(p);
    return p;
}
extern "C" void *realloc(void *old, size_t n)
{
    if (!g_track) { return __libc_realloc(old, n); }
    if (old && find(g_live, g_nlive, old) < 0) { ++g_foreign_free; return nullptr; } // resizing a block that is not live: do not touch it
    if (n && should_fail()) { return nullptr; }                                      // like realloc: the old block stays valid
    if (old) { live_del(old); }
    void *p = __libc_realloc(old, n);
    if (n) { live_add(p); }
    return p;
}
extern "C" void free(void *p)
{
    if (!g_track) { __libc_free(p); return; }
    if (!p) { return; }
    if (!live_del(p))
    {
        if (find(g_retired, g_nretired, p) >= 0) { ++g_double_free; } else { ++g_foreign_free; }
        return; // never hand a dead block to the C library
    }
    __libc_free(p);
}

extern "C" {
#include "a/a.h"
#include "a/vec.h"
#include "a/str.h"
#include "a/que.h"
#include "a/buf.h"
}

static grid::Run R;
static uint64_t n_eval;
struct Scope
{
    Scope(long k, bool from) { g_requests = 0; g_fail_at = k; g_fail_from = from; g_failed = 0; g_track = true; }
    ~Scope() { g_track = false; g_fail_at = -1; }
};
static void reset_counts() { g_double_free = g_foreign_free = 0; g_nlive = 0; g_nretired = 0; }
static bool is_live(void *p) { return find(g_live, g_nlive, p) >= 0; }
static std::string bad_release()
{
    if (g_double_free) { return "a block was released twice"; }
    if (g_foreign_free) { return "a block that is not live was released or resized"; }
    return "";
}

// ---- 1. the allocator contract
static void contract()
{
    vx::mark("contract");
    static const size_t SZ[4] = {1, 8, 100, 5000};
    for (size_t s0 : SZ)
    {
        for (size_t s1 : SZ)
        {
            for (int fail_fresh = 0; fail_fresh < 2; ++fail_fresh)
            {
                for (int fail_resize = 0; fail_resize < 2; ++fail_resize)
                {
                    reset_counts();
                    ++n_eval;
                    std::string in = "{\"first\":" + std::to_string(s0) + ",\"second\":" + std::to_string(s1) + ",\"fail_fresh\":" + std::to_string(fail_fresh) + ",\"fail_resize\":" + std::to_string(fail_resize) + "}";
                    void *p;
                    { Scope sc(fail_fresh ? 0 : -1, false); p = a_alloc(nullptr, s0); }
                    if (fail_fresh)
                    {
                        if (p || g_nlive) { R.viol("alloc|fresh|failure", "a failed fresh request did not return null (or left a block behind)", in); }
                        continue;
                    }
                    if (!p || !is_live(p)) { R.viol("alloc|fresh", "a fresh request did not return a live block", in); continue; }
                    memset(p, 0x5A, s0);
                    void *q;
                    { Scope sc(fail_resize ? 0 : -1, false); q = a_alloc(p, s1); }
                    if (fail_resize)
                    {
                        // like realloc: null is returned and the old block stays valid and untouched
                        if (q) { R.viol("alloc|resize|failure", "a failed resize did not return null", in); continue; }
                        if (!is_live(p)) { R.viol("alloc|resize|failure-released", "a failed resize released the old block although it reports failure (the caller keeps using it)", in); continue; }
                        bool same = true;
                        for (size_t i = 0; i < s0; ++i) { if (((unsigned char *)p)[i] != 0x5A) { same = false; } }
                        if (!same) { R.viol("alloc|resize|failure-contents", "a failed resize changed the old block", in); continue; }
                        q = p;
                    }
                    else
                    {
                        if (!q || !is_live(q)) { R.viol("alloc|resize", "a resize did not return a live block", in); continue; }
                        size_t keep = s0 < s1 ? s0 : s1;
                        bool same = true;
                        for (size_t i = 0; i < keep; ++i) { if (((unsigned char *)q)[i] != 0x5A) { same = false; } }
                        if (!same) { R.viol("alloc|resize|contents", "a resize lost the contents", in); continue; }
                    }
                    void *r;
                    { Scope sc(-1, false); r = a_alloc(q, 0); }
                    if (r || g_nlive) { R.viol("alloc|release", "releasing (size 0) did not free the block or did not return null", in); continue; }
                    std::string br = bad_release();
                    if (!br.empty()) { R.viol("alloc|release|" + std::string(g_double_free ? "twice" : "foreign"), br, in); }
                }
            }
        }
    }
    R.part("default allocator contract: fresh / resize (grow, shrink, same) / release over 4 sizes x {success, failure}: null on failure, old block live and unchanged after a failed resize, contents kept, everything released once", n_eval, n_eval);
}

// ---- 2. container histories on the default allocator, every C-library request in turn failing
template <class Build, class Verify, class Destroy>
static void history(const char *name, Build build, Verify verify, Destroy destroy)
{
    // fault-free run: count the requests
    reset_counts();
    long total;
    { Scope sc(-1, false); void *obj = build(nullptr); total = g_requests; g_track = false; g_track = true; destroy(obj); }
    if (g_nlive) { R.viol(std::string("default-alloc|") + name + "|leak", "blocks are still live after the container was destroyed (fault-free run)", "{}"); }
    for (long k = 0; k < total; ++k)
    {
        for (int from = 0; from < 2; ++from)
        {
            reset_counts();
            ++n_eval;
            std::string in = "{\"container\":\"" + std::string(name) + "\",\"failing_request\":" + std::to_string(k) + ",\"all_later\":" + std::to_string(from) + "}";
            std::string why;
            void *obj;
            { Scope sc(k, from != 0); obj = build(&why); }
            if (!why.empty()) { R.viol(std::string("default-alloc|") + name + "|" + (why.find("report") != std::string::npos ? "failure-not-reported" : "state"), why, in); }
            if (obj)
            {
                { Scope sc(-1, false); std::string v = verify(obj); if (!v.empty() && why.empty()) { R.viol(std::string("default-alloc|") + name + "|storage", v, in); } }
                { Scope sc(-1, false); destroy(obj); }
            }
            std::string br = bad_release();
            if (!br.empty()) { R.viol(std::string("default-alloc|") + name + "|release|" + (g_double_free ? "twice" : "foreign"), br + " (request " + std::to_string(k) + " failed)", in); }
            else if (g_nlive) { R.viol(std::string("default-alloc|") + name + "|leak", std::to_string(g_nlive) + " block(s) still live after the container was destroyed", in); }
        }
    }
}

static void containers()
{
    vx::mark("containers");
    // vector of ints: 40 pushes (several growth steps); a failed push must leave the contents and the storage as they were
    history("vec",
        [](std::string *why) -> void * {
            a_vec *v = a_vec_new(sizeof(int));
            if (!v) { return nullptr; }
            int model = 0;
            for (int i = 0; i < 40; ++i)
            {
                int *p = (int *)a_vec_push_back(v);
                if (p) { *p = 1000 + model; ++model; }
                else if (why && !g_failed) { *why = "a_vec_push_back returned null although no allocation failed"; }
                if ((int)a_vec_num(v) != model) { if (why) { *why = "the element count changed on a failed push"; } break; }
            }
            for (int i = 0; i < model; ++i) { if (((int *)a_vec_ptr(v))[i] != 1000 + i) { if (why) { *why = "the vector lost its contents after a failed growth"; } break; } }
            return v;
        },
        [](void *o) -> std::string { a_vec *v = (a_vec *)o; return (a_vec_ptr(v) && !is_live(a_vec_ptr(v))) ? "after a failed growth the vector points to storage that is not live" : ""; },
        [](void *o) { a_vec_die((a_vec *)o, nullptr); });
    // string: appends across several capacity steps
    history("str",
        [](std::string *why) -> void * {
            a_str *s = a_str_new();
            if (!s) { return nullptr; }
            size_t model = 0;
            for (int i = 0; i < 30; ++i)
            {
                int rc = a_str_catn(s, "abcdefg", 7);
                if (rc == A_SUCCESS) { model += 7; }
                else if (why && !g_failed) { *why = "a_str_catn reported failure although no allocation failed"; }
                if (a_str_len(s) != model) { if (why) { *why = "the length changed on a failed append"; } break; }
            }
            for (size_t i = 0; i < model; ++i) { if (a_str_ptr(s)[i] != "abcdefg"[i % 7]) { if (why) { *why = "the string lost its contents after a failed growth"; } break; } }
            return s;
        },
        [](void *o) -> std::string { a_str *s = (a_str *)o; return (a_str_ptr(s) && !is_live(a_str_ptr(s))) ? "after a failed growth the string points to storage that is not live" : ""; },
        [](void *o) { a_str_die((a_str *)o); });
    // queue: pushes, pulls (filling the node pool), pushes again
    history("que",
        [](std::string *why) -> void * {
            a_que *q = a_que_new(sizeof(int));
            if (!q) { return nullptr; }
            int model = 0;
            for (int i = 0; i < 12; ++i) { int *p = (int *)a_que_push_back(q); if (p) { *p = i; ++model; } }
            for (int i = 0; i < 10; ++i) { if (a_que_pull_fore(q)) { --model; } }
            for (int i = 0; i < 6; ++i) { int *p = (int *)a_que_push_back(q); if (p) { *p = 100 + i; ++model; } }
            if ((int)a_que_num(q) != model && why) { *why = "the element count disagrees with the successful operations"; }
            size_t cnt = 0;
            a_que_foreach(int, *, it, q) { (void)it; if (++cnt > 64) { break; } }
            if ((int)cnt != model && why && why->empty()) { *why = "the ring does not hold the elements of the successful operations"; }
            return q;
        },
        [](void *) -> std::string { return ""; },
        [](void *o) { a_que_die((a_que *)o, nullptr); });
    // fixed buffer: allocated once, resized
    history("buf",
        [](std::string *why) -> void * {
            a_buf *b = a_buf_new(sizeof(int), 4);
            if (!b) { return nullptr; }
            for (int i = 0; i < 4; ++i) { int *p = (int *)a_buf_push_back(b); if (p) { *p = i; } }
            a_buf *b2 = a_buf_setm(b, 16);
            if (b2) { b = b2; }
            else if (!is_live(b)) { if (why) { *why = "a failed a_buf_setm released the buffer although it reports failure"; } return nullptr; }
            for (int i = 0; i < 4; ++i) { if (((int *)a_buf_ptr(b))[i] != i) { if (why) { *why = "the buffer lost its contents"; } break; } }
            return b;
        },
        [](void *o) -> std::string { return is_live(o) ? "" : "the buffer is not a live block"; },
        [](void *o) { a_buf_die((a_buf *)o, nullptr); });
    R.part("vector (40 pushes), string (30 appends), queue (push/pull/push through the node pool), buffer (allocate + resize) on the default allocator: every C-library request in turn failing, alone and with all later ones", n_eval, n_eval);
}

int main(int argc, char **argv)
{
    vx::Args args(argc, argv);
    R.init(args);
    return vx::run_contained([&] {
        n_eval = 0;
        if ((void *)a_alloc != (void *)a_alloc_) { R.viol("alloc|default", "a_alloc does not start out as the default allocator a_alloc_", "{}"); }
        contract();
        containers();
        R.sample("{\"rule\":\"malloc/realloc/free interposed: a failed resize must leave the old block live; every block released exactly once\"}");
        R.finish(true, "contract and container histories enumerated");
    }, 30.0);
}
