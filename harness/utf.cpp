// utf.cpp — C18: UTF-8 codec round trip over every code point, decoder on arbitrary bytes with the
// stated length ending exactly at an inaccessible page.  DESIGN.md §4.C18.
#include "../engine/grid.hpp"
#include <sys/mman.h>

extern "C" {
#include "a/utf.h"
}

static grid::Run R;
static unsigned char *guard; // first byte of the PROT_NONE page

static unsigned table_len(uint32_t c)
{
    return c < 0x80 ? 1 : c < 0x800 ? 2 : c < 0x10000 ? 3 : c < 0x200000 ? 4 : c < 0x4000000 ? 5 : 6;
}
static unsigned ref_encode(uint32_t c, unsigned char *o)
{
    unsigned n = table_len(c);
    static const unsigned char lead[7] = {0, 0x00, 0xC0, 0xE0, 0xF0, 0xF8, 0xFC};
    if (n == 1) { o[0] = (unsigned char)c; return 1; }
    for (unsigned i = n - 1; i > 0; --i) { o[i] = (unsigned char)(0x80 | (c & 0x3F)); c >>= 6; }
    o[0] = (unsigned char)(lead[n] | c);
    return n;
}
static int lead_class(unsigned char b) // sequence length announced by a lead byte, 0 = not a lead of a multi-byte sequence the codec may accept
{
    if ((b & 0xE0) == 0xC0) { return 2; }
    if ((b & 0xF0) == 0xE0) { return 3; }
    if ((b & 0xF8) == 0xF0) { return 4; }
    if ((b & 0xFC) == 0xF8) { return 5; }
    if ((b & 0xFE) == 0xFC) { return 6; }
    return 0;
}
static uint32_t ref_value(const unsigned char *b, int n)
{
    static const unsigned char m[7] = {0, 0x7F, 0x1F, 0x0F, 0x07, 0x03, 0x01};
    uint32_t v = b[0] & m[n];
    for (int i = 1; i < n; ++i) { v = (v << 6) | (b[i] & 0x3F); }
    return v;
}
static std::string hexs(const unsigned char *b, size_t n)
{
    std::string s = "\"";
    char t[4];
    for (size_t i = 0; i < n; ++i) { snprintf(t, sizeof t, "%02X", b[i]); s += t; }
    return s + "\"";
}

// ---------------------------------------------------------------- part A: every code point
static uint64_t an, ant;
static uint64_t cur_block = ~0ull;
static bool block_skipped = false;
static void codepoint(uint32_t cp)
{
    // crash containment: code points are published in blocks of 4096; a block that killed an earlier child is reported and skipped
    if ((cp >> 12) != cur_block)
    {
        cur_block = cp >> 12;
        vx::Slot slot = {{1, cur_block, 0, 0, 0, 0}};
        int crashed = vx::enter(slot);
        block_skipped = crashed != 0;
        if (crashed) { R.viol("utf_decode|read-past-length", "decoding the encoding (or a prefix) of a code point in block " + grid::hex(cur_block << 12) + " read beyond the stated length (" + vx::signame(crashed) + ")", "{\"block\":" + grid::hex(cur_block << 12) + "}"); }
    }
    if (block_skipped) { return; }
    unsigned char want[8], got[16];
    unsigned wn = ref_encode(cp, want);
    memset(got, 0xEE, sizeof got);
    unsigned n = a_utf_encode(cp, got + 4);
    ++an;
    ant += cp >= 0x80;
    std::string in = "{\"codepoint\":" + grid::hex(cp) + "}";
    std::string cls = "len" + std::to_string(wn);
    if (n != wn) { R.viol("utf_encode|length|" + cls, "a_utf_encode(" + grid::hex(cp) + ") used " + std::to_string(n) + " bytes, the UTF-8 table prescribes " + std::to_string(wn), in); return; }
    if (memcmp(got + 4, want, wn) != 0) { R.viol("utf_encode|bytes|" + cls, "a_utf_encode(" + grid::hex(cp) + ") wrote " + hexs(got + 4, wn) + ", expected " + hexs(want, wn), in); return; }
    for (int i = 0; i < 16; ++i) { if ((i < 4 || i >= 4 + (int)wn) && got[i] != 0xEE) { R.viol("utf_encode|overrun", "a_utf_encode wrote outside the bytes it reported", in); return; } }
    if (a_utf_encode(cp, nullptr) != wn) { R.viol("utf_encode|null-buffer|" + cls, "a_utf_encode with a null buffer reports a different length", in); return; }
    if (a_utf_encode(cp | 0x80000000u, nullptr) != wn) { R.viol("utf_encode|bit31", "bit 31 of the argument is not ignored", in); return; }
    // decode the bytes the encoder produced, placed so that reading one byte too many faults
    for (unsigned stated = 0; stated <= wn; ++stated)
    {
        unsigned char *p = guard - stated;
        memcpy(p, got + 4, stated);
        a_u32 v = 0xDEADBEEF;
        unsigned r = a_utf_decode(p, stated, &v), r0 = a_utf_decode(p, stated, nullptr);
        if (stated == wn)
        {
            if (r != wn || v != cp) { R.viol("utf_decode|roundtrip|" + cls, "decoding the " + std::to_string(wn) + " bytes of " + grid::hex(cp) + " returned length " + std::to_string(r) + " and code point " + grid::hex(v), in); return; }
            if (r0 != wn) { R.viol("utf_decode|roundtrip-null|" + cls, "decoding with a null output reports a different length", in); return; }
        }
        else if (r != 0 || r0 != 0) { R.viol("utf_decode|prefix-accepted|" + cls, "decoding a proper prefix (" + std::to_string(stated) + " of " + std::to_string(wn) + " bytes) of " + grid::hex(cp) + " did not report failure", in); return; }
    }
}
static void part_a(bool thorough)
{
    an = ant = 0;
    if (thorough)
    {
        uint64_t lo, hi;
        R.shard.range(0x80000000ull, lo, hi);
        for (uint64_t c = lo ? lo : 1; c < hi; ++c) { codepoint((uint32_t)c); R.tick(); }
        R.part("every code point 1..2^31-1 (this shard's range): encode length/bytes, null buffer, bit 31, decode round trip, every proper prefix rejected, with and without output", an, ant);
    }
    else
    {
        uint64_t lo, hi;
        R.shard.range(0x110000ull, lo, hi);
        for (uint64_t c = lo ? lo : 1; c < hi; ++c) { codepoint((uint32_t)c); R.tick(); }
        static const uint32_t B[] = {0x80, 0x800, 0x10000, 0x110000, 0x200000, 0x4000000, 0x80000000u};
        for (uint32_t b : B)
        {
            for (int d = -256; d <= 256; ++d)
            {
                uint64_t c = (uint64_t)b + (uint64_t)(int64_t)d;
                if (c >= 1 && c < 0x80000000ull && R.shard.mine(c)) { codepoint((uint32_t)c); }
            }
        }
        for (uint32_t m = 1 + (uint32_t)R.shard.idx; m < 4096; m += (uint32_t)R.shard.n) { for (int e = 0; e < 31; ++e) { uint64_t c = (uint64_t)m << e; if (c < 0x80000000ull) { codepoint((uint32_t)c); codepoint((uint32_t)(c - 1) ? (uint32_t)(c - 1) : 1); } } }
        R.part("code points: all below 0x110000, +-256 around every length boundary, every m*2^e and m*2^e-1 (m<4096): encode length/bytes, null buffer, bit 31, decode round trip, every proper prefix rejected", an, ant);
    }
    R.sample("{\"codepoint\":\"0x20AC\",\"bytes\":\"E282AC\",\"decode\":\"3 bytes -> 0x20AC; prefixes of 0,1,2 bytes -> 0\"}");
}

// ---------------------------------------------------------------- part B: arbitrary bytes
static uint64_t bn, bnt;
static void one_string(const unsigned char *s, int len, uint64_t item)
{
    vx::Slot slot = {{2, item, 0, 0, 0, 0}};
    int crashed = vx::enter(slot);
    if (crashed)
    {
        R.viol("utf_decode|read-past-length", "decoding " + hexs(s, (size_t)len) + " with some stated length <= " + std::to_string(len) + " read beyond the stated length (" + vx::signame(crashed) + ")", "{\"bytes\":" + hexs(s, (size_t)len) + "}");
        return;
    }
    for (int stated = 0; stated <= len; ++stated)
    {
        unsigned char *p = guard - stated;
        memcpy(p, s, (size_t)stated);
        a_u32 v = 0xDEADBEEF;
        unsigned r = a_utf_decode(p, (a_size)stated, &v), r0 = a_utf_decode(p, (a_size)stated, nullptr);
        ++bn;
        bnt += stated > 0 && s[0] >= 0x80;
        std::string in = "{\"bytes\":" + hexs(s, (size_t)stated) + ",\"stated\":" + std::to_string(stated) + "}";
        if (r != r0) { R.viol("utf_decode|null-output-differs", "the decoder reports " + std::to_string(r) + " bytes with an output and " + std::to_string(r0) + " without", in); continue; }
        if (r > (unsigned)stated) { R.viol("utf_decode|more-than-available", "the decoder reported " + std::to_string(r) + " bytes with only " + std::to_string(stated) + " available", in); continue; }
        if (stated && (s[0] == 0xFE || s[0] == 0xFF) && r != 0) { R.viol("utf_decode|fe-ff-accepted", "a sequence led by 0xFE/0xFF was accepted", in); continue; }
        if (r > 1)
        {
            bool ok = lead_class(s[0]) == (int)r;
            for (unsigned i = 1; i < r && ok; ++i) { ok = (s[i] & 0xC0) == 0x80; }
            if (!ok) { R.viol("utf_decode|bad-sequence-accepted", "a " + std::to_string(r) + "-byte sequence was accepted although its lead byte does not announce that length or a trailing byte is not a continuation byte", in); continue; }
            if (v != ref_value(s, (int)r)) { R.viol("utf_decode|value", "the decoded code point " + grid::hex(v) + " is not the payload of the sequence", in); continue; }
        }
        if (r == 1 && s[0] < 0x80 && v != s[0]) { R.viol("utf_decode|value", "a one-byte sequence decoded to a different code point", in); continue; }
        if (stated && s[0] == 0 && r != 0) { R.viol("utf_decode|nul", "the NUL byte was reported as a character", in); continue; }
        // the length counter: advances by exactly what the decoder reports, stops at the first NUL or undecodable byte
        a_size stop = 12345;
        a_size cnt = a_utf_length(p, (a_size)stated, &stop);
        a_size pos = 0, want = 0;
        for (;;)
        {
            unsigned d = a_utf_decode(p + pos, (a_size)stated - pos, nullptr);
            if (!d) { break; }
            pos += d;
            ++want;
        }
        if (cnt != want || stop != pos) { R.viol("utf_length|count", "a_utf_length counted " + std::to_string(cnt) + " code points consuming " + std::to_string(stop) + " bytes; stepping with the decoder gives " + std::to_string(want) + " / " + std::to_string(pos), in); continue; }
        if (a_utf_length(p, (a_size)stated, nullptr) != want) { R.viol("utf_length|count", "a_utf_length with a null stop pointer counts differently", in); continue; }
        (void)a_utf_length_(p, (a_size)stated); // must not read at or beyond the stated length (guard page)
    }
    vx::leave();
}
static void part_b(bool thorough)
{
    bn = bnt = 0;
    uint64_t item = 0;
    unsigned char s[8];
    // every string of length <= 3 over all 256 byte values (length 3: sharded over the first byte)
    for (int a = 0; a < 256; ++a)
    {
        if (!R.shard.mine((uint64_t)a)) { item += 65536 + 256 + 1; continue; }
        s[0] = (unsigned char)a;
        one_string(s, 1, item++);
        for (int b = 0; b < 256; ++b)
        {
            s[1] = (unsigned char)b;
            one_string(s, 2, item++);
            for (int c = 0; c < 256; ++c) { s[2] = (unsigned char)c; one_string(s, 3, item++); }
        }
        R.tick();
    }
    // longer strings over one representative per lead / continuation class
    static const unsigned char REP[18] = {0x00, 0x01, 0x7F, 0x80, 0xBF, 0xC0, 0xC2, 0xDF, 0xE0, 0xEF, 0xF0, 0xF7, 0xF8, 0xFB, 0xFC, 0xFD, 0xFE, 0xFF};
    int maxlen = thorough ? 7 : 5;
    for (int len = 4; len <= maxlen; ++len)
    {
        int idx[8] = {0};
        for (;;)
        {
            if (R.shard.mine((uint64_t)(idx[0] * 18 + idx[1])))
            {
                for (int i = 0; i < len; ++i) { s[i] = REP[idx[i]]; }
                one_string(s, len, item);
                R.tick();
            }
            ++item;
            int k = len - 1;
            while (k >= 0 && ++idx[k] == 18) { idx[k] = 0; --k; }
            if (k < 0) { break; }
        }
    }
    // every lead byte followed by up to 8 continuation-like bytes, with one intruder at every position: the long forms (0xFC..0xFF) in both tiers
    {
        static const unsigned char CONT[3][8] = {{0x80, 0x80, 0x80, 0x80, 0x80, 0x80, 0x80, 0x80}, {0xBF, 0xBF, 0xBF, 0xBF, 0xBF, 0xBF, 0xBF, 0xBF}, {0x80, 0xBF, 0x9A, 0xA5, 0x80, 0xBF, 0x9A, 0xA5}};
        static const unsigned char INTR[4] = {0x00, 0x7F, 0xC0, 0xFF};
        unsigned char t[9];
        for (int b0 = 0; b0 < 256; ++b0)
        {
            if (!R.shard.mine((uint64_t)b0)) { item += 3 * 33; continue; }
            t[0] = (unsigned char)b0;
            for (int c = 0; c < 3; ++c)
            {
                memcpy(t + 1, CONT[c], 8);
                one_string(t, 9, item++);
                for (int j = 1; j <= 8; ++j) { for (int q = 0; q < 4; ++q) { memcpy(t + 1, CONT[c], 8); t[j] = INTR[q]; one_string(t, 9, item++); } }
            }
        }
    }
    R.part(std::string("decoder on arbitrary bytes: every lead byte + 8 continuation bytes with an intruder at every position; every string of length <=3 over all 256 byte values and of length 4..") + std::to_string(maxlen) + " over 18 lead/continuation class representatives, each with every stated length 0..len ending exactly at an inaccessible page; a_utf_length compared with stepping the decoder", bn, bnt);
    R.sample("{\"bytes\":\"E282\",\"stated\":2,\"decode\":0,\"note\":\"truncated 3-byte sequence, the byte after the stated length is unreadable\"}");
}

// stated lengths of the full width of the size type: a length of 2^32 + k (or the largest value) on complete, NUL-terminated input
// must behave like any other length that covers the sequence - the length is a size, not an unsigned int
static void part_c()
{
    if (R.shard.idx != 0) { return; }
    vx::mark("huge stated lengths");
    uint64_t n = 0;
    static const uint32_t CP[7] = {0x41, 0x7FF, 0xFFFF, 0x1FFFFF, 0x3FFFFFF, 0x7FFFFFFF, 0x20AC};
    if (sizeof(a_size) > 4)
    {
        for (uint32_t cp : CP)
        {
            unsigned char buf[24];
            memset(buf, 0, sizeof buf);
            unsigned len = a_utf_encode(cp, buf);
            a_u32 ref = 0;
            unsigned rlen = a_utf_decode(buf, 6, &ref);
            for (a_size num : {(a_size)1 << 32, ((a_size)1 << 32) + 1, ((a_size)1 << 32) + 3, ((a_size)1 << 32) + 6, (a_size)1 << 40, (a_size)1 << 63, ~(a_size)0})
            {
                a_u32 val = 0;
                unsigned got = a_utf_decode(buf, num, &val), got0 = a_utf_decode(buf, num, nullptr);
                ++n;
                if (got != len || got != rlen || val != ref || got0 != len)
                {
                    R.viol("utf_decode|huge-length", "decoding a complete " + std::to_string(len) + "-byte sequence with a stated length of " + std::to_string((unsigned long long)num) + " returned length " + std::to_string(got) + " / " + std::to_string(got0) + " (a stated length of 6 gives " + std::to_string(rlen) + ")", "{\"cp\":" + std::to_string(cp) + "}");
                }
            }
        }
        // the length counter over a NUL-terminated text with a huge stated length stops at the NUL, like with the exact length
        static const unsigned char TXT[] = {'a', 0xE2, 0x82, 0xAC, 'b', 0xC3, 0xA9, ' ', 'c', 0, 0, 0, 0, 0, 0, 0, 0};
        a_size stop_ref = 777, want = a_utf_length(TXT, 9, &stop_ref);
        for (a_size num : {((a_size)1 << 32) + 2, (a_size)1 << 40, ~(a_size)0})
        {
            a_size stop = 777, got = a_utf_length(TXT, num, &stop);
            ++n;
            if (got != want || stop != stop_ref) { R.viol("utf_length|huge-length", "a_utf_length with a stated length of " + std::to_string((unsigned long long)num) + " counted " + std::to_string((unsigned long long)got) + " code points over " + std::to_string((unsigned long long)stop) + " bytes; the NUL-terminated text has " + std::to_string((unsigned long long)want) + " over " + std::to_string((unsigned long long)stop_ref), "{}"); }
        }
    }
    R.part("stated lengths 2^32, 2^32+k, 2^40, 2^63 and the largest size value on complete NUL-terminated input: decoder and length counter behave as with the exact length", n, n);
}

// ---------------------------------------------------------------- the same buffer decoded again after an in-place edit
// straight-line code through an opaque pointer at -O2: every call reads the bytes as they are at that moment
static __attribute__((noinline)) void decode_twice(unsigned char *p, a_size n, a_u32 *val, unsigned *len, a_size *cnt, a_size *stop)
{
    len[0] = a_utf_decode(p, n, &val[0]);
    len[1] = a_utf_decode(p, n, nullptr);
    cnt[0] = a_utf_length(p, n, &stop[0]);
    cnt[1] = a_utf_length(p, n, nullptr);
    p[0] = 0xE2; p[1] = 0x82; p[2] = 0xAC; // the three-byte form of U+20AC over what was "A" + two-byte U+00E9
    len[2] = a_utf_decode(p, n, &val[1]);
    len[3] = a_utf_decode(p, n, nullptr);
    cnt[2] = a_utf_length(p, n, &stop[1]);
    cnt[3] = a_utf_length(p, n, nullptr);
}
static void part_d()
{
    if (R.shard.idx != 0) { return; }
    unsigned char buf[8] = {0x41, 0xC3, 0xA9, 0x42, 0, 0, 0, 0};
    a_u32 val[2] = {0, 0};
    unsigned len[4];
    a_size cnt[4], stop[2] = {0, 0};
    unsigned char *volatile vp = buf;
    decode_twice(vp, 4, val, len, cnt, stop);
    // before: 'A' (1 byte), U+00E9 (2), 'B' (1): 3 code points over 4 bytes; after: U+20AC (3), 'B' (1): 2 code points over 4 bytes
    bool ok = len[0] == 1 && len[1] == 1 && val[0] == 0x41 && cnt[0] == 3 && cnt[1] == 3 && stop[0] == 4 && len[2] == 3 && len[3] == 3 && val[1] == 0x20AC && cnt[2] == 2 && cnt[3] == 2 && stop[1] == 4;
    if (!ok) { R.viol("utf|reread", "a_utf_decode / a_utf_length called again with the same pointer after the bytes changed in place: lengths " + std::to_string(len[0]) + "," + std::to_string(len[1]) + " then " + std::to_string(len[2]) + "," + std::to_string(len[3]) + ", counts " + std::to_string(cnt[0]) + "," + std::to_string(cnt[1]) + " then " + std::to_string(cnt[2]) + "," + std::to_string(cnt[3]) + " (expected 1,1 then 3,3 and 3,3 then 2,2)", "{}"); }
    R.part("decoder and length counter called again with the same pointer after the bytes changed in place (straight-line code at -O2)", 8, 8);
}

int main(int argc, char **argv)
{
    vx::Args args(argc, argv);
    R.init(args);
    bool thorough = R.tier == "thorough";
    unsigned char *page = (unsigned char *)mmap(nullptr, 8192, PROT_READ | PROT_WRITE, MAP_PRIVATE | MAP_ANONYMOUS, -1, 0);
    mprotect(page + 4096, 4096, PROT_NONE);
    guard = page + 4096;
    return vx::run_contained([&] {
        part_a(thorough);
        part_b(thorough);
        part_c();
        part_d();
        R.finish(true, "every listed domain enumerated completely");
    }, 120.0);
}
