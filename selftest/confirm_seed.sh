#!/bin/bash
# confirm_seed.sh <dir with patch.diff demo.* meta.json> <seed-name>
# Confirms, in a scratch worktree of /repo (outside /repo and /verif), that the seeded change
#  (1) applies and builds, (2) passes the repository's 41 tests, (3) makes its demonstration fail,
#  (4) whose demonstration passes on the unchanged tree.  On success copies it to /verif/seeded/<seed-name>/.
set -u
SRC=$1; NAME=$2
WT=/tmp/seedconf-$NAME
rm -rf $WT; git -C /repo worktree prune; git -C /repo worktree add --detach $WT HEAD >/dev/null 2>&1 || { echo "worktree failed"; exit 2; }
cleanup() { git -C /repo worktree remove --force $WT >/dev/null 2>&1; rm -rf $WT; }
trap cleanup EXIT
cd $WT
MK=$(basename $SRC)
mkdir -p out/$MK; cp -r $SRC/* out/$MK/
CMD=$(python3 -c "
import json,re
c=json.load(open('$SRC/meta.json'))['demo_build_and_run']
c=re.sub(r'/tmp/mut2?/C[0-9]+/','',c)          # agent worktree prefix -> relative to the scratch worktree
c=re.sub(r'^cd\s+\S*\s*&&\s*','',c)
print(c)")
cfg() { cmake -G Ninja -B _build -DCMAKE_BUILD_TYPE=RelWithDebInfo -DBUILD_TESTING=ON >/dev/null 2>&1 && cmake --build _build >/dev/null 2>&1; }
cfg || { echo "FAIL: clean build"; exit 1; }
( timeout 300 bash -c "$CMD" ) >out/unpatched.log 2>&1; U=$?
git apply out/$MK/patch.diff || { echo "FAIL: patch does not apply"; exit 1; }
cfg || { echo "FAIL: patched build"; exit 1; }
T=$(timeout 900 ctest --test-dir _build -j8 --timeout 900 2>&1 | grep -E "tests passed|tests failed")
( timeout 300 bash -c "$CMD" ) >out/patched.log 2>&1; P=$?
echo "$NAME: demo unpatched rc=$U, patched rc=$P, ctest: $T"
if [ $U -eq 0 ] && [ $P -ne 0 ] && echo "$T" | grep -q "100% tests passed"; then
  mkdir -p /verif/seeded/$NAME; cp -r out/$MK/* /verif/seeded/$NAME/
  python3 - <<PY
import json
p='/verif/seeded/$NAME/meta.json'
m=json.load(open(p))
m['confirmed']={'by':'selftest/confirm_seed.sh in a scratch worktree of /repo HEAD','demo_cmd':'''$CMD''','demo_unpatched_rc':$U,'demo_patched_rc':$P,'ctest_with_patch':'''$T'''.strip(),'patched_demo_output_tail':open('out/patched.log',errors='replace').read()[-400:]}
json.dump(m,open(p,'w'),indent=1)
PY
  echo "CONFIRMED $NAME"
else
  echo "REJECTED $NAME"; tail -5 out/unpatched.log out/patched.log
fi
