#!/usr/bin/env python3
"""gen_prompts.py <root> : write <root>/prompts/Cxx.txt, the task text for a mutation sub-agent working in the scratch
worktree <root>/Cxx.  The text contains ONLY the property (from properties.jsonl) and one-line summaries of earlier seeded
changes for it (so that a new round picks different code) - nothing about the checks in /verif."""
import json, glob, os, sys
root = sys.argv[1]
os.makedirs(root + '/prompts', exist_ok=True)
prev = {}
for d in sorted(glob.glob('/verif/seeded/*')):
    m = json.load(open(d + '/meta.json'))
    prev.setdefault(m['property'], []).append(', '.join(m.get('files_changed', [])) + ': ' + m.get('summary', '')[:160])
T = '''You are helping evaluate a verification tool by producing realistic seeded bugs. Work ONLY inside the git worktree at {root}/{id} (a checkout of tqfx/liba, a portable C algorithm library). Do NOT read, list or touch /verif or /repo, and do not look at other directories under /tmp. Do NOT use `git stash` (the stash is shared between worktrees and other agents work in sibling worktrees): to go back and forth use `git apply <patch>` / `git apply -R <patch>` / `git checkout -- .`.

PROPERTY {id}: {title}
Statement: {statement}
Quantifier: {qtext}
Anchored files: {files}

TASK: produce TWO independent changes ("mutations") to the library sources (under src/ and/or include/) that each BREAK this property while
 (a) the library and tests still compile, and
 (b) all 41 existing ctest tests still pass. Build and test with:
     cd {root}/{id} && cmake -G Ninja -B _build -DCMAKE_BUILD_TYPE=RelWithDebInfo -DBUILD_TESTING=ON >/dev/null && cmake --build _build >/dev/null && ctest --test-dir _build -j8
The two mutations must use different mechanisms / touch different code paths. They must be realistic defects a maintainer could plausibly introduce (an off-by-one in a cursor or capacity computation, a wrong branch in one rare case, a missing field update, a wrong sign or constant in one rarely taken numeric branch, a check moved after the action it guards, two sites that each look fine alone, a "simplification" or "optimisation" that is only valid for common inputs, a macro or inline function in a header that evaluates an argument twice or in the wrong order). They must need something SPECIFIC to manifest: a particular multi-step sequence of operations, an unusual input or input shape, a fault at a particular point, a particular build configuration (e.g. a fallback code path selected by not defining an A_HAVE_* macro, or A_SIZE_REAL=4) -- NOT something ordinary use would expose at once, and not a change that makes most calls fail. Prefer SUBTLE effects (a value slightly wrong, an effect visible only several operations later, a rarely reached branch, state left behind for a later call) over gross ones. Do not edit anything under test/ or tests/.

Earlier rounds already produced the following mutations for this property; choose DIFFERENT functions / code paths / mechanisms, and look at parts of the statement that none of them touches:
{prev}

For each mutation k in {{1,2}} create directory {root}/{id}/out/m<k>/ containing:
 - patch.diff : output of `git diff` against HEAD (must apply with `git apply` at the repository root of a clean checkout);
 - demo.c (or demo.cc / demo.sh if more natural): a small stand-alone demonstration that exits 0 when the property holds and non-zero (with a message) when it is violated. It must PASS on the unmodified tree and FAIL with the patch applied. Prefer compiling the needed library sources directly, e.g. `gcc -I include -DA_EXPORTS demo.c src/*.c -lm -o demo`;
 - meta.json : {{"property":"{id}","files_changed":[...],"summary":"one or two sentences: what was changed","needs_to_manifest":"what specific sequence/input/fault/configuration is required","demo_build_and_run":"ONE shell command line, run from the worktree root, writing binaries only under out/, with no trailing comments","tests_pass_with_patch":true,"demo_passes_unpatched":true,"demo_fails_patched":true}}
Verify all three claims yourself by actually running the commands (apply the patch, rebuild, run ctest, run demo; revert, rebuild, run demo). If the unmodified library already violates the property for some input, pick a different mutation/demonstration input for which the unmodified tree is correct, and mention what you saw in your reply.
At the end restore the worktree's tracked files (`git checkout -- .`), keep out/ (untracked), delete _build and any other build products to save disk, and reply with a summary of the two mutations. Never commit anything.'''
for l in open('/verif/properties.jsonl'):
    d = json.loads(l)
    p = '\n'.join(' - ' + x for x in prev.get(d['id'], ['(none)']))
    open('%s/prompts/%s.txt' % (root, d['id']), 'w').write(T.format(root=root, id=d['id'], title=d['title'], statement=d['statement'], qtext=d['quantifier']['text'], files=', '.join(d['anchors']['files']), prev=p))
print('prompts written to', root + '/prompts')
