#!/bin/bash
# reconfirm.sh <property>: re-run confirm_seed.sh for every seed of the property on the current /repo HEAD
P=$1
for s in $(ls /verif/seeded | grep "^$P-"); do
  d=$(python3 -c "
import json,re;c=json.load(open('/verif/seeded/$s/meta.json'))['demo_build_and_run'];m=re.search(r'out/(m\d+)',c);print(m.group(1) if m else 'm1')")
  rm -rf /tmp/reconf-$P; mkdir -p /tmp/reconf-$P; cp -r /verif/seeded/$s /tmp/reconf-$P/$d
  /verif/selftest/confirm_seed.sh /tmp/reconf-$P/$d $s 2>&1 | grep "CONFIRMED\|REJECTED\|FAIL"
done
rm -rf /tmp/reconf-$P
