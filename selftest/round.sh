#!/bin/bash
# round.sh <agent-output-root> <offset> <ID>... : for each property ID, confirm <root>/<ID>/out/m1,m2 as seeds
# <ID>-m<offset+1>, <ID>-m<offset+2> and run the property's quick check against each confirmed seed.
# Output lines "CONFIRMED/REJECTED ..." and "SEED ... rc= violations=" go to stdout.
ROOT=$1; OFF=$2; shift 2
for ID in "$@"; do
  for k in 1 2; do
    SRC=$ROOT/$ID/out/m$k; NAME=$ID-m$((OFF+k))
    [ -f $SRC/patch.diff ] || { echo "MISSING $SRC"; continue; }
    /verif/selftest/confirm_seed.sh $SRC $NAME 2>&1 | grep -E "CONFIRMED|REJECTED|FAIL|demo unpatched"
    [ -d /verif/seeded/$NAME ] && /verif/selftest/run_seed.sh $NAME $ID 2>&1 | grep -E "^SEED|patch does not"
  done
done
