#!/bin/bash
# run_seed.sh <seed-name> <property-id>... : apply seeded/<seed-name>/patch.diff to a scratch worktree of /repo
# (outside /repo and /verif), run the quick check(s) against it via VERIF_REPO, report, remove the worktree.
# TIER=thorough selects the thorough tier.
set -u
NAME=$1; shift
WT=/tmp/seedrun-$NAME
rm -rf $WT; git -C /repo worktree prune; git -C /repo worktree add --detach $WT HEAD >/dev/null 2>&1 || { echo "worktree failed"; exit 2; }
trap 'git -C /repo worktree remove --force '$WT' >/dev/null 2>&1; rm -rf '$WT' /tmp/seedout-'$NAME EXIT
git -C $WT apply /verif/seeded/$NAME/patch.diff || { echo "patch does not apply"; exit 2; }
for ID in "$@"; do
  OUT=$(VERIF_FAIL_FAST=${FAIL_FAST:-1} VERIF_REPO=$WT VERIF_BUILD=/tmp/seedout-$NAME/build VERIF_OUT=/tmp/seedout-$NAME timeout ${TMO:-1800} /verif/vcheck $ID --tier ${TIER:-quick} 2>&1); RC=$?
  N=$(echo "$OUT" | grep -c "^VIOLATION property=$ID")
  echo "SEED $NAME check $ID tier ${TIER:-quick}: rc=$RC violations=$N :: $(echo "$OUT" | grep -m2 'violated:' | tr '\n' ' ' | cut -c1-300)"
  [ "${VERBOSE:-0}" = 1 ] && echo "$OUT" | grep -v conda | tail -20
done
