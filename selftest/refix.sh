#!/bin/bash
# refix.sh <fix-commit> <property-id>... : show that a check fires again when a "fix:" commit of /repo is reverted.
# Works in a scratch worktree of /repo HEAD (outside /repo and /verif) with the commit reverse-applied; never touches /repo.
set -u
C=$1; shift
WT=/tmp/refix-$C-$$
rm -rf $WT; git -C /repo worktree prune; git -C /repo worktree add --detach $WT HEAD >/dev/null 2>&1 || { echo "worktree failed"; exit 2; }
trap 'git -C /repo worktree remove --force '$WT' >/dev/null 2>&1; rm -rf '$WT' /tmp/refixout-'$C-$$ EXIT
git -C /repo show $C | git -C $WT apply -R || { echo "cannot reverse-apply $C"; exit 2; }
for ID in "$@"; do
  OUT=$(VERIF_REPO=$WT VERIF_BUILD=/tmp/refixout-$C-$$/build VERIF_OUT=/tmp/refixout-$C-$$ timeout ${TMO:-1800} /verif/vcheck $ID --tier ${TIER:-quick} 2>&1); RC=$?
  N=$(echo "$OUT" | grep -c "^VIOLATION property=$ID")
  echo "REVERT $C ($(git -C /repo log -1 --format=%s $C | cut -c1-60)) check $ID: rc=$RC violations=$N :: $(echo "$OUT" | grep -m1 'signature:')"
done
