#!/usr/bin/env python3
"""C20 — the Rust binding's mirrored types and foreign declarations against the C ABI (DESIGN.md §4.C20).

For one real width (--width f64|f32) this enumerates EVERY #[repr(C)] struct, every field of each, and every
item of every extern "C" block of $VERIF_REPO/src/lib.rs and checks it, by execution, against what the C
compiler says about the current headers:

  * Rust truth: lib.rs + a generated main compiled by rustc prints size_of / align_of / offset_of! / field sizes;
  * C truth: clang's record layouts and JSON AST of a translation unit that includes every include/a/*.h;
  * static comparison (positional field correspondence, machine-type classes, symbol presence via nm);
  * cross-boundary executions: for every field the Rust side writes a field-unique byte pattern at the place where
    it believes the field lives and a generated C accessor reads that field through the header's definition
    (and the converse direction).

Emits the JSON-lines protocol of engine/vx.hpp on stdout.
"""
import sys, os, re, json, subprocess, tempfile, shutil, glob, argparse

REPO = os.environ.get('VERIF_REPO', '/repo')


def emit(o):
    sys.stdout.write(json.dumps(o) + '\n')
    sys.stdout.flush()


VIOLS = {}


def viol(sig, what, item):
    if sig in VIOLS:
        VIOLS[sig] += 1
        return
    VIOLS[sig] = 1
    emit({'t': 'viol', 'sig': sig, 'what': what, 'replay': {'job': JOB, 'input': item}})


def broken(why):
    emit({'t': 'broken', 'why': why})
    sys.exit(2)


# ----------------------------------------------------------------------------------------------- lib.rs scanner
def strip_comments(src):
    src = re.sub(r'/\*.*?\*/', '', src, flags=re.S)
    src = re.sub(r'//[^\n]*', '', src)
    return src


def split_top(s, sep=','):
    """split at separators that are not nested in (), [], <>"""
    out, depth, cur = [], 0, ''
    i = 0
    while i < len(s):
        c = s[i]
        if c in '([<':
            depth += 1
        elif c in ')]':
            depth -= 1
        elif c == '>' and not (i > 0 and s[i - 1] == '-'):
            depth -= 1
        if c == sep and depth == 0:
            out.append(cur)
            cur = ''
        else:
            cur += c
        i += 1
    if cur.strip():
        out.append(cur)
    return [x.strip() for x in out]


def scan_rust(path):
    src = strip_comments(open(path).read())
    structs, fns, statics = [], [], []
    for m in re.finditer(r'#\[repr\(C\)\]\s*(?:#\[[^\]]*\]\s*)*pub\s+struct\s+(\w+)\s*\{', src):
        name = m.group(1)
        i, depth = m.end(), 1
        while depth:
            if src[i] == '{':
                depth += 1
            elif src[i] == '}':
                depth -= 1
            i += 1
        body = src[m.end():i - 1]
        fields = []
        for f in split_top(body):
            f = re.sub(r'#\[[^\]]*\]', '', f).strip()
            if not f:
                continue
            fm = re.match(r'(?:pub(?:\([^)]*\))?\s+)?(\w+)\s*:\s*(.+)$', f, flags=re.S)
            if not fm:
                broken('cannot parse field %r of struct %s' % (f, name))
            fields.append((fm.group(1), ' '.join(fm.group(2).split())))
        structs.append({'name': name, 'fields': fields})
    for m in re.finditer(r'extern\s+"C"\s*\{', src):
        i, depth = m.end(), 1
        while depth:
            if src[i] == '{':
                depth += 1
            elif src[i] == '}':
                depth -= 1
            i += 1
        body = src[m.end():i - 1]
        for item in split_top(body, ';'):
            item = ' '.join(item.split())
            item = re.sub(r'#\[[^\]]*\]', '', item).strip()
            if not item:
                continue
            fm = None
            hm = re.match(r'(?:pub\s+)?fn\s+(\w+)\s*\(', item)
            if hm:
                j, d = hm.end(), 1
                while d and j < len(item):
                    d += item[j] == '('
                    d -= item[j] == ')'
                    j += 1
                rest = item[j:].strip()
                rm = re.match(r'->\s*(.+)$', rest)
                if rest and not rm:
                    broken('cannot parse foreign item %r' % item)

                class _M:
                    def __init__(self, g):
                        self.g = g

                    def group(self, i):
                        return self.g[i]
                fm = _M([None, hm.group(1), item[hm.end():j - 1], rm.group(1) if rm else None])
            if fm:
                params = []
                pnames = []
                for p in split_top(fm.group(2)):
                    if not p:
                        continue
                    if p == '...':
                        params.append('...')
                        continue
                    pm = re.match(r'(?:mut\s+)?(\w+)\s*:\s*(.+)$', p)
                    if not pm:
                        broken('cannot parse parameter %r of %s' % (p, fm.group(1)))
                    params.append(pm.group(2).strip())
                    pnames.append(pm.group(1))
                fns.append({'name': fm.group(1), 'params': params, 'pnames': pnames, 'ret': (fm.group(3) or '').strip()})
                continue
            sm = re.match(r'(?:pub\s+)?static\s+(?:mut\s+)?(\w+)\s*:\s*(.+)$', item)
            if sm:
                statics.append({'name': sm.group(1), 'type': sm.group(2).strip()})
                continue
            broken('cannot parse foreign item %r' % item)
    return structs, fns, statics


def rust_class(t, real, struct_names):
    """machine-type class of a Rust type as it crosses the C ABI"""
    t = t.strip()
    prim = {'u8': 'u8', 'i8': 'i8', 'u16': 'u16', 'i16': 'i16', 'u32': 'u32', 'i32': 'i32', 'u64': 'u64', 'i64': 'i64', 'usize': 'u64', 'isize': 'i64',
            'f32': 'f32', 'f64': 'f64', 'bool': 'bool', 'c_int': 'i32', 'c_uint': 'u32', 'c_char': 'i8', 'c_long': 'i64', 'c_ulong': 'u64', 'real': real, '()': 'void', '': 'void'}
    if t in prim:
        return prim[t]
    if t.startswith('*const') or t.startswith('*mut') or t.startswith('&'):
        return 'ptr'
    if re.match(r'(Option<)?\s*(unsafe\s+)?extern\s+"C"\s+fn', t):
        return 'fnptr'
    am = re.match(r'\[(.+);\s*(\w+)\]$', t)
    if am:
        n = int(am.group(2), 0)
        return 'array:%d:%s' % (n, rust_class(am.group(1), real, struct_names))
    if t in struct_names:
        return 'struct:' + t
    return 'unknown:' + t


def rust_pointee(t, real, struct_names):
    """class of what a Rust pointer/reference type points to, or None"""
    t = t.strip()
    m = re.match(r'(\*const|\*mut|&mut|&)\s*(.+)$', t)
    if not m:
        return None
    return rust_class(m.group(2), real, struct_names)


def c_pointee(t, typedefs):
    """class of what a C pointer (or decayed array parameter) type points to, or None"""
    t = ' '.join(t.replace('__restrict', '').replace('restrict', '').split())
    if '(*' in t:
        return None
    am = re.match(r'(.+?)\s*\[(\d*)\]$', t)
    if am:
        return c_class(am.group(1), typedefs)
    if t.endswith('*'):
        return c_class(t[:-1].strip(), typedefs)
    if t.endswith('* const'):
        return c_class(t[:-7].strip(), typedefs)
    return None


def pointee_differs(rp, cp):
    """True if both pointees are known, concrete machine types and differ (void and byte pointers are generic)"""
    if rp is None or cp is None:
        return False
    generic = ('void', 'u8', 'i8', 'ptr', 'fnptr')
    def norm(x):
        if x.startswith('array:'):
            x = x.split(':', 2)[2]
        if x.startswith('struct:'):
            x = 'struct:' + re.sub(r'^a_', '', x[7:])
        return x
    rp, cp = norm(rp), norm(cp)
    if rp in generic or cp in generic or rp.startswith('unknown:') or cp.startswith('unknown:'):
        return False
    return rp != cp


# ----------------------------------------------------------------------------------------------- C side
def c_class(t, typedefs, depth=0):
    """machine-type class of a C type string"""
    t = ' '.join(t.replace('__restrict', '').replace('restrict', '').split())
    t = re.sub(r'\b(const|volatile)\b', '', t)
    t = ' '.join(t.split())
    if '(*' in t:
        return 'fnptr'
    if t.endswith('*'):
        return 'ptr'
    am = re.match(r'(.+?)\s*\[(\d+)\]$', t)
    if am:
        return 'array:%s:%s' % (am.group(2), c_class(am.group(1), typedefs, depth))
    prim = {'char': 'i8', 'signed char': 'i8', 'unsigned char': 'u8', 'short': 'i16', 'unsigned short': 'u16', 'int': 'i32', 'unsigned int': 'u32', 'unsigned': 'u32',
            'long': 'i64', 'unsigned long': 'u64', 'long long': 'i64', 'unsigned long long': 'u64', 'float': 'f32', 'double': 'f64', '_Bool': 'bool', 'bool': 'bool', 'void': 'void',
            'long double': 'f80'}
    if t in prim:
        return prim[t]
    if t.startswith('struct ') or t.startswith('union '):
        return 'struct:' + t.split()[1]
    if t == 'a_bool' and typedefs.get(t) == 'unsigned char':
        return 'bool'  # the pre-C99 spelling of the truth type: one byte holding 0 or 1, the same machine type as _Bool and Rust's bool
    if t in typedefs and depth < 16:
        return c_class(typedefs[t], typedefs, depth + 1)
    return 'unknown:' + t


def split_fn_type(q):
    """'ret (params)' -> ret string; handles a returned function pointer 'R (*(params))(P)'"""
    if re.search(r'\(\*\s*\(', q):
        return '__fnptr__'
    i = q.find('(')
    return q[:i].strip() if i >= 0 else q


def run(cmd, **kw):
    return subprocess.run(cmd, capture_output=True, text=True, **kw)


def main():
    global JOB
    ap = argparse.ArgumentParser()
    ap.add_argument('--width', default='f64')
    ap.add_argument('--job', default='abi')
    ap.add_argument('--tier', default='quick')
    ap.add_argument('--config', default='cc')  # cc: the defines of the binding's cc build (build.rs without features); cmake: the configuration header
    # generated by the repository's CMake project with the options the binding's cmake build passes (BUILD_TESTING=0, LIBA_REAL=4 for f32)
    ap.add_argument('--cstd', default='')  # language mode the C side is compiled in (the binding's build script passes none: the compiler default; c90 is the oldest mode the headers support)
    a, _ = ap.parse_known_args()
    JOB = a.job
    real = a.width
    cdef = ['-DA_SIZE_REAL=4'] if real == 'f32' else []
    if a.cstd:
        cdef.append('-std=' + a.cstd)
    inc = os.path.join(REPO, 'include')
    work = tempfile.mkdtemp(prefix='abi-', dir=os.environ.get('VERIF_BUILD', os.path.join(os.path.dirname(os.path.abspath(__file__)), '..', 'build')))
    try:
        if a.config == 'cmake':
            cm = os.path.join(work, 'cm')
            r = run(['cmake', '-S', REPO, '-B', cm, '-G', 'Ninja', '-DBUILD_TESTING=0'] + (['-DLIBA_REAL=4'] if real == 'f32' else []))
            hdr = os.path.join(cm, 'a.cmake.h')
            if r.returncode != 0 or not os.path.exists(hdr):
                emit({'t': 'broken', 'why': 'REPO-BUILD-FAILURE cmake configure: ' + (r.stderr or r.stdout)[-300:]})
                sys.exit(2)
            cdef = ['-DA_HAVE_H="%s"' % hdr]  # the width comes from the generated header, as in the binding's cmake build
        check(real, cdef, inc, work)
    finally:
        shutil.rmtree(work, ignore_errors=True)


def check(real, cdef, inc, work):
    librs = os.path.join(REPO, 'src', 'lib.rs')
    structs, fns, statics = scan_rust(librs)
    snames = {s['name'] for s in structs}
    # ---- C translation unit with every header
    headers = sorted(os.path.basename(h) for h in glob.glob(os.path.join(inc, 'a', '*.h')))
    tu = os.path.join(work, 'tu.c')
    with open(tu, 'w') as f:
        for h in headers:
            f.write('#include "a/%s"\n' % h)
    r = run(['clang', '-fsyntax-only', '-I' + inc, '-Xclang', '-ast-dump=json', tu] + cdef)
    if r.returncode != 0:
        emit({'t': 'broken', 'why': 'the headers of %s do not compile: %s' % (REPO, r.stderr[-400:])})
        sys.exit(2)
    ast = json.loads(r.stdout)
    typedefs, records, cfuncs, cvars = {}, {}, {}, {}
    for n in ast['inner']:
        k = n.get('kind')
        if k == 'TypedefDecl':
            typedefs[n['name']] = n['type'].get('desugaredQualType', n['type']['qualType'])
        elif k == 'RecordDecl' and n.get('completeDefinition') and n.get('name'):
            flds = []
            for x in n.get('inner', []):
                if x.get('kind') == 'FieldDecl':
                    flds.append((x['name'], x['type'].get('desugaredQualType', x['type']['qualType'])))
            records[n['name']] = flds
        elif k == 'FunctionDecl':
            params = [x['type'].get('desugaredQualType', x['type']['qualType']) for x in n.get('inner', []) if x.get('kind') == 'ParmVarDecl']
            pnames = [x.get('name', '') for x in n.get('inner', []) if x.get('kind') == 'ParmVarDecl']
            cfuncs[n['name']] = {'ret': split_fn_type(n['type']['qualType']), 'params': params, 'pnames': pnames, 'variadic': n.get('variadic', False), 'inline': n.get('inline', False) or n.get('storageClass') == 'static'}
        elif k == 'VarDecl':
            cvars[n['name']] = n['type'].get('desugaredQualType', n['type']['qualType'])
    # ---- the library itself, built from the working tree
    objs = []
    for src in sorted(glob.glob(os.path.join(REPO, 'src', '*.c'))):
        o = os.path.join(work, os.path.basename(src) + '.o')
        r = run(['gcc', '-O1', '-w', '-fPIC', '-I' + inc, '-DA_EXPORTS', '-c', src, '-o', o] + cdef)
        if r.returncode != 0:
            emit({'t': 'broken', 'why': 'REPO-BUILD-FAILURE %s: %s' % (src, r.stderr[-300:])})
            sys.exit(2)
        objs.append(o)
    # C-side accessors for every mirrored field
    mirror = {}  # rust struct -> C record name
    for s in structs:
        cn = 'a_' + s['name']
        if cn in records:
            mirror[s['name']] = cn
    acc = os.path.join(work, 'accessors.c')
    with open(acc, 'w') as f:
        f.write('#include <string.h>\n#include <stddef.h>\n')
        for h in headers:
            f.write('#include "a/%s"\n' % h)
        for s in structs:
            cn = mirror.get(s['name'])
            if not cn:
                continue
            cf = records[cn]
            f.write('size_t vabi_sizeof_%s(void) { return sizeof(struct %s); }\n' % (s['name'], cn))
            f.write('size_t vabi_alignof_%s(void) { return _Alignof(struct %s); }\n' % (s['name'], cn))
            f.write('size_t vabi_nfields_%s(void) { return %d; }\n' % (s['name'], len(cf)))
            for i, (fn_, ft) in enumerate(cf):
                f.write('size_t vabi_off_%s_%d(void) { return offsetof(struct %s, %s); }\n' % (s['name'], i, cn, fn_))
                f.write('size_t vabi_size_%s_%d(void) { return sizeof(((struct %s *)0)->%s); }\n' % (s['name'], i, cn, fn_))
                f.write('void vabi_get_%s_%d(const void *s, void *out) { memcpy(out, &((const struct %s *)s)->%s, sizeof(((struct %s *)0)->%s)); }\n' % (s['name'], i, cn, fn_, cn, fn_))
                f.write('void vabi_set_%s_%d(void *s, const void *in) { memcpy(&((struct %s *)s)->%s, in, sizeof(((struct %s *)0)->%s)); }\n' % (s['name'], i, cn, fn_, cn, fn_))
    with open(acc, 'a') as f:
        # the scratch-block size of the fuzzy controller is derived independently on both sides (macro / const fn)
        f.write('#ifdef A_PID_FUZZY_BFUZZ\nsize_t vabi_bfuzz(size_t n) { return A_PID_FUZZY_BFUZZ(n); }\n#else\nsize_t vabi_bfuzz(size_t n) { (void)n; return (size_t)-1; }\n#endif\n')
    has_bfuzz = re.search(r'pub\s+const\s+fn\s+BFUZZ\s*\(', open(librs).read()) is not None
    o = os.path.join(work, 'accessors.o')
    r = run(['gcc', '-O1', '-w', '-fPIC', '-I' + inc, '-c', acc, '-o', o] + cdef)
    if r.returncode != 0:
        broken('accessor generation failed: ' + r.stderr[-400:])
    lib = os.path.join(work, 'liba_s.a')
    run(['ar', 'rcs', lib] + objs + [o])
    syms = set()
    for line in run(['nm', '-g', '--defined-only', lib]).stdout.splitlines():
        p = line.split()
        if len(p) == 3:
            syms.add(p[2])

    # ---- Rust probe: the compiler's own layout + the cross-boundary executions
    probe = os.path.join(work, 'probe.rs')
    with open(probe, 'w') as f:
        f.write(open(librs).read())
        f.write('\n#[allow(dead_code, unused)]\nmod vabi_probe {\n  use super::*;\n  use std::mem::{size_of, align_of, MaybeUninit};\n')
        f.write('  fn szp<T>(_: *const T) -> usize { size_of::<T>() }\n')
        f.write('  extern "C" {\n')
        for s in structs:
            if s['name'] not in mirror:
                continue
            f.write('    fn vabi_sizeof_%s() -> usize; fn vabi_alignof_%s() -> usize; fn vabi_nfields_%s() -> usize;\n' % ((s['name'],) * 3))
            for i in range(len(records[mirror[s['name']]])):
                f.write('    fn vabi_off_%s_%d() -> usize; fn vabi_size_%s_%d() -> usize; fn vabi_get_%s_%d(s: *const u8, out: *mut u8); fn vabi_set_%s_%d(s: *mut u8, inp: *const u8);\n' % ((s['name'], i) * 4))
        f.write('    fn vabi_bfuzz(n: usize) -> usize;\n')
        f.write('  }\n  pub fn run() {\n')
        if has_bfuzz:
            f.write('    for n in 0..17usize { println!("BFUZZ {} {} {}", n, pid_fuzzy::BFUZZ(n), unsafe { vabi_bfuzz(n) }); }\n')
        for s in structs:
            sn = s['name']
            f.write('    println!("STRUCT %s {} {}", size_of::<%s>(), align_of::<%s>());\n' % (sn, sn, sn))
            f.write('    {\n      let u = MaybeUninit::<%s>::zeroed();\n      let p = u.as_ptr();\n' % sn)
            for i, (fname, ftype) in enumerate(s['fields']):
                f.write('      println!("FIELD %s %d %s {} {}", std::mem::offset_of!(%s, %s), szp(unsafe { std::ptr::addr_of!((*p).%s) }));\n' % (sn, i, fname, sn, fname, fname))
            f.write('    }\n')
            if sn in mirror:
                nc = len(records[mirror[sn]])
                f.write('    unsafe {\n      println!("CSTRUCT %s {} {} {}", vabi_sizeof_%s(), vabi_alignof_%s(), vabi_nfields_%s());\n' % (sn, sn, sn, sn))
                for i in range(nc):
                    f.write('      println!("CFIELD %s %d {} {}", vabi_off_%s_%d(), vabi_size_%s_%d());\n' % (sn, i, sn, i, sn, i))
                # cross-boundary: Rust writes a pattern where it believes field i lives, C reads the field by name; and the converse
                for i, (fname, ftype) in enumerate(s['fields']):
                    if i >= nc:
                        break
                    f.write('      {\n        let mut buf = vec![0u8; size_of::<%s>().max(vabi_sizeof_%s()) + 64];\n' % (sn, sn))
                    f.write('        let off = std::mem::offset_of!(%s, %s); let sz = { let u = MaybeUninit::<%s>::zeroed(); szp(std::ptr::addr_of!((*u.as_ptr()).%s)) };\n' % (sn, fname, sn, fname))
                    f.write('        for k in 0..sz { buf[off + k] = (0x41 + %d * 7 + k * 13) as u8 | 1; }\n' % i)
                    f.write('        let csz = vabi_size_%s_%d(); let mut out = vec![0u8; csz + 8];\n' % (sn, i))
                    f.write('        vabi_get_%s_%d(buf.as_ptr(), out.as_mut_ptr());\n' % (sn, i))
                    f.write('        let ok1 = csz == sz && (0..sz).all(|k| out[k] == ((0x41 + %d * 7 + k * 13) as u8 | 1));\n' % i)
                    f.write('        let mut buf2 = vec![0u8; size_of::<%s>().max(vabi_sizeof_%s()) + 64]; let pat: Vec<u8> = (0..csz).map(|k| (0x33 + %d * 5 + k * 11) as u8 | 1).collect();\n' % (sn, sn, i))
                    f.write('        vabi_set_%s_%d(buf2.as_mut_ptr(), pat.as_ptr());\n' % (sn, i))
                    f.write('        let ok2 = csz == sz && (0..sz).all(|k| buf2[off + k] == pat[k]) && (0..buf2.len()).all(|k| (k >= off && k < off + sz) || buf2[k] == 0);\n')
                    f.write('        println!("XFIELD %s %d %s {} {}", ok1, ok2);\n      }\n' % (sn, i, fname))
                f.write('    }\n')
        f.write('  }\n}\nfn main() { vabi_probe::run(); }\n')
    exe = os.path.join(work, 'probe')
    cfg = ['--cfg', 'feature="std"'] + (['--cfg', 'feature="float"'] if real == 'f32' else [])
    r = run(['rustc', '--edition', '2018', '-A', 'warnings', '-C', 'debuginfo=0', '-C', 'opt-level=0'] + cfg + ['-L', work, '-l', 'static=a_s', '-l', 'm', '-o', exe, probe])
    if r.returncode != 0:
        # an undefined symbol at link time is a declared foreign item that the library does not provide
        missing = sorted(set(re.findall(r"undefined reference to `(\w+)'", r.stderr)))
        if missing:
            for m in missing:
                viol('abi|fn|%s|missing-symbol' % m, 'the binding declares foreign item %s but the library built from the working tree does not define it' % m, {'item': m, 'width': real})
            emit({'t': 'done', 'exhaustive': False, 'note': 'probe did not link'})
            return
        broken('rustc failed on the probe: ' + r.stderr[-800:])
    r = run([exe])
    if r.returncode != 0:
        broken('probe crashed: ' + r.stderr[-300:])
    rs, rf, cs, cfld, xf = {}, {}, {}, {}, {}
    bfz = []
    for line in r.stdout.splitlines():
        p = line.split()
        if p[0] == 'STRUCT':
            rs[p[1]] = (int(p[2]), int(p[3]))
        elif p[0] == 'FIELD':
            rf[(p[1], int(p[2]))] = (p[3], int(p[4]), int(p[5]))
        elif p[0] == 'CSTRUCT':
            cs[p[1]] = (int(p[2]), int(p[3]), int(p[4]))
        elif p[0] == 'CFIELD':
            cfld[(p[1], int(p[2]))] = (int(p[3]), int(p[4]))
        elif p[0] == 'BFUZZ':
            bfz.append((int(p[1]), int(p[2]), int(p[3])))
        elif p[0] == 'XFIELD':
            xf[(p[1], int(p[2]))] = (p[4] == 'true', p[5] == 'true')

    programs = 0
    disagreements = 0
    samples = []
    # ---- structs and fields
    for s in structs:
        sn = s['name']
        programs += 1
        item = {'struct': sn, 'width': real}
        if sn not in mirror:
            # not a mirror of a C record (the crc tables): the table's element type and length are checked against a_crcN*_init below
            continue
        cn = mirror[sn]
        csize, calign, cn_fields = cs[sn]
        if rs[sn] != (csize, calign):
            viol('abi|struct|%s|size-align' % sn, 'struct %s: Rust size/align %s, C struct %s size/align %s' % (sn, rs[sn], cn, (csize, calign)), item)
            disagreements += 1
        if len(s['fields']) != cn_fields:
            viol('abi|struct|%s|field-count' % sn, 'struct %s has %d fields in the binding, %s has %d in the header' % (sn, len(s['fields']), cn, cn_fields), item)
            disagreements += 1
        for i, (fname, ftype) in enumerate(s['fields']):
            programs += 1
            if i >= cn_fields:
                break
            cname, ctype = records[cn][i]
            fitem = {'struct': sn, 'field': fname, 'c_field': cname, 'index': i, 'width': real}
            _, roff, rsz = rf[(sn, i)]
            coff, csz = cfld[(sn, i)]
            rc, cc = rust_class(ftype, real, snames), c_class(ctype, typedefs)
            if cc.startswith('struct:'):
                cc = 'struct:' + cc.split(':', 1)[1].replace('a_', '', 1)
            rc = re.sub(r'^(array:\d+:)[iu]8$', r'\1byte', rc)
            cc = re.sub(r'^(array:\d+:)[iu]8$', r'\1byte', cc)
            if roff != coff or rsz != csz:
                viol('abi|field|%s.%s|offset-size' % (sn, fname), 'field %d of %s: Rust %s at offset %d size %d, C %s at offset %d size %d' % (i, sn, fname, roff, rsz, cname, coff, csz), fitem)
                disagreements += 1
            elif rc != cc:
                viol('abi|field|%s.%s|type' % (sn, fname), 'field %d of %s: Rust %s is %s (%s), C %s is %s (%s)' % (i, sn, fname, ftype, rc, cname, ctype, cc), fitem)
                disagreements += 1
            elif pointee_differs(rust_pointee(ftype, real, snames), c_pointee(ctype, typedefs)):
                viol('abi|field|%s.%s|pointee' % (sn, fname), 'field %d of %s: Rust %s points to %s (%s), C %s points to %s (%s): what is stored through one side is read with another element type through the other' % (i, sn, fname, rust_pointee(ftype, real, snames), ftype, cname, c_pointee(ctype, typedefs), ctype), fitem)
                disagreements += 1
            ok1, ok2 = xf.get((sn, i), (False, False))
            if not (ok1 and ok2):
                viol('abi|field|%s.%s|cross-boundary' % (sn, fname), 'field %s.%s: a value written on the %s side is not read identically through the other side\'s definition (C field %s)' % (sn, fname, 'Rust' if not ok1 else 'C', cname), fitem)
                disagreements += 1
            # field order: a name the header uses at a different position means the two sides disagree on which value lives where
            cnames = [x[0].rstrip('_') for x in records[cn]]
            if fname.rstrip('_') != cname.rstrip('_') and fname.rstrip('_') in cnames:
                viol('abi|field|%s.%s|order' % (sn, fname), 'field order of %s: the binding has %s at position %d, the header has %s there and %s at position %d' % (sn, fname, i, cname, fname, cnames.index(fname.rstrip('_'))), fitem)
                disagreements += 1
            if fname.rstrip('_') != cname.rstrip('_') and len(samples) < 3:
                samples.append({'note': 'name differs, layout identical', 'struct': sn, 'rust_field': fname, 'c_field': cname})
    for n_, rv, cv in bfz:
        programs += 1
        if rv != cv and cv != (1 << 64) - 1:
            viol('abi|const|pid_fuzzy::BFUZZ', 'the scratch-block size for %d fuzzy sets is %d bytes in the binding (pid_fuzzy::BFUZZ) and %d bytes in the header (A_PID_FUZZY_BFUZZ): a block sized by one side is too small or laid out differently for the other' % (n_, rv, cv), {'const': 'BFUZZ', 'n': n_, 'width': real})
            disagreements += 1
            break
    # ---- foreign functions and statics
    for fn in fns:
        programs += 1
        name = fn['name']
        item = {'fn': name, 'width': real}
        if name not in cfuncs:
            viol('abi|fn|%s|undeclared' % name, 'foreign function %s is not declared by any header' % name, item)
            disagreements += 1
            continue
        c = cfuncs[name]
        if name not in syms:
            viol('abi|fn|%s|missing-symbol' % name, 'foreign function %s is declared by the binding but not defined by the library built from the working tree' % name, item)
            disagreements += 1
        if len(fn['params']) != len(c['params']):
            viol('abi|fn|%s|arity' % name, '%s takes %d parameters in the binding and %d in the header' % (name, len(fn['params']), len(c['params'])), item)
            disagreements += 1
            continue
        for i, (rp, cp) in enumerate(zip(fn['params'], c['params'])):
            rc, cc = rust_class(rp, real, snames), c_class(cp, typedefs)
            # arrays decay to pointers in C parameter lists; a Rust reference or pointer is a pointer
            if cc.startswith('array:'):
                cc = 'ptr'
            if rc != cc:
                viol('abi|fn|%s|param%d' % (name, i), 'parameter %d of %s: binding %s (%s), header %s (%s)' % (i, name, rp, rc, cp, cc), item)
                disagreements += 1
            elif pointee_differs(rust_pointee(rp, real, snames), c_pointee(cp, typedefs)):
                viol('abi|fn|%s|param%d|pointee' % (name, i), 'parameter %d of %s points to %s in the binding (%s) and to %s in the header (%s)' % (i, name, rust_pointee(rp, real, snames), rp, c_pointee(cp, typedefs), cp), item)
                disagreements += 1
        # parameter ORDER by name: machine types cannot tell two reals apart. Where the binding and the header use the same set of
        # parameter names (trailing underscores ignored), the names must come in the same order
        rn = [x.rstrip('_') for x in fn.get('pnames', []) if x != '...']
        cn = [x.rstrip('_') for x in c.get('pnames', [])]
        if len(rn) == len(cn) and all(cn) and sorted(rn) == sorted(cn) and len(set(rn)) == len(rn) and rn != cn:
            viol('abi|fn|%s|param-order' % name, 'parameters of %s are named %s in the binding but %s in the header: same names, different order' % (name, ', '.join(rn), ', '.join(cn)), item)
            disagreements += 1
        rr = rust_class(fn['ret'], real, snames)
        cr = 'fnptr' if c['ret'] == '__fnptr__' else c_class(c['ret'], typedefs)
        if rr == cr and c['ret'] != '__fnptr__' and pointee_differs(rust_pointee(fn['ret'], real, snames), c_pointee(c['ret'], typedefs)):
            viol('abi|fn|%s|return|pointee' % name, 'the pointer %s returns points to %s in the binding and to %s in the header' % (name, rust_pointee(fn['ret'], real, snames), c_pointee(c['ret'], typedefs)), item)
            disagreements += 1
        if rr != cr:
            viol('abi|fn|%s|return' % name, 'return type of %s: binding %r (%s), header %r (%s)' % (name, fn['ret'] or '()', rr, c['ret'], cr), item)
            disagreements += 1
    for st in statics:
        programs += 1
        name = st['name']
        item = {'static': name, 'width': real}
        if name not in cvars:
            viol('abi|static|%s|undeclared' % name, 'foreign static %s is not declared by any header' % name, item)
            disagreements += 1
            continue
        if name not in syms:
            viol('abi|static|%s|missing-symbol' % name, 'foreign static %s is not defined by the library' % name, item)
            disagreements += 1
        rc, cc = rust_class(st['type'], real, snames), c_class(cvars[name], typedefs)
        if rc != cc:
            viol('abi|static|%s|type' % name, 'static %s: binding %s (%s), header %s (%s)' % (name, st['type'], rc, cvars[name], cc), item)
            disagreements += 1
    # ---- the crc structs are not mirrors: their table must match the array parameter of the init functions
    for w, ty in ((8, 'u8'), (16, 'u16'), (32, 'u32'), (64, 'u64')):
        s = next((x for x in structs if x['name'] == 'crc%d' % w), None)
        if not s:
            continue
        programs += 1
        tf = next((t for n_, t in s['fields'] if n_ == 'table'), None)
        rc = rust_class(tf or '', real, snames)
        cinit = cfuncs.get('a_crc%dm_init' % w)
        want = 'array:256:%s' % ty
        cc = c_class(cinit['params'][0], typedefs) if cinit else 'missing'
        # clang reports the decayed parameter type; the element type is what matters
        if rc != want or not (cc == 'ptr' or cc == want):
            viol('abi|struct|crc%d|table' % w, 'crc%d.table is %s in the binding; a_crc%dm_init takes %s' % (w, tf, w, cinit['params'][0] if cinit else '?'), {'struct': 'crc%d' % w, 'width': real})
            disagreements += 1
    emit({'t': 'stat', 'k': 'programs', 'v': programs})
    emit({'t': 'stat', 'k': 'disagreements_checked', 'v': disagreements})
    emit({'t': 'stat', 'k': 'structs', 'v': len(structs)})
    emit({'t': 'stat', 'k': 'fields', 'v': sum(len(s['fields']) for s in structs)})
    emit({'t': 'stat', 'k': 'foreign_functions', 'v': len(fns)})
    emit({'t': 'stat', 'k': 'foreign_statics', 'v': len(statics)})
    emit({'t': 'stat', 'k': 'cross_boundary_executions', 'v': 2 * len(xf)})
    emit({'t': 'stat', 'k': 'evaluations', 'v': programs})
    emit({'t': 'stat', 'k': 'distinct_nontrivial', 'v': programs})
    for smp in samples:
        emit({'t': 'sample', 'v': smp})
    emit({'t': 'sample', 'v': {'struct': 'pid', 'width': real, 'rust_size_align': rs.get('pid'), 'c_size_align': cs.get('pid', (0, 0, 0))[:2], 'fields': [rf[('pid', i)] for i in range(3)]}})
    fx = next((f for f in fns if f['name'] == 'a_pid_fuzzy_opr'), None)
    if fx:
        emit({'t': 'sample', 'v': {'fn': fx['name'], 'binding': fx, 'header': cfuncs.get(fx['name'])}})
    for sig, n in VIOLS.items():
        emit({'t': 'violcount', 'sig': sig, 'v': n})
    emit({'t': 'done', 'exhaustive': True, 'note': 'every repr(C) struct, field and foreign item of lib.rs'})


if __name__ == '__main__':
    main()
