#!/usr/bin/env python3
"""Run once after a fresh restore (offline): checks the tool chain and pre-builds every quick-tier harness."""
import os, subprocess, sys, shutil
here = os.path.dirname(os.path.dirname(os.path.abspath(__file__)))
os.chdir(here)
for tool in ('gcc', 'g++'):
    if not shutil.which(tool):
        print('missing', tool); sys.exit(1)
sys.path.insert(0, here)
import registry
rc = 0
for pid in sorted(registry.CHECKS):
    r = subprocess.run([sys.executable, os.path.join(here, 'vcheck'), pid, '--tier', 'quick', '--build-only'])
    if r.returncode != 0:
        print('pre-build of', pid, 'failed (the check will retry the build itself)')
print('setup done')
sys.exit(0)
