#!/usr/bin/env python3
"""api_audit.py : which public functions / function-like macros of the anchored headers does no harness of the property mention?
A coverage aid for the maintainer of /verif (not a check): prints, per property, the names declared in the anchored headers
(and the headers matching anchored src files) that do not occur in the harness sources of that property's jobs."""
import json, os, re, sys
sys.path.insert(0, '/verif')
import registry
REPO = os.environ.get('VERIF_REPO', '/repo')
props = [json.loads(l) for l in open('/verif/properties.jsonl')]
for p in props:
    pid = p['id']
    hdrs = set()
    for f in p['anchors']['files']:
        if f.endswith('.h'):
            hdrs.add(f)
        elif f.startswith('src/') and f.endswith('.c'):
            h = 'include/a/' + os.path.basename(f)[:-2] + '.h'
            if os.path.exists(os.path.join(REPO, h)):
                hdrs.add(h)
    names = set()
    for h in sorted(hdrs):
        txt = open(os.path.join(REPO, h)).read()
        txt = re.sub(r'/\*.*?\*/', '', txt, flags=re.S)
        for m in re.finditer(r'\b(a_[a-z0-9_]+|A_[A-Z0-9_]+)\s*\(', txt):
            names.add(m.group(1))
    harness = set()
    for tier in ('quick', 'thorough'):
        for j in registry.CHECKS[pid]['jobs'](tier):
            for hfile in j.get('harness', []):
                harness.add(hfile)
            if 'script' in j:
                harness.add(j['script'])
    src = ''
    for hfile in harness:
        src += open(os.path.join('/verif', hfile)).read()
        # headers included by the harness from /verif/harness
        for inc in re.findall(r'#include "([a-z_]+\.hpp)"', src):
            q = os.path.join('/verif/harness', inc)
            if os.path.exists(q):
                src += open(q).read()
    missing = sorted(n for n in names if not re.search(r'\b' + re.escape(n) + r'\b', src))
    skip = re.compile(r'^(A_EXTERN|A_INTERN|A_INLINE|A_PUBLIC|A_HIDDEN|A_CAST_\w+|a_cast_\w+|A_DEPRECATED|A_FORMAT|A_NONULL|A_ASSUME|A_LIKELY|A_UNLIKELY|a_real_c|A_REAL_C|a_size_c|a_cast|A_U\d+_C|A_I\d+_C)$')
    missing = [n for n in missing if not skip.match(n)]
    print('%s (%s): %d names, %d not mentioned by %s' % (pid, ', '.join(sorted(os.path.basename(h) for h in hdrs)), len(names), len(missing), ', '.join(sorted(harness))))
    if missing:
        print('    ' + ' '.join(missing))
