#!/usr/bin/env python3
"""macro_twins.py --headers a.h,b.h [--defs -DX ...] --job NAME

Declaration-space enumeration for the headers a property is anchored in: every function the headers declare is looked up among
the function-like macros the same headers define.  A macro of the same name ("twin") is what a caller writing f(x, y) gets
instead of the function, so it must behave like a call: the preprocessor is run on  f(ARG1, ARG2, ...)  and every argument
marker must appear exactly once in the expansion outside sizeof (evaluated once, like a function argument) and the twin must
accept the function's number of arguments.  What the expansion computes is the business of the harnesses, which spell every
call plainly so that a twin is what they execute.

Speaks the JSON-lines protocol of vcheck (viol / stat / done)."""
import argparse, json, os, re, subprocess, sys, tempfile, shutil

REPO = os.environ.get('VERIF_REPO', '/repo')
JOB = 'macro-twins'


def emit(o):
    sys.stdout.write(json.dumps(o) + '\n')
    sys.stdout.flush()


def run(cmd):
    return subprocess.run(cmd, capture_output=True, text=True)


def strip_sizeof(s):
    out, i = '', 0
    while True:
        m = re.search(r'\bsizeof\s*\(', s[i:])
        if not m:
            return out + s[i:]
        out += s[i:i + m.start()]
        j, d = i + m.end(), 1
        while j < len(s) and d:
            d += {'(': 1, ')': -1}.get(s[j], 0)
            j += 1
        i = j


def probe_config(heads, defs, inc, work):
    """returns (functions declared, twins probed) for one header configuration"""
    cfg = ' '.join(defs) or 'default'
    tu = os.path.join(work, 'tu.c')
    with open(tu, 'w') as f:
        for h in heads:
            f.write('#include "a/%s"\n' % h)
    r = run(['clang', '-fsyntax-only', '-I' + inc, '-Xclang', '-ast-dump=json', tu] + defs)
    if r.returncode != 0:
        emit({'t': 'broken', 'why': '[%s] the headers do not compile: %s' % (cfg, r.stderr[-300:])})
        sys.exit(2)
    funcs = {}
    for n in json.loads(r.stdout)['inner']:
        if n.get('kind') == 'FunctionDecl' and n.get('name', '').startswith('a_'):
            funcs[n['name']] = len([x for x in n.get('inner', []) if x.get('kind') == 'ParmVarDecl'])
    r = run(['gcc', '-E', '-dM', '-I' + inc, tu] + defs)
    if r.returncode != 0:
        emit({'t': 'broken', 'why': 'macro dump failed: ' + r.stderr[-300:]})
        sys.exit(2)
    twins = []
    for line in r.stdout.splitlines():
        m = re.match(r'#define\s+(\w+)\(([^)]*)\)', line)
        if m and m.group(1) in funcs:
            twins.append(m.group(1))
    probed = 0
    for name in sorted(twins):
        k = funcs[name]
        probe = os.path.join(work, 'probe.c')
        with open(probe, 'w') as f:
            for h in heads:
                f.write('#include "a/%s"\n' % h)
            f.write('VXPROBE_BEGIN %s(%s) VXPROBE_END\n' % (name, ', '.join('VXARG%d' % i for i in range(k))))
        r = run(['gcc', '-E', '-P', '-I' + inc, probe] + defs)
        probed += 1
        item = {'function': name, 'params': k, 'config': cfg}
        if r.returncode != 0:
            emit({'t': 'viol', 'sig': 'twin|%s|arity|%s' % (name, cfg), 'what': '[%s] the header defines a function-like macro %s that does not accept the %d arguments of the function it shadows: %s' % (cfg, name, k, r.stderr.strip().splitlines()[-1] if r.stderr.strip() else ''), 'replay': {'job': JOB, 'input': item}})
            continue
        m = re.search(r'VXPROBE_BEGIN(.*)VXPROBE_END', r.stdout, re.S)
        body = strip_sizeof(m.group(1)) if m else ''
        for i in range(k):
            c = len(re.findall(r'\bVXARG%d\b' % i, body))
            if c != 1:
                emit({'t': 'viol', 'sig': 'twin|%s|argument-evaluation|%s' % (name, cfg), 'what': '[%s] the header defines a function-like macro %s that shadows the function: a call %s(...) evaluates argument %d %d times (expansion: %s)' % (cfg, name, name, i + 1, c, ' '.join(body.split())[:200]), 'replay': {'job': JOB, 'input': item}})
                break
    return len(funcs), probed


def main():
    global JOB
    ap = argparse.ArgumentParser()
    ap.add_argument('--headers', required=True)
    ap.add_argument('--defs', default='')
    ap.add_argument('--job', default=JOB)
    ap.add_argument('--tier', default='quick')
    a, _ = ap.parse_known_args()
    JOB = a.job
    inc = os.path.join(REPO, 'include')
    base = [d for d in a.defs.split(',') if d]
    heads = [h for h in a.headers.split(',') if h]
    # the headers' conditional sections: inline bodies on (default) and off, both real widths
    configs = [base, base + ['-DA_HAVE_INLINE=0'], base + ['-DA_SIZE_REAL=4'], base + ['-DA_HAVE_INLINE=0', '-DA_SIZE_REAL=4']]
    work = tempfile.mkdtemp(prefix='twins-', dir=os.environ.get('VERIF_BUILD', os.path.join(os.path.dirname(os.path.abspath(__file__)), '..', 'build')))
    nfuncs = nprobed = 0
    try:
        for defs in configs:
            f_, p_ = probe_config(heads, defs, inc, work)
            nfuncs += f_
            nprobed += p_
        emit({'t': 'stat', 'k': 'evaluations', 'v': nfuncs + nprobed})
        emit({'t': 'stat', 'k': 'distinct_nontrivial', 'v': nfuncs})
        emit({'t': 'stat', 'k': 'functions_declared', 'v': nfuncs})
        emit({'t': 'stat', 'k': 'macro_twins_probed', 'v': nprobed})
        emit({'t': 'done', 'exhaustive': True, 'note': 'every function declared by %s looked up among the function-like macros in %d header configurations; %d twin(s) expanded' % (', '.join(heads), len(configs), nprobed)})
    finally:
        shutil.rmtree(work, ignore_errors=True)


if __name__ == '__main__':
    main()
